//go:build verif

// White-box accessor for the count of open connections (see varlink_whitebox.go). Kept in a file of its own: it is the
// only accessor that names a private field which a refactoring may legitimately rename or move; when it does not compile,
// ./check builds with varlink_whitebox_noactive.go instead and the monitors do without the count.

package varlink

// VerifActive returns the number of accepted connections that are still being handled.
func (s *Service) VerifActive() int64 {
	s.mutex.Lock()
	defer s.mutex.Unlock()
	return s.conncounter
}
