//go:build verif

// White-box accessors for the /verif runtime monitors. This file is NOT part of
// varlink/go: it is injected at build time with `go build -tags verif -overlay ...`
// so that it appears as /repo/varlink/zz_verif_whitebox.go. It only adds code.

package varlink

import (
	"net"

	"github.com/varlink/go/varlink/internal/ctxio"
)

// VerifSetListener installs a caller supplied listener, under the service's own mutex,
// exactly like setListener() does for a listener the library created itself.
func (s *Service) VerifSetListener(l net.Listener) {
	s.mutex.Lock()
	s.listener = l
	s.mutex.Unlock()
}

// VerifCtxConn is what ctxio.NewConn returns, seen from outside the internal package.
type VerifCtxConn interface {
	ReadWriterContext
	Close() error
}

// VerifNewCtxConn wraps a net.Conn in the library's context aware connection.
func VerifNewCtxConn(c net.Conn) VerifCtxConn {
	return ctxio.NewConn(c)
}

// VerifConnOf exposes the context aware connection of a client Connection (the object
// that Upgrade hands to the application).
func VerifConnOf(c *Connection) VerifCtxConn {
	return c.conn
}
