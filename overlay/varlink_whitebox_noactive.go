//go:build verif

// Fallback for trees in which Service.conncounter does not exist (any more): the count is not observable.

package varlink

// VerifActive returns -1: unknown.
func (s *Service) VerifActive() int64 { return -1 }
