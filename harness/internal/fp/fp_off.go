//go:build !verif_fp

// Package fp drives the gofail failpoints of a failpoint build (see fp_on.go). This is the variant of ordinary builds.
package fp

type Stats struct {
	Sites, SitesEnabled, SitesHit int
	Hits, Epochs                  int64
	HitSites                      []string
}

func Available() bool                    { return false }
func Start(seed int64) (stop func() Stats) { return func() Stats { return Stats{} } }

func Step() {}
