//go:build verif_fp

// Package fp drives the gofail failpoints that /verif/check inserts into a scratch copy of the tree under test
// (cmd/fpinsert + `gofail enable`): a scheduler that, epoch after epoch, activates a seeded choice of sites with a
// seeded delay, so that the windows between the library's own steps (between two critical sections, between Accept and
// the bookkeeping, between arming a deadline and blocking) are held open while the ordinary workloads and their
// oracles run.  It only ever delays; it never changes a value or injects an error, so every execution it produces is
// one the unmodified library can have on a slow or loaded machine.
package fp

import (
	"fmt"
	"math/rand"
	"sort"
	"sync"
	"time"

	"go.etcd.io/gofail/runtime"
)

type Stats struct {
	Sites, SitesEnabled, SitesHit int
	Hits, Epochs                  int64
	HitSites                      []string
}

func Available() bool { return len(runtime.List()) > 0 }

var step = make(chan struct{}, 1)

// Step ends the current epoch now: a workload that consists of very many very short rounds asks for a new choice of sites
// every few rounds instead of every 30-150 ms.
func Step() {
	select {
	case step <- struct{}{}:
	default:
	}
}

// Start runs the scheduler until stop is called.
func Start(seed int64) (stop func() Stats) {
	sites := runtime.List()
	sort.Strings(sites)
	rng := rand.New(rand.NewSource(seed*7919 + 17))
	var mu sync.Mutex
	enabled := map[string]bool{}
	hit := map[string]int64{}
	var epochs int64
	active := []string{}
	quit := make(chan struct{})
	done := make(chan struct{})
	harvest := func() {
		for _, s := range active {
			if _, n, err := runtime.Status(s); err == nil && n > 0 {
				hit[s] += int64(n)
			}
			runtime.Disable(s)
		}
		active = active[:0]
	}
	// sites that were reached in earlier epochs are preferred half of the time: a delay at a place the workload never
	// passes teaches nothing
	pick := func() string {
		if len(hit) > 0 && rng.Intn(2) == 0 {
			ks := make([]string, 0, len(hit))
			for k := range hit {
				ks = append(ks, k)
			}
			sort.Strings(ks)
			return ks[rng.Intn(len(ks))]
		}
		return sites[rng.Intn(len(sites))]
	}
	go func() {
		defer close(done)
		for {
			mu.Lock()
			harvest()
			epochs++
			switch m := rng.Intn(10); {
			case m < 4: // a few sites, always, 0.2 - 8 ms
				for i, n := 0, 1+rng.Intn(3); i < n; i++ {
					s := pick()
					if runtime.Enable(s, fmt.Sprintf("return(%d)", 2+rng.Intn(79))) == nil {
						active = append(active, s)
					}
				}
			case m < 6: // one site, a long stall (20 - 45 ms), two times out of three
				s := pick()
				if runtime.Enable(s, fmt.Sprintf("66.0%%return(%d)", 200+rng.Intn(250))) == nil {
					active = append(active, s)
				}
			case m < 8: // every site, rarely, short (yield or 0.1 - 1 ms)
				p := 1 + rng.Intn(5)
				for _, s := range sites {
					if runtime.Enable(s, fmt.Sprintf("%d.0%%return(%d)", p, rng.Intn(11))) == nil {
						active = append(active, s)
					}
				}
			case m < 9: // a dozen sites yield the processor every time
				for i := 0; i < 12; i++ {
					s := pick()
					if runtime.Enable(s, "return(0)") == nil {
						active = append(active, s)
					}
				}
			default: // nothing: the workload at its own pace
			}
			for _, s := range active {
				enabled[s] = true
			}
			mu.Unlock()
			select {
			case <-quit:
				return
			case <-step:
			case <-time.After(time.Duration(30+rng.Intn(120)) * time.Millisecond):
			}
		}
	}()
	return func() Stats {
		close(quit)
		<-done
		mu.Lock()
		defer mu.Unlock()
		harvest()
		st := Stats{Sites: len(sites), SitesEnabled: len(enabled), SitesHit: len(hit), Epochs: epochs}
		for s, n := range hit {
			st.Hits += n
			st.HitSites = append(st.HitSites, s)
		}
		sort.Strings(st.HitSites)
		return st
	}
}
