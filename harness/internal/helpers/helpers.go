// Package helpers holds the helper subprocess entry points (vcheck --helper <name> ...).
package helpers

import (
	"fmt"
	"os"
)

var table = map[string]func([]string){}

func Register(name string, f func([]string)) { table[name] = f }

func Main(a []string) {
	if len(a) < 1 || table[a[0]] == nil {
		fmt.Fprintln(os.Stderr, "unknown helper", a)
		os.Exit(3)
	}
	table[a[0]](a[1:])
}
