// Package racelog parses Go race detector logs (GORACE=log_path=...) into de-duplicated reports.
package racelog

import (
	"encoding/json"
	"os"
	"path/filepath"
	"regexp"
	"sort"
	"strings"

	"verif/harness/internal/fw"
)

type Report struct {
	Key      string // sorted pair of the first library (or first) frames of the two accesses, lines stripped
	Sites    string // same with file:line
	Relevant bool   // some stack has a varlink/go frame
	Text     string
}

const libMarker = "github.com/varlink/go/"

// overlayFile is the file name under which the white-box accessors are injected into package varlink (see ./check).
const overlayFile = "zz_verif_whitebox"

var lineRx = regexp.MustCompile(`^\s+(/\S+\.go):(\d+)`)

// Parse reads every <dir>/<prefix>.* file.
func Parse(dir, prefix string) []Report {
	files, _ := filepath.Glob(filepath.Join(dir, prefix+".*"))
	sort.Strings(files)
	var out []Report
	for _, f := range files {
		b, err := os.ReadFile(f)
		if err != nil {
			continue
		}
		for _, blk := range strings.Split(string(b), "==================") {
			if !strings.Contains(blk, "WARNING: DATA RACE") {
				continue
			}
			out = append(out, parseBlock(blk))
		}
	}
	return out
}

func parseBlock(blk string) Report {
	r := Report{Text: strings.TrimSpace(blk), Relevant: strings.Contains(blk, libMarker)}
	// sections are separated by blank lines; the first two are the access stacks
	secs := strings.Split(strings.TrimSpace(blk), "\n\n")
	var keys, sites []string
	for i, s := range secs {
		if i >= 2 {
			break
		}
		fn, site := pickFrame(s)
		keys = append(keys, fn)
		sites = append(sites, fn+"@"+site)
		if strings.HasPrefix(site, overlayFile) || strings.HasPrefix(site, "varlink_whitebox") {
			// one of the two accesses is made by the harness' own white-box accessor (overlay file): its locking mirrors
			// the pinned tree and says nothing about the library's own accesses
			r.Relevant = false
		}
	}
	sort.Strings(keys)
	sort.Strings(sites)
	r.Key = strings.Join(keys, " <-> ")
	r.Sites = strings.Join(sites, " <-> ")
	return r
}

// pickFrame returns the first frame of the section that lies in the library, or else the first frame.
func pickFrame(sec string) (fn, site string) {
	lines := strings.Split(sec, "\n")
	firstFn, firstSite := "?", "?"
	for i := 0; i+1 < len(lines); i++ {
		l := strings.TrimSpace(lines[i])
		if l == "" || strings.HasSuffix(l, ":") || strings.HasPrefix(l, "WARNING") {
			continue
		}
		m := lineRx.FindStringSubmatch(lines[i+1])
		if m == nil {
			continue
		}
		f := l
		if j := strings.LastIndex(f, "("); j > 0 {
			f = f[:j]
		}
		s := filepath.Base(m[1]) + ":" + m[2]
		if firstFn == "?" {
			firstFn, firstSite = f, s
		}
		if strings.Contains(l, libMarker) {
			return f, s
		}
	}
	return firstFn, firstSite
}

// Fold turns the reports into violations (relevant ones) and counters.
func Fold(res *fw.Result, reps []Report) {
	if res.Counters == nil {
		res.Counters = map[string]int64{}
	}
	res.Counters["race_reports_raw"] = int64(len(reps))
	seen := map[string]bool{}
	var rel, irrel int64
	for _, r := range reps {
		if !r.Relevant {
			irrel++
			if irrel <= 3 {
				res.Notes = append(res.Notes, "race report without a library frame (harness-only): "+r.Sites)
			}
			continue
		}
		rel++
		if seen[r.Key] {
			continue
		}
		seen[r.Key] = true
		c, _ := json.Marshal(map[string]string{"sites": r.Sites, "report": r.Text})
		res.Violations = append(res.Violations, fw.Violation{Signature: "race " + r.Key, Detail: r.Sites + "\n" + r.Text, Case: c})
		res.ViolationsN++
	}
	res.Counters["race_reports_relevant"] = rel
	res.Counters["race_reports_harness_only"] = irrel
	res.Counters["race_reports_distinct"] = int64(len(seen))
}
