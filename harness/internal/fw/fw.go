// Package fw is the small framework shared by all monitors: engine registry, result
// accumulation (thread safe), crash journal, evidence and replay files, known findings.
package fw

import (
	"encoding/json"
	"fmt"
	"hash/fnv"
	"os"
	"path/filepath"
	"sort"
	"sync"
	"sync/atomic"
	"time"
)

// Engine describes the check of one property.
type Engine struct {
	ID          string
	Level       string // exploration | fault_enumeration | translation_validation ...
	Rule        string // how cases are generated and what makes one non-trivial
	Assumptions []string
	// Run drives the whole workload for r.Tier / r.Seed.
	Run func(r *Run)
	// Replay re-executes one recorded case (the Case of a Violation).
	Replay func(r *Run, c json.RawMessage)
	// Race: the child must be the -race build and race logs are the oracle.
	Race bool
	// CrashIsViolation: if the child process dies inside a journalled case, that is a
	// violation of this property (crash monitors), not a harness error.
	CrashIsViolation bool
	// FP: the workload is run a second time in a failpoint build (gofail sites inserted into a scratch copy of the tree
	// under test, see /verif/check and internal/fp) while a scheduler holds seeded windows inside the library open.
	FP bool
	// MinEvals is the floor below which a run has observed nothing (exit 3).
	MinEvals int64
	// Timeout for the child (generous watchdog; expiry = inconclusive unless the engine
	// itself decided otherwise).
	QuickTimeout, ThoroughTimeout time.Duration
}

var engines = map[string]*Engine{}

// fpIDs: the properties whose workloads run a second time in the failpoint build (everything that has goroutines of the
// library on the path: accept loop, per-connection handlers, the helper goroutine of every context aware I/O call).
var fpIDs = map[string]bool{"C01": true, "C02": true, "C03": true, "C04": true, "C10": true, "C11": true, "C12": true, "C13": true,
	"C14": true, "C15": true, "C17": true, "C18": true}

func Register(e *Engine) {
	if fpIDs[e.ID] {
		e.FP = true
	}
	engines[e.ID] = e
}
func Lookup(id string) *Engine { return engines[id] }
func IDs() []string {
	var ids []string
	for id := range engines {
		ids = append(ids, id)
	}
	sort.Strings(ids)
	return ids
}

type Violation struct {
	Signature string          `json:"signature"`
	Detail    string          `json:"detail"`
	Case      json.RawMessage `json:"case"`
}

// Result is what a child hands to the parent.
type Result struct {
	Property     string             `json:"property"`
	Tier         string             `json:"tier"`
	Seed         int64              `json:"seed"`
	Evaluations  int64              `json:"evaluations"`
	Nontrivial   int64              `json:"distinct_nontrivial"`
	Counters     map[string]int64   `json:"counters"`
	DistinctN    map[string]int64   `json:"distinct"`
	DistinctEx   map[string][]string `json:"distinct_examples"`
	Samples      []json.RawMessage  `json:"samples"`
	Violations   []Violation        `json:"violations"`
	ViolationsN  int64              `json:"violations_total"`
	Inconclusive []string           `json:"inconclusive"`
	InconclusiveN int64             `json:"inconclusive_total"`
	Notes        []string           `json:"notes"`
	WallS        float64            `json:"wall_s"`
	Completed    bool               `json:"completed"`
}

// Run is the accumulation context handed to an engine.
type Run struct {
	Tier    string
	Seed    int64
	WorkDir string
	Repo    string
	Thorough bool
	FPStep   func() // failpoint pass: ends the scheduler's current epoch (nil otherwise)
	FP       bool // failpoint pass: the quick case counts in both tiers (the thorough tier runs it under three seeds)

	mu        sync.Mutex
	evals     int64
	nontriv   map[uint64]struct{}
	counters  map[string]int64
	distinct  map[string]map[string]struct{}
	samples   []json.RawMessage
	sampleSeen int64
	viol      []Violation
	violSig   map[string]int
	violN     int64
	incon     []string
	inconN    int64
	notes     []string
	start     time.Time
	seq       int64
	jmu       sync.Mutex
	jfiles    map[int]*os.File
}

func NewRun(tier string, seed int64, workdir, repo string) *Run {
	return &Run{Tier: tier, Seed: seed, WorkDir: workdir, Repo: repo, Thorough: tier == "thorough",
		nontriv: map[uint64]struct{}{}, counters: map[string]int64{}, distinct: map[string]map[string]struct{}{},
		violSig: map[string]int{}, start: time.Now()}
}

// Pick returns q for the quick tier and t for the thorough tier.
func (r *Run) Pick(q, t int) int {
	if r.FP {
		return q
	}
	if r.Thorough {
		return t
	}
	return q
}

// StepFP asks the failpoint scheduler for a new choice of sites now (no-op outside the failpoint pass).
func (r *Run) StepFP() {
	if r.FPStep != nil {
		r.FPStep()
	}
}

// Seq is the process wide logical clock: the only notion of time oracles use.
func (r *Run) Seq() int64 { return atomic.AddInt64(&r.seq, 1) }

func Hash(parts ...string) uint64 {
	h := fnv.New64a()
	for _, p := range parts {
		h.Write([]byte(p))
		h.Write([]byte{0xff})
	}
	return h.Sum64()
}

func HashBytes(b []byte) uint64 {
	h := fnv.New64a()
	h.Write(b)
	return h.Sum64()
}

// Case records one executed case. hash identifies the case's canonical content;
// nontrivial says whether it counts by the engine's rule.
func (r *Run) Case(hash uint64, nontrivial bool) {
	r.mu.Lock()
	r.evals++
	if nontrivial {
		r.nontriv[hash] = struct{}{}
	}
	r.mu.Unlock()
}

func (r *Run) Evals() int64 {
	r.mu.Lock()
	defer r.mu.Unlock()
	return r.evals
}

func (r *Run) Count(key string, n int64) {
	r.mu.Lock()
	r.counters[key] += n
	r.mu.Unlock()
}

func (r *Run) Max(key string, v int64) {
	r.mu.Lock()
	if v > r.counters[key] {
		r.counters[key] = v
	}
	r.mu.Unlock()
}

const distinctCap = 200000

// Distinct adds v to the set named key (the evidence reports the set's size).
func (r *Run) Distinct(key, v string) {
	r.mu.Lock()
	m := r.distinct[key]
	if m == nil {
		m = map[string]struct{}{}
		r.distinct[key] = m
	}
	if len(m) < distinctCap {
		if len(v) > 200 {
			v = fmt.Sprintf("%s…#%x", v[:60], Hash(v))
		}
		m[v] = struct{}{}
	}
	r.mu.Unlock()
}

// Sample keeps a few actual cases (first three and then a sparse selection).
func (r *Run) Sample(v interface{}) {
	r.mu.Lock()
	defer r.mu.Unlock()
	r.sampleSeen++
	n := r.sampleSeen
	if len(r.samples) >= 8 {
		return
	}
	if n <= 3 || n%997 == 0 {
		b, err := json.Marshal(v)
		if err == nil {
			if len(b) > 1500 {
				b, _ = json.Marshal(map[string]interface{}{"truncated": string(b[:1400]), "bytes": len(b)})
			}
			r.samples = append(r.samples, b)
		}
	}
}

func (r *Run) Note(format string, a ...interface{}) {
	r.mu.Lock()
	if len(r.notes) < 50 {
		r.notes = append(r.notes, fmt.Sprintf(format, a...))
	}
	r.mu.Unlock()
}

// Violation records a refutation. sig names the failing input class / call site /
// history shape (matched against KNOWN_FINDINGS.json); c is the concrete case (replayable).
func (r *Run) Violation(sig, detail string, c interface{}) {
	b, err := json.Marshal(c)
	if err != nil {
		b, _ = json.Marshal(fmt.Sprintf("%+v", c))
	}
	r.mu.Lock()
	defer r.mu.Unlock()
	r.violN++
	r.violSig[sig]++
	if r.violSig[sig] > 3 || len(r.viol) >= 60 {
		return
	}
	if len(detail) > 6000 {
		detail = detail[:6000] + "…"
	}
	r.viol = append(r.viol, Violation{Signature: sig, Detail: detail, Case: b})
}

func (r *Run) ViolationCount() int64 {
	r.mu.Lock()
	defer r.mu.Unlock()
	return r.violN
}

func (r *Run) Inconclusive(format string, a ...interface{}) {
	r.mu.Lock()
	r.inconN++
	if len(r.incon) < 20 {
		r.incon = append(r.incon, fmt.Sprintf(format, a...))
	}
	r.mu.Unlock()
}

// ---- crash journal -------------------------------------------------------------------

// Journal writes the case a worker is about to execute to <workdir>/cur.<worker>, so the
// parent can name the case that killed the child. Call Done when the case has ended.
// Layout of the file: 8 hex digits length + newline, then the case bytes (length 0 = idle).
func (r *Run) Journal(worker int, c interface{}) {
	b, _ := json.Marshal(c)
	r.JournalRaw(worker, b)
}

func (r *Run) jfile(worker int) *os.File {
	r.jmu.Lock()
	defer r.jmu.Unlock()
	if r.jfiles == nil {
		r.jfiles = map[int]*os.File{}
	}
	f := r.jfiles[worker]
	if f == nil {
		f, _ = os.OpenFile(filepath.Join(r.WorkDir, fmt.Sprintf("cur.%d", worker)), os.O_CREATE|os.O_RDWR, 0644)
		r.jfiles[worker] = f
	}
	return f
}

func (r *Run) JournalRaw(worker int, b []byte) {
	f := r.jfile(worker)
	if f == nil {
		return
	}
	buf := make([]byte, 0, len(b)+9)
	buf = append(buf, fmt.Sprintf("%08x\n", len(b))...)
	buf = append(buf, b...)
	f.WriteAt(buf, 0)
}

func (r *Run) Done(worker int) {
	if f := r.jfile(worker); f != nil {
		f.WriteAt([]byte("00000000\n"), 0)
	}
}

// ReadJournal returns the in-flight case recorded in a cur.<n> file (nil if idle).
func ReadJournal(path string) []byte {
	b, err := os.ReadFile(path)
	if err != nil || len(b) < 9 {
		return nil
	}
	var n int
	if _, err := fmt.Sscanf(string(b[:8]), "%x", &n); err != nil || n == 0 || 9+n > len(b) {
		return nil
	}
	return b[9 : 9+n]
}

// Result freezes the accumulated state.
func (r *Run) Result(id string, completed bool) *Result {
	r.mu.Lock()
	defer r.mu.Unlock()
	res := &Result{Property: id, Tier: r.Tier, Seed: r.Seed, Evaluations: r.evals, Nontrivial: int64(len(r.nontriv)),
		Counters: r.counters, DistinctN: map[string]int64{}, DistinctEx: map[string][]string{}, Samples: r.samples,
		Violations: r.viol, ViolationsN: r.violN, Inconclusive: r.incon, InconclusiveN: r.inconN, Notes: r.notes,
		WallS: time.Since(r.start).Seconds(), Completed: completed}
	for k, m := range r.distinct {
		res.DistinctN[k] = int64(len(m))
		var ex []string
		for v := range m {
			ex = append(ex, v)
		}
		sort.Strings(ex)
		if len(ex) > 12 {
			ex = ex[:12]
		}
		res.DistinctEx[k] = ex
	}
	return res
}

// Parallel runs f(worker, i) for i in [0,n) on `workers` goroutines.
func Parallel(workers, n int, f func(worker, i int)) {
	if workers < 1 {
		workers = 1
	}
	var next int64 = -1
	var wg sync.WaitGroup
	for w := 0; w < workers; w++ {
		wg.Add(1)
		go func(w int) {
			defer wg.Done()
			for {
				i := int(atomic.AddInt64(&next, 1))
				if i >= n {
					return
				}
				f(w, i)
			}
		}(w)
	}
	wg.Wait()
}
