package eng

// C10 - the service survives arbitrary and aborted client byte streams (engine e-conn).
// Fault enumeration: every stream is cut at every byte offset, once with an orderly half-close
// (exact oracle) and once with an immediate close (prefix oracle), while a well-behaved
// connection runs its own C01 script in the same round.

import (
	"encoding/json"
	"fmt"
	"math/rand"
	"strings"
	"time"

	"github.com/varlink/go/varlink"

	"verif/harness/internal/fw"
)

var c10Shapes = []string{`[]`, `[1,2]`, `5`, `-0.5e3`, `"str"`, `true`, `false`, `null`, `{}`, `{"method":5}`, `{"method":{"x":1}}`, `{"method":[]}`,
	`{"method":null}`, `{"method":"org.example.script.M","more":"yes"}`, `{"method":"org.example.script.M","oneway":1}`, `{"method":"org.example.script.M","upgrade":{}}`,
	`{"method":"org.example.script.M","more":null,"oneway":null,"upgrade":null,"parameters":null}`, `{"method":"org.example.script.M","parameters":5}`,
	`{"method":"org.example.script.M","parameters":"x"}`, `{"method":"org.example.script.M","parameters":[{"id":"a"}]}`, `{"unknown":1,"method":"org.example.script.M","extra":{"deep":[1,2,{"a":null}]}}`,
	`{"method":"org.varlink.service.GetInfo","parameters":{"x":1}}`, `{"method":"org.varlink.service.GetInterfaceDescription","parameters":{"interface":["x"]}}`,
	` {"method" : "org.varlink.service.GetInfo" } `, "\t{\"method\":\"org.example.script.M\"}\n", `{"method":"org.example.script.M"}{"method":"org.example.script.N"}`,
	`{"method":"org.example.script.M"} x`, `{"Method":"org.example.script.M"}`, `{"method":"org.example.script.M","method":"org.example.other.N"}`, `{"METHOD":"org.example.script.M","More":true}`,
	`{"method":"org.example.script.\ud800"}`, `{"method":"org.example.script.M","parameters":{"id":"x","steps":5}}`, `{"method":"\u0000"}`, `nul`, `{`, `}`, `{"method":"org.example.script.M",}`,
	"{\"method\":\"org.example.script.\xff\"}", "\xef\xbb\xbf{\"method\":\"org.varlink.service.GetInfo\"}",
	// valid JSON whose decoding fails half-way, after flags or parameters have been seen (seeded change C01-O: a recycled
	// request header that keeps what a failed decode had already stored)
	`{"method":5,"oneway":true}`, `{"method":5,"more":true}`, `{"oneway":true,"more":true,"upgrade":true,"method":{}}`, `{"method":[],"upgrade":true}`,
	`{"parameters":{"id":"poison","steps":[{"op":"reply"}]},"oneway":true,"method":7}`, `{"method":"org.example.script.M","oneway":true,"more":5}`,
	`{"method":"org.example.script.M","more":true,"parameters":{"id":"poison2"},"upgrade":"x"}`}

// c10Poison: the frames of c10Shapes that are valid JSON, fail to decode as a call, and carry flags or parameters.
var c10Poison = c10Shapes[len(c10Shapes)-7:]

// c10Streams builds the byte streams of one run.
func c10Streams(rng *rand.Rand, jg *JGen, n int, maxLen int) (streams [][]byte, whats []string) {
	add := func(what string, b []byte) {
		if len(b) > maxLen {
			b = b[:maxLen]
		}
		streams = append(streams, b)
		whats = append(whats, what)
	}
	tag := 0
	valid := func(maxCalls int) []byte {
		tag++
		cs := genConnScript(rng, jg, fmt.Sprintf("s%d", tag), maxCalls, true)
		for i := range cs.Calls {
			if cs.Calls[i].Script != nil {
				cs.Calls[i].Script.Pad = nil // keep streams short: every offset is a connection
			}
		}
		data, _, _ := streamOf(cs.Calls, rng.Intn(5))
		return data
	}
	// every wrong-shape frame at least once, between two valid calls
	for _, sh := range c10Shapes {
		b := append([]byte{}, valid(1)...)
		b = append(b, sh...)
		b = append(b, 0)
		b = append(b, valid(1)...)
		add("wrong-shape (each)", b)
	}
	n += len(c10Shapes)
	for len(streams) < n {
		switch k := len(streams) % 8; k {
		case 0, 1:
			add("valid", valid(4))
		case 2:
			// frame level mutations of a valid stream
			b := append([]byte{}, valid(3)...)
			for m := 0; m < 1+rng.Intn(3) && len(b) > 2; m++ {
				p := rng.Intn(len(b))
				switch rng.Intn(6) {
				case 0:
					b[p] ^= 1 << uint(rng.Intn(8))
				case 1:
					b = append(b[:p], b[p+1:]...)
				case 2:
					b = append(b[:p], append([]byte{0}, b[p:]...)...)
				case 3:
					// delete a NUL: two frames run together
					if i := strings.IndexByte(string(b), 0); i >= 0 {
						b = append(b[:i], b[i+1:]...)
					}
				case 4:
					b[p] = "\"{}[]:,\\ \x00"[rng.Intn(10)]
				case 5:
					b = append(b[:p], append([]byte(c10Shapes[rng.Intn(len(c10Shapes))]), b[p:]...)...)
				}
			}
			add("mutated", b)
		case 3:
			// wrong-shape frames between valid calls
			var b []byte
			for i := 0; i < 1+rng.Intn(3); i++ {
				if rng.Intn(2) == 0 {
					b = append(b, valid(1)...)
				}
				b = append(b, c10Shapes[rng.Intn(len(c10Shapes))]...)
				b = append(b, 0)
			}
			b = append(b, valid(1)...)
			add("wrong-shape", b)
		case 4:
			// swapped / duplicated frames
			fr, _ := splitFrames(valid(4))
			rng.Shuffle(len(fr), func(i, j int) { fr[i], fr[j] = fr[j], fr[i] })
			var b []byte
			for _, f := range fr {
				b = append(b, f...)
				b = append(b, 0)
				if rng.Intn(4) == 0 {
					b = append(b, f...)
					b = append(b, 0)
				}
			}
			add("shuffled", b)
		case 5:
			b := make([]byte, 1+rng.Intn(200))
			rng.Read(b)
			add("random-bytes", b)
		case 6:
			// NULs only / whitespace frames / empty frames
			add("empty-frames", []byte([]string{"\x00", "\x00\x00\x00", " \x00", "\n\x00{}\x00", "null\x00null\x00", "{}\x00\x00{}\x00"}[rng.Intn(6)]))
		case 7:
			b := append([]byte{}, valid(2)...)
			b = append(b, []byte(c10Shapes[rng.Intn(len(c10Shapes))])...)
			add("valid+tail-without-nul", b)
		}
	}
	return
}

func runC10(r *fw.Run) {
	rng := rand.New(rand.NewSource(r.Seed*31 + 10))
	jg := &JGen{R: rng}
	nstreams := r.Pick(120, 1500)
	maxLen := r.Pick(700, 2048)
	batch := 48
	type cfg struct {
		tr     string
		listen bool
	}
	cfgs := []cfg{{"unix", false}}
	if r.Thorough {
		cfgs = append(cfgs, cfg{"abstract", true}, cfg{"unix", true})
	}
	streams, whats := c10Streams(rng, jg, nstreams, maxLen)
	good := 0
	for ci, cf := range cfgs {
		g, err := newRig(r, RigOpt{Transport: cf.tr, UseListen: cf.listen, Ifaces: c01Ifaces})
		if err != nil {
			rigFailure(r, "C10", err, cf.tr)
			continue
		}
		for si := ci; si < len(streams); si += len(cfgs) {
			S := streams[si]
			if r.ViolationCount() > 12 || g.tainted {
				break
			}
			r.Distinct("stream_kinds", whats[si])
			// all offsets, both abort styles
			type off struct {
				k    int
				hard bool
			}
			var offs []off
			for k := 0; k <= len(S); k++ {
				offs = append(offs, off{k, false}, off{k, true})
			}
			for b := 0; b < len(offs); b += batch {
				e := b + batch
				if e > len(offs) {
					e = len(offs)
				}
				cc := &c01Case{Transport: cf.tr, UseListen: cf.listen, Ifaces: c01Ifaces}
				// the well-behaved connection of this round
				good++
				cc.Conns = append(cc.Conns, genConnScript(rng, jg, fmt.Sprintf("g%d", good), 4, false))
				for _, o := range offs[b:e] {
					cc.Conns = append(cc.Conns, &ConnScript{Stream: S, Cut: o.k, Hard: o.hard, Seg: []int{0, 0, 2, 3}[rng.Intn(4)], SegS: rng.Int63(), What: whats[si]})
				}
				if r.ViolationCount() > 12 || g.tainted {
					break
				}
				r.Journal(0, cc)
				c01Round(r, g, "C10", cc, true)
				r.Done(0)
				r.Count("abort_offsets", int64(e-b))
				r.Count("probe_scripts", 1)
				for _, o := range offs[b:e] {
					r.Case(fw.HashBytes(S)^uint64(o.k*2+1)<<1^b2u(o.hard), len(S) > 1)
					if o.hard {
						r.Count("hard_aborts", 1)
					} else {
						r.Count("half_close_aborts", 1)
					}
				}
			}
			r.Count("streams", 1)
			if si%10 == 0 {
				r.Sample(map[string]interface{}{"kind": whats[si], "stream": string(S), "offsets": len(S) + 1})
			}
		}
		// abort while the service is writing a multi-MiB reply
		for k := 0; k < r.Pick(6, 40); k++ {
			big := &CallScript{ID: fmt.Sprintf("big%d", k), Pad: json.RawMessage(jg.BigString(r.Pick(2, 6) << 20)), Steps: []Step{{Op: "reply", Cont: true}, {Op: "reply", Cont: true}, {Op: "reply"}}}
			data, _, _ := streamOf([]GenCall{{Method: "org.example.script.Big", Flags: "m", Script: big}, {Method: "org.example.script.After", Script: &CallScript{ID: "after", Steps: []Step{{Op: "reply"}}}}}, 0)
			cc := &c01Case{Transport: cf.tr, UseListen: cf.listen, Ifaces: c01Ifaces}
			good++
			cc.Conns = append(cc.Conns, genConnScript(rng, jg, fmt.Sprintf("g%d", good), 4, false))
			cc.Conns = append(cc.Conns, &ConnScript{Stream: data, Cut: -1, Hard: true, What: "abort-during-big-reply"})
			if k%2 == 0 {
				cc.Conns = append(cc.Conns, &ConnScript{Stream: data, Cut: len(data) - 10, Hard: true, Seg: 2, SegS: rng.Int63(), What: "abort-during-big-request"})
			}
			r.Journal(0, map[string]string{"what": "abort during multi-MiB reply"})
			c01Round(r, g, "C10", cc, true)
			r.Done(0)
			r.Count("aborts_during_big_reply", 1)
			r.Case(fw.Hash("big", fmt.Sprint(k, ci)), true)
		}
		// complete, well-formed calls of large sizes are answered like any other (exact oracle)
		for k, sz := range []int{65000, 65536 - 80, 65536 + 100, 200000, 1 << 20, 3 << 20} {
			if sz > 1<<20 && !r.Thorough {
				continue
			}
			cc := &c01Case{Transport: cf.tr, UseListen: cf.listen, Ifaces: c01Ifaces}
			for j := 0; j < 2; j++ {
				good++
				cs := genConnScript(rng, jg, fmt.Sprintf("g%d", good), 3, false)
				cs.Calls = append(cs.Calls, GenCall{Method: "org.example.script.Large", Script: &CallScript{ID: fmt.Sprintf("large%d.%d", k, j), Pad: json.RawMessage(jg.BigString(sz + j*37)), Steps: []Step{{Op: "reply", NoPar: true}}}},
					GenCall{Method: "org.varlink.service.GetInfo"})
				cs.Seg = []int{0, 2}[j]
				cc.Conns = append(cc.Conns, cs)
			}
			// ... while other clients die in the middle of a frame that is already longer than any read buffer (seeded change
			// C02-O: a pooled assembly buffer that keeps the dead connection's fragment)
			for j := 0; j < 12; j++ {
				half := &CallScript{ID: fmt.Sprintf("half%d.%d", k, j), Pad: json.RawMessage(jg.BigString(sz/2 + j*1000)), Steps: []Step{{Op: "reply", NoPar: true}}}
				data, _, _ := streamOf([]GenCall{{Method: "org.example.script.Half", Script: half}}, 0)
				cut := 4200 + rng.Intn(len(data)-4300)
				cc.Conns = append(cc.Conns, &ConnScript{Stream: data, Cut: cut, Hard: j%2 == 0, Seg: []int{0, 2}[j%2], SegS: rng.Int63(), What: "abort-inside-a-large-frame"})
			}
			r.Count("aborts_inside_a_large_frame", 12)
			r.Journal(0, map[string]interface{}{"what": "large well-formed calls", "size": sz})
			c01Round(r, g, "C10", cc, true)
			r.Done(0)
			r.Max("max_wellformed_frame_bytes", int64(sz))
			r.Case(fw.Hash("large", fmt.Sprint(sz, ci)), true)
		}
		// a client that stalls (neither reads nor closes) in the middle of a multi-MiB reply must not disturb the others
		for k := 0; k < r.Pick(3, 20) && !g.tainted && r.ViolationCount() <= 12; k++ {
			big := &CallScript{ID: fmt.Sprintf("stallbig%d", k), Pad: json.RawMessage(jg.BigString(4 << 20)), Steps: []Step{{Op: "reply", Cont: true}, {Op: "reply"}}}
			data, _, _ := streamOf([]GenCall{{Method: "org.example.script.Big", Flags: "m", Script: big}}, 0)
			cc := &c01Case{Transport: cf.tr, UseListen: cf.listen, Ifaces: c01Ifaces}
			what := "stalled reader during a 4 MiB reply"
			if k%2 == 1 {
				data, what = builtinFlood(big.ID), "client pipelines 1 200 introspection calls and reads none of the answers"
			}
			cc.Conns = append(cc.Conns, &ConnScript{Stream: data, Cut: -1, Stall: true, What: what})
			if k%2 == 1 {
				cc.Conns = append(cc.Conns, &ConnScript{Calls: []GenCall{{Method: "org.varlink.service.GetInfo"}, {Method: "org.varlink.service.GetInterfaceDescription", Params: `{"interface":"org.example.script"}`}}, WaitFor: big.ID})
			}
			for j := 0; j < 3; j++ {
				good++
				cs := genConnScript(rng, jg, fmt.Sprintf("g%d", good), 4, false)
				cs.WaitFor = big.ID
				cc.Conns = append(cc.Conns, cs)
			}
			cc.Conns = append(cc.Conns, &ConnScript{Stream: streams[k%len(streams)], Cut: -1, Hard: true, WaitFor: big.ID, What: whats[k%len(streams)]})
			r.Journal(0, map[string]string{"what": "stalled reader"})
			c01Round(r, g, "C10", cc, true)
			r.Done(0)
			r.Count("stalled_reader_rounds", 1)
			r.Case(fw.Hash("stallbig", fmt.Sprint(k, ci)), true)
		}
		// an 8 MiB frame without NUL, then abort
		if r.Thorough || ci == 0 {
			S := []byte(`{"method":"org.example.script.M","parameters":{"pad":` + jg.BigString(8<<20))
			cc := &c01Case{Transport: cf.tr, UseListen: cf.listen, Ifaces: c01Ifaces}
			good++
			cc.Conns = append(cc.Conns, genConnScript(rng, jg, fmt.Sprintf("g%d", good), 4, false))
			cc.Conns = append(cc.Conns, &ConnScript{Stream: S, Cut: -1, Hard: false, What: "8MiB-frame-without-NUL"}, &ConnScript{Stream: S, Cut: -1, Hard: true, Seg: 4, What: "8MiB-frame-without-NUL"})
			r.Journal(0, map[string]string{"what": "8 MiB frame without NUL"})
			c01Round(r, g, "C10", cc, true)
			r.Done(0)
			r.Count("huge_unterminated_frames", 2)
		}
		// clients that pause inside a frame
		r.Journal(0, map[string]string{"what": "slow writers"})
		if r.Thorough {
			c10SlowWriters(r, g, cf.tr, []time.Duration{300 * time.Millisecond, 1100 * time.Millisecond, 2500 * time.Millisecond, 6 * time.Second, 12 * time.Second})
		} else {
			c10SlowWriters(r, g, cf.tr, []time.Duration{300 * time.Millisecond, 1100 * time.Millisecond, 2500 * time.Millisecond})
		}
		r.Done(0)
		// connections the service itself ends while the client keeps its socket open
		r.Journal(0, map[string]string{"what": "held open after the service ended the connection"})
		c10HeldOpen(r, g, cf.tr)
		r.Done(0)
		// after all of this the service must still be able to shut down ...
		if !g.WaitIdle(20 * time.Second) {
			r.Violation("C10 not-released", fmt.Sprintf("%d connections still counted as active 20 s after every client has gone", g.Svc.VerifActive()), cf.tr)
		}
		r.Count("released_checks", 1)
		err2, ok := g.Stop()
		if !ok {
			r.Violation("C10 no-return-after-shutdown", "after the hostile streams the serving call did not return within 30 s of Shutdown", cf.tr)
		} else if err2 != nil {
			r.Violation("C10 shutdown-returned-error", fmt.Sprintf("serving call returned %v after Shutdown", err2), cf.tr)
		}
	}
	// one long-lived connection carrying a large total volume in both directions
	r.Journal(0, map[string]string{"what": "volume on one connection"})
	c10Volume(r, "unix", 1<<20, r.Pick(40, 4200))
	c10Volume(r, "tcp", 256<<10, r.Pick(100, 2000))
	c10Volume(r, "unix", 100, r.Pick(20000, 400000))
	r.Done(0)
	// the peer disappears exactly while the accept loop is on its way back into Accept (controlled listener, see C15): the
	// service must still be able to time out afterwards
	for hi, steps := range [][]string{{"ccsd"}, {"connect", "abort", "ccsd"}, {"ccsd", "ccsd"}, {"connect", "call", "close", "ccsd"}, {"connect", "junk", "ccsd"}, {"connect", "fail", "ccsd"}, {"connect", "ccsd", "abort"}} {
		for _, sp := range []bool{false, true} {
			h := &c15Hist{Steps: steps, Socketpair: sp}
			r.Journal(0, h)
			for _, v := range runC15Hist(r, h) {
				parts := strings.SplitN(v, "\x00", 2)
				r.Violation("C10 timeout-after-aborts", fmt.Sprintf("history %v on a controlled listener (socketpair=%v): %s: %s", steps, sp, parts[0], parts[1]), h)
			}
			r.Done(0)
			r.Count("disappear_inside_set_deadline_histories", 1)
			r.Case(fw.Hash("ccsd", fmt.Sprint(hi, sp)), true)
		}
	}
	// ... or to time out: a service with an idle timeout, hostile clients, then silence
	g, err := newRig(r, RigOpt{Transport: "unix", Ifaces: c01Ifaces, Timeout: 300 * time.Millisecond})
	if err != nil {
		rigFailure(r, "C10", err, "timeout-rig")
		return
	}
	for k := 0; k < 20 && k < len(streams); k++ {
		S := streams[k]
		cc := &c01Case{Transport: "unix", Ifaces: c01Ifaces}
		for j := 0; j < 8; j++ {
			cc.Conns = append(cc.Conns, &ConnScript{Stream: S, Cut: rng.Intn(len(S) + 1), Hard: j%2 == 0, SegS: rng.Int63(), What: whats[k]})
		}
		c01Round(r, g, "C10", cc, true)
	}
	select {
	case e := <-g.done:
		if _, isTo := e.(varlink.ServiceTimeoutError); !isTo {
			r.Violation("C10 timeout-after-aborts", fmt.Sprintf("service with idle timeout returned %v instead of ServiceTimeoutError after the aborted clients had gone", e), "timeout-rig")
		}
		r.Count("idle_timeout_fired_after_aborts", 1)
	case <-time.After(30 * time.Second):
		r.Violation("C10 timeout-after-aborts", fmt.Sprintf("service with a 300 ms idle timeout did not stop within 30 s after all aborted clients had gone (active=%d)", g.Svc.VerifActive()), "timeout-rig")
		g.Stop()
	}
	g.cancel()
}

func b2u(b bool) uint64 {
	if b {
		return 1
	}
	return 0
}

func replayC10(r *fw.Run, raw json.RawMessage) {
	var v struct {
		What      string `json:"what"`
		Transport string `json:"transport"`
		Frame     int    `json:"frame_bytes"`
		Calls     int    `json:"calls_each_direction"`
	}
	if json.Unmarshal(raw, &v) == nil && v.What == "volume on one connection" && v.Frame > 0 {
		c10Volume(r, v.Transport, v.Frame, v.Calls)
		r.Case(1, true)
		r.Case(2, true)
		return
	}
	replayRound(r, raw, "C10")
}

func init() {
	fw.Register(&fw.Engine{
		ID: "C10", Level: "fault_enumeration",
		Rule: "streams = valid call sequences (C01 generator), frame-level mutants (bit flips, deleted/inserted bytes, deleted and inserted NULs, structural bytes, wrong-shape JSON spliced in), wrong-shape frames (arrays, numbers, strings, booleans, null, objects with non-string method or non-boolean flags, case-variant and duplicate keys, trailing garbage, BOM, invalid UTF-8), shuffled and duplicated frames, random bytes, empty frames, a valid prefix followed by a tail without NUL. A case = (stream, abort offset k, abort style): EVERY k in 0..len(stream), once as 'write S[:k], half-close, read to EOF' (exact oracle: replies and handler log equal the sequential model applied to the complete frames of S[:k]; an invalid or wrong-shape frame ends the connection without reply or dispatch; null is answered like a call without method; the incomplete tail is never dispatched) and once as 'write S[:k] and close at once' (prefix oracle: dispatches are a prefix of the model's, each at most once). Every round of 48 aborts shares the service with a well-behaved connection running its own C01 script under the exact oracle. Plus aborts during multi-MiB replies/requests and 8 MiB frames without NUL. After each configuration: active-connection counter back to 0, Shutdown makes the serving call return nil; finally a service with a 300 ms idle timeout must stop with ServiceTimeoutError after hostile clients have gone. non-trivial = stream longer than one byte; distinct by (stream hash, offset, style). Also: every wrong-shape frame at least once between two valid calls; complete well-formed calls of 65 000 .. 1 MiB (thorough 3 MiB) judged exactly; rounds with a client that stalls (neither reads nor closes) in the middle of a 4 MiB reply; long-lived connections: 40 x 1 MiB calls and 40 x 1 MiB replies (thorough 4200 each: beyond 2^32 bytes per direction), 100 x 256 KiB over TCP, 20 000 (thorough 400 000) small calls, each answered exactly, then GetInfo; connections that the service ends (non-call frames, failing handler) while the client neither closes nor half-closes: released all the same; clients that pause 0.3 .. 2.5 s (thorough 12 s) in the middle of a frame are answered; peers that disappear while the accept loop is inside SetDeadline (controlled listener): the service still times out.",
		Assumptions: []string{"frames with case-variant or duplicate known keys are judged for crash/dispatch-order/probe only (their meaning depends on decoder details the statement does not fix)", "unix-domain transports (filesystem and abstract)"},
		Run:         runC10, Replay: replayC10, CrashIsViolation: true, MinEvals: 1000,
		QuickTimeout: 15 * time.Minute, ThoroughTimeout: 60 * time.Minute,
	})
}
