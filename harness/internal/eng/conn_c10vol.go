package eng

// C10, volume: one long-lived connection carries far more bytes than any single frame or counter width
// (quick: tens of MiB, thorough: beyond 2^32 in each direction); every complete well-formed call on it is
// answered as specified, the last one like the first.

import (
	"bufio"
	"context"
	"encoding/json"
	"fmt"
	"net"
	"path/filepath"
	"strings"
	"time"

	"github.com/varlink/go/varlink"

	"verif/harness/internal/fw"
)

type volDisp struct{}

func (volDisp) VarlinkGetName() string { return "org.example.vol" }
func (volDisp) VarlinkGetDescription() string {
	return "interface org.example.vol\nmethod Sink(pad: string) -> (len: int)\nmethod Source(n: int) -> (pad: string)\n"
}
func (volDisp) VarlinkDispatch(ctx context.Context, c varlink.Call, m string) error {
	switch m {
	case "Sink":
		var in struct {
			Pad string `json:"pad"`
		}
		if err := c.GetParameters(&in); err != nil {
			return c.ReplyInvalidParameter(ctx, "pad")
		}
		return c.Reply(ctx, map[string]int{"len": len(in.Pad)})
	case "Source":
		var in struct {
			N int `json:"n"`
		}
		if err := c.GetParameters(&in); err != nil {
			return c.ReplyInvalidParameter(ctx, "n")
		}
		return c.Reply(ctx, map[string]string{"pad": strings.Repeat("y", in.N)})
	}
	return c.ReplyMethodNotFound(ctx, m)
}

// c10Volume: calls of frame bytes each, `calls` of them towards the service and `calls` large replies back, all on one
// connection, one call at a time; then a GetInfo.
func c10Volume(r *fw.Run, transport string, frame, calls int) {
	cs := map[string]interface{}{"what": "volume on one connection", "transport": transport, "frame_bytes": frame, "calls_each_direction": calls}
	svc, err := varlink.NewService("Verif", "Volume", "1", "u")
	if err != nil {
		return
	}
	svc.RegisterInterface(volDisp{})
	netw, addr, dial := "unix", "", ""
	if transport == "tcp" {
		netw = "tcp"
		dial = fmt.Sprintf("127.0.0.1:%d", freePort())
		addr = "tcp:" + dial
	} else {
		dial = filepath.Join(r.WorkDir, fmt.Sprintf("vol%d", r.Seq()))
		addr = "unix:" + dial
	}
	ctx, cancel := context.WithCancel(context.Background())
	defer cancel()
	if err := svc.Bind(ctx, addr); err != nil {
		r.Inconclusive("volume: bind: %v", err)
		return
	}
	done := make(chan error, 1)
	go func() { done <- svc.DoListen(ctx, 0) }()
	defer func() {
		svc.Shutdown()
		select {
		case <-done:
		case <-time.After(20 * time.Second):
			r.Violation("C10 no-return-after-shutdown", "after the volume connection the serving call did not return within 20 s of Shutdown", cs)
		}
	}()
	c, err := net.DialTimeout(netw, dial, 5*time.Second)
	if err != nil {
		r.Inconclusive("volume: dial: %v", err)
		return
	}
	defer c.Close()
	rd := bufio.NewReaderSize(c, 1<<16)
	var sentBytes, recvBytes int64
	exchange := func(req []byte) ([]byte, error) {
		c.SetDeadline(time.Now().Add(60 * time.Second))
		if _, err := c.Write(req); err != nil {
			return nil, fmt.Errorf("write: %v", err)
		}
		sentBytes += int64(len(req))
		rep, err := rd.ReadBytes(0)
		recvBytes += int64(len(rep))
		if err != nil {
			return rep, fmt.Errorf("read: %v", err)
		}
		return rep[:len(rep)-1], nil
	}
	sink := []byte(`{"method":"org.example.vol.Sink","parameters":{"pad":"` + strings.Repeat("x", frame) + `"}}` + "\x00")
	wantSink := fmt.Sprintf(`{"parameters":{"len":%d}}`, frame)
	for i := 0; i < calls; i++ {
		rep, err := exchange(sink)
		if err != nil || jEqual([]byte(wantSink), rep) != "" {
			r.Violation("C10 wellformed-call-not-answered", fmt.Sprintf("transport %s: call %d of a long-lived connection (%d bytes sent and %d received on it before; frame of %d bytes): reply %q, %v; expected %s",
				transport, i, sentBytes-int64(len(sink)), recvBytes, len(sink), clip(string(rep), 120), err, wantSink), cs)
			return
		}
	}
	source := []byte(fmt.Sprintf(`{"method":"org.example.vol.Source","parameters":{"n":%d}}`+"\x00", frame))
	for i := 0; i < calls; i++ {
		rep, err := exchange(source)
		ok := err == nil && len(rep) == frame+len(`{"parameters":{"pad":""}}`) && strings.HasPrefix(string(rep[:24]), `{"parameters":{"pad":"yy`) && strings.HasSuffix(string(rep[len(rep)-6:]), `yyy"}}`)
		if !ok {
			r.Violation("C10 wellformed-call-not-answered", fmt.Sprintf("transport %s: large-reply call %d of a long-lived connection (%d bytes sent and %d received on it before): reply of %d bytes %q, %v; expected %d bytes of pad",
				transport, i, sentBytes, recvBytes, len(rep), clip(string(rep), 80), err, frame), cs)
			return
		}
	}
	rep, err := exchange([]byte(`{"method":"org.varlink.service.GetInfo"}` + "\x00"))
	var info struct {
		Parameters struct {
			Product string `json:"product"`
		} `json:"parameters"`
	}
	if err != nil || json.Unmarshal(rep, &info) != nil || info.Parameters.Product != "Volume" {
		r.Violation("C10 wellformed-call-not-answered", fmt.Sprintf("transport %s: GetInfo after %d bytes sent and %d received on one connection: reply %q, %v", transport, sentBytes, recvBytes, clip(string(rep), 120), err), cs)
		return
	}
	r.Max("max_bytes_sent_on_one_connection", sentBytes)
	r.Max("max_bytes_received_on_one_connection", recvBytes)
	r.Count("volume_connections", 1)
	r.Case(fw.Hash("volume", transport, fmt.Sprint(frame, calls)), true)
}

// c10HeldOpen: the service ends a connection (a frame that is not a call, a handler that fails) while the client neither
// closes nor half-closes its socket. Once the client has seen the end of stream, the connection's resources must be
// released although the client's socket is still open: the active count returns to 0.
func c10HeldOpen(r *fw.Run, g *Rig, tr string) {
	tails := []string{"[1,2]\x00", "nul\x00", "{\"method\":5}\x00", "\x00", "{\"method\":\"org.example.script.F\",\"parameters\":{\"id\":\"hf\",\"fail\":true}}\x00"}
	var held []net.Conn
	defer func() {
		for _, c := range held {
			c.Close()
		}
	}()
	if !g.WaitIdle(20 * time.Second) {
		return // judged elsewhere
	}
	for i, tail := range tails {
		c, _, err := dialRaw(g.Net, g.Dial)
		if err != nil {
			r.Inconclusive("held-open: dial: %v", err)
			return
		}
		held = append(held, c)
		c.SetDeadline(time.Now().Add(20 * time.Second))
		if _, err := c.Write([]byte("{\"method\":\"org.varlink.service.GetInfo\"}\x00" + tail)); err != nil {
			r.Inconclusive("held-open: write: %v", err)
			return
		}
		sawEOF := false
		buf := make([]byte, 4096)
		for {
			_, err := c.Read(buf)
			if err != nil {
				if ne, ok := err.(net.Error); !ok || !ne.Timeout() {
					sawEOF = true
				}
				break
			}
		}
		if !sawEOF {
			r.Violation("C10 stall", fmt.Sprintf("transport %s: after %q the service neither answered further nor ended the connection within 20 s", tr, tail), map[string]interface{}{"what": "held open", "tail": tail})
			continue
		}
		r.Count("connections_held_open_after_the_service_ended_them", 1)
		_ = i
	}
	if !g.WaitIdle(15 * time.Second) {
		r.Violation("C10 not-released", fmt.Sprintf("transport %s: the service ended %d connections (the clients saw the end of the stream) but still counts %d of them as active 15 s later, while the clients keep their sockets open", tr, len(held), g.Svc.VerifActive()),
			map[string]interface{}{"what": "held open after the service ended the connection"})
		g.tainted = true
	}
	g.Log.Take()
}

// c10SlowWriters: clients that pause for seconds in the middle of a frame (and between frames); however long the pause,
// the complete frame is answered. The connections run at the same time, so the cost is the longest pause.
func c10SlowWriters(r *fw.Run, g *Rig, tr string, pauses []time.Duration) {
	type res struct {
		pause time.Duration
		got   []byte
		err   error
	}
	ch := make(chan res, len(pauses))
	frame := []byte("{\"method\":\"org.varlink.service.GetInfo\"}\x00")
	for i, d := range pauses {
		go func(i int, d time.Duration) {
			c, _, err := dialRaw(g.Net, g.Dial)
			if err != nil {
				ch <- res{d, nil, err}
				return
			}
			defer c.Close()
			c.SetDeadline(time.Now().Add(d + 30*time.Second))
			cut := 5 + i*7%len(frame)
			if cut >= len(frame) {
				cut = len(frame) / 2
			}
			var got []byte
			for round := 0; round < 2; round++ {
				c.Write(frame[:cut])
				time.Sleep(d)
				c.Write(frame[cut:])
				buf := make([]byte, 4096)
				for {
					n, err := c.Read(buf)
					got = append(got, buf[:n]...)
					if err != nil {
						ch <- res{d, got, err}
						return
					}
					if n > 0 && buf[n-1] == 0 {
						break
					}
				}
			}
			ch <- res{d, got, nil}
		}(i, d)
	}
	for range pauses {
		x := <-ch
		frames, rest := splitFrames(x.got)
		if x.err != nil || len(frames) != 2 || len(rest) != 0 || !strings.Contains(string(frames[0]), "interfaces") || !strings.Contains(string(frames[1]), "interfaces") {
			r.Violation("C10 wellformed-call-not-answered", fmt.Sprintf("transport %s: a client paused %v in the middle of each of two GetInfo frames; it got %d reply frames (%q), %v", tr, x.pause, len(frames), clip(string(x.got), 120), x.err),
				map[string]interface{}{"what": "slow writer", "pause_ms": x.pause.Milliseconds()})
		}
		r.Count("slow_writer_connections", 1)
	}
	g.Log.Take()
}
