package eng

// Controlled net.Listener / net.Conn for the lifecycle engine (C14, C15): the accept loop's steps
// are exactly its calls on the listener, so a history can place Shutdown, expiry and connection
// arrival at every one of them, deterministically and without a clock.

import (
	"fmt"
	"net"
	"os"
	"strings"
	"sync"
	"sync/atomic"
	"time"

	"verif/harness/internal/fw"
)

type lev struct {
	Seq  int64  `json:"seq"`
	Kind string `json:"kind"` // set-deadline | accept-enter | accept-return | listener-close | conn-first-read | conn-close | shutdown-call | shutdown-return | serve-return | expiry
	Arg  string `json:"arg,omitempty"`
}

type ctlAddr struct{}

func (ctlAddr) Network() string { return "ctl" }
func (ctlAddr) String() string  { return "ctl" }

type ctlItem struct {
	conn    *CtlConn
	timeout bool
}

type CtlListener struct {
	r          *fw.Run
	mu         sync.Mutex
	evs        []lev
	queue      []ctlItem
	closed     bool
	closeCalls int
	armed      bool
	everArmed  bool
	parked     bool
	enters     int
	unarmedEnters int
	closedReturns int // Accept calls that returned the closed error
	hookSetDeadline func()
	// closeLinger: Close marks the listener closed at once and returns only after this long
	closeLinger time.Duration
	// hookSetDeadlineBefore runs (once) inside the next SetDeadline call BEFORE the new deadline takes effect: whatever the
	// hook makes happen lies between the accept loop's decision and the moment its deadline lands
	hookSetDeadlineBefore func()
	hookBeforeConn  func()
}

func newCtlListener(r *fw.Run) *CtlListener { return &CtlListener{r: r} }

func (l *CtlListener) rec(kind, arg string) int64 {
	s := l.r.Seq()
	l.evs = append(l.evs, lev{s, kind, arg})
	return s
}

// Rec records a harness-side event in the same log.
func (l *CtlListener) Rec(kind, arg string) int64 {
	l.mu.Lock()
	defer l.mu.Unlock()
	return l.rec(kind, arg)
}

func (l *CtlListener) Events() []lev {
	l.mu.Lock()
	defer l.mu.Unlock()
	return append([]lev{}, l.evs...)
}

func (l *CtlListener) SetDeadline(t time.Time) error {
	l.mu.Lock()
	hb := l.hookSetDeadlineBefore
	l.hookSetDeadlineBefore = nil
	l.mu.Unlock()
	if hb != nil {
		hb()
	}
	l.mu.Lock()
	if t.IsZero() {
		l.armed = false
		l.rec("set-deadline", "zero")
	} else {
		l.armed = true
		l.everArmed = true
		l.rec("set-deadline", "armed")
	}
	h := l.hookSetDeadline
	l.hookSetDeadline = nil
	l.mu.Unlock()
	if h != nil {
		h()
	}
	return nil
}

func (l *CtlListener) Accept() (net.Conn, error) {
	l.mu.Lock()
	l.enters++
	if !l.armed {
		l.unarmedEnters++
	}
	l.rec("accept-enter", fmt.Sprintf("armed=%v", l.armed))
	l.parked = true
	for len(l.queue) == 0 && !l.closed {
		l.mu.Unlock()
		time.Sleep(30 * time.Microsecond)
		l.mu.Lock()
	}
	l.parked = false
	if l.closed {
		l.closedReturns++
		l.rec("accept-return", "closed")
		l.mu.Unlock()
		return nil, &net.OpError{Op: "accept", Net: "ctl", Addr: ctlAddr{}, Err: net.ErrClosed}
	}
	it := l.queue[0]
	l.queue = l.queue[1:]
	if it.timeout {
		l.armed = false
		l.rec("accept-return", "timeout")
		l.mu.Unlock()
		return nil, &net.OpError{Op: "accept", Net: "ctl", Addr: ctlAddr{}, Err: os.ErrDeadlineExceeded}
	}
	h := l.hookBeforeConn
	l.hookBeforeConn = nil
	l.mu.Unlock()
	if h != nil {
		h()
	}
	l.mu.Lock()
	l.rec("accept-return", fmt.Sprintf("conn %d", it.conn.id))
	it.conn.accepted = true
	l.mu.Unlock()
	return it.conn, nil
}

func (l *CtlListener) Close() error {
	l.mu.Lock()
	l.closeCalls++
	l.rec("listener-close", "")
	if l.closed {
		l.mu.Unlock()
		return &net.OpError{Op: "close", Net: "ctl", Addr: ctlAddr{}, Err: net.ErrClosed}
	}
	l.closed = true
	linger := l.closeLinger
	l.mu.Unlock()
	// the listener is closed (a parked Accept returns) but Close itself takes a while to return
	if linger > 0 {
		time.Sleep(linger)
	}
	return nil
}

func (l *CtlListener) Addr() net.Addr { return ctlAddr{} }

type lstate struct {
	parked, closed, armed bool
	queued                int
	closeCalls, enters    int
}

func (l *CtlListener) State() lstate {
	l.mu.Lock()
	defer l.mu.Unlock()
	return lstate{l.parked, l.closed, l.armed, len(l.queue), l.closeCalls, l.enters}
}

// waitUntil polls pred (under the listener's lock) until true or the bound expires.
func (l *CtlListener) waitUntil(bound time.Duration, pred func() bool) bool {
	deadline := time.Now().Add(bound)
	for {
		l.mu.Lock()
		ok := pred()
		l.mu.Unlock()
		if ok {
			return true
		}
		if time.Now().After(deadline) {
			return false
		}
		time.Sleep(30 * time.Microsecond)
	}
}

func (l *CtlListener) WaitParked(bound time.Duration) bool {
	return l.waitUntil(bound, func() bool { return l.parked && len(l.queue) == 0 })
}

// CtlConn is the server side end handed out by Accept; it records what the library does with it.
type CtlConn struct {
	net.Conn
	l        *CtlListener
	id       int
	accepted bool
	closes   int32
	reads    int32
	client   net.Conn
	dirty    bool // the client has sent the start of a frame that it never completes
}

func (c *CtlConn) Read(b []byte) (int, error) {
	if atomic.AddInt32(&c.reads, 1) == 1 {
		c.l.Rec("conn-first-read", fmt.Sprint(c.id))
	}
	return c.Conn.Read(b)
}

func (c *CtlConn) Close() error {
	atomic.AddInt32(&c.closes, 1)
	c.l.Rec("conn-close", fmt.Sprint(c.id))
	return c.Conn.Close()
}

func (c *CtlConn) Closed() bool { return atomic.LoadInt32(&c.closes) > 0 }

func (c *CtlConn) Accepted() bool {
	c.l.mu.Lock()
	defer c.l.mu.Unlock()
	return c.accepted
}

// NewConn creates a connection pair (in-memory pipe or unix socketpair) and queues the server end.
func (l *CtlListener) NewConn(id int, socketpair bool) (*CtlConn, error) {
	var srv, cli net.Conn
	if socketpair {
		a, b, err := unixPair()
		if err != nil {
			return nil, err
		}
		srv, cli = a, b
	} else {
		srv, cli = net.Pipe()
	}
	c := &CtlConn{Conn: srv, l: l, id: id, client: cli}
	l.mu.Lock()
	l.queue = append(l.queue, ctlItem{conn: c})
	l.mu.Unlock()
	return c, nil
}

// InjectExpiry makes the parked Accept return a timeout error. ok=false if the listener is not armed.
func (l *CtlListener) InjectExpiry() bool {
	l.mu.Lock()
	defer l.mu.Unlock()
	if !l.armed || l.closed {
		return false
	}
	l.rec("expiry", "")
	l.queue = append(l.queue, ctlItem{timeout: true})
	return true
}

var pairCounter int64

func unixPair() (net.Conn, net.Conn, error) {
	n := atomic.AddInt64(&pairCounter, 1)
	name := fmt.Sprintf("@vfpair-%d-%d", os.Getpid(), n)
	ln, err := net.Listen("unix", name)
	if err != nil {
		return nil, nil, err
	}
	defer ln.Close()
	type res struct {
		c   net.Conn
		err error
	}
	ch := make(chan res, 1)
	go func() {
		c, err := ln.Accept()
		ch <- res{c, err}
	}()
	cli, err := net.Dial("unix", name)
	if err != nil {
		return nil, nil, err
	}
	r := <-ch
	if r.err != nil {
		cli.Close()
		return nil, nil, r.err
	}
	return r.c, cli, nil
}

// roundTrip performs one GetInfo call on a client end.
func roundTrip(c net.Conn, bound time.Duration) error {
	c.SetDeadline(time.Now().Add(bound))
	defer c.SetDeadline(time.Time{})
	if _, err := c.Write([]byte("{\"method\":\"org.varlink.service.GetInfo\"}\x00")); err != nil {
		return err
	}
	buf := make([]byte, 0, 256)
	tmp := make([]byte, 256)
	for {
		n, err := c.Read(tmp)
		buf = append(buf, tmp[:n]...)
		for _, b := range tmp[:n] {
			if b == 0 {
				i := strings.IndexByte(string(buf), 0)
				if !jsonValid(buf[:i]) || !strings.Contains(string(buf[:i]), "interfaces") {
					return fmt.Errorf("unexpected GetInfo reply %q", clip(string(buf[:i]), 200))
				}
				return nil
			}
		}
		if err != nil {
			return err
		}
	}
}
