package eng

// C20 - socket activation picks the right inherited descriptor or none (engine e-activ).
// The full configuration product is enumerated; each configuration runs a helper process that
// calls Service.Listen with descriptors 3,4,5 inherited from the harness.

import (
	"runtime"
	"bufio"
	"bytes"
	"context"
	"encoding/json"
	"fmt"
	"net"
	"os"
	"os/exec"
	"path/filepath"
	"strconv"
	"strings"
	"time"

	"github.com/varlink/go/varlink"

	"verif/harness/internal/fw"
	"verif/harness/internal/helpers"
)

func init() {
	// vcheck --helper activ <fallback address> <product> <pidmode>
	helpers.Register("activ", func(a []string) {
		if len(a) < 3 {
			os.Exit(2)
		}
		setPid := func(mode string) {
			switch mode {
			case "own":
				os.Setenv("LISTEN_PID", strconv.Itoa(os.Getpid()))
			case "other":
				os.Setenv("LISTEN_PID", strconv.Itoa(os.Getppid()))
			case "garbage":
				os.Setenv("LISTEN_PID", "12x")
			case "own-padded":
				os.Setenv("LISTEN_PID", " "+strconv.Itoa(os.Getpid()))
			case "own-suffix":
				os.Setenv("LISTEN_PID", strconv.Itoa(os.Getpid())+"abc")
			default:
				os.Unsetenv("LISTEN_PID")
			}
		}
		setPid(a[2])
		svc, err := varlink.NewService("Verif", a[1], "1", "u")
		if err != nil {
			fmt.Println("FAILED", err)
			os.Exit(1)
		}
		done := make(chan error, 1)
		go func() {
			defer func() {
				if x := recover(); x != nil {
					fmt.Println("PANIC", x)
					os.Exit(7)
				}
			}()
			done <- svc.Listen(context.Background(), a[0], 0)
		}()
		for i := 0; ; i++ {
			if l, _ := svc.GetListener(); l != nil {
				fmt.Println("READY", l.Addr().String())
				break
			}
			select {
			case err := <-done:
				fmt.Println("FAILED", err)
				os.Exit(1)
			default:
			}
			if i > 100000 {
				fmt.Println("FAILED no listener")
				os.Exit(1)
			}
			time.Sleep(100 * time.Microsecond)
		}
		// the parent closes stdin (end) or writes a line (next serve period of the same object, after a Shutdown and two
		// garbage collections, with the address argument + "-p<n>")
		in := bufio.NewReader(os.Stdin)
		for period := 2; ; period++ {
			line, err := in.ReadString('\n')
			if err != nil {
				break
			}
			if strings.HasPrefix(line, "SECOND") {
				// a second Service object, on an address of its own, while the first keeps serving
				svc2, err := varlink.NewService("Verif", a[1]+"-second", "1", "u")
				if err != nil {
					fmt.Println("FAILED", err)
					os.Exit(1)
				}
				done2 := make(chan error, 1)
				go func() {
					defer func() {
						if x := recover(); x != nil {
							fmt.Println("PANIC", x)
							os.Exit(7)
						}
					}()
					done2 <- svc2.Listen(context.Background(), a[0]+"-second", 0)
				}()
				ready := false
				for i := 0; i < 100000 && !ready; i++ {
					if l, _ := svc2.GetListener(); l != nil {
						fmt.Println("READY2", l.Addr().String())
						ready = true
						break
					}
					select {
					case err := <-done2:
						fmt.Println("FAILED2", err)
						ready = true
					default:
					}
					time.Sleep(100 * time.Microsecond)
				}
				if !ready {
					fmt.Println("FAILED2 no listener")
				}
				period--
				continue
			}
			// "NEXT" keeps the environment, "NEXT <pid mode>" changes LISTEN_PID for the coming period
			if f := strings.Fields(line); len(f) == 2 {
				setPid(f[1])
			}
			svc.Shutdown()
			select {
			case <-done:
			case <-time.After(5 * time.Second):
			}
			runtime.GC()
			runtime.GC()
			go func() {
				defer func() {
					if x := recover(); x != nil {
						fmt.Println("PANIC", x)
						os.Exit(7)
					}
				}()
				done <- svc.Listen(context.Background(), fmt.Sprintf("%s-p%d", a[0], period), 0)
			}()
			ready := false
			for i := 0; i < 100000 && !ready; i++ {
				if l, _ := svc.GetListener(); l != nil {
					fmt.Println("READY", l.Addr().String())
					ready = true
					break
				}
				select {
				case err := <-done:
					fmt.Println("FAILED", err)
					os.Exit(1)
				default:
				}
				time.Sleep(100 * time.Microsecond)
			}
			if !ready {
				fmt.Println("FAILED no listener")
				os.Exit(1)
			}
		}
		svc.Shutdown()
		select {
		case <-done:
		case <-time.After(5 * time.Second):
		}
		os.Exit(0)
	})
}

type c20Case struct {
	PidMode  string  `json:"pid"`     // own | other | unset | garbage
	FDS      *string `json:"fds"`     // nil = unset
	FDNames  *string `json:"fdnames"` // nil = unset
	NamesVar string  `json:"names_variant"`
	Kind     string  `json:"kind"`       // socket | file | pipe : kind of the descriptor that would be selected
	OtherK   string  `json:"other_kind"` // kind of the descriptors that are not selected
	// Periods: number of serve periods of the same Service object in the helper process (0 = 1); between two periods
	// the helper calls Shutdown and forces two garbage collections
	Periods int `json:"periods,omitempty"`
	// PeriodPid: LISTEN_PID mode of the 2nd, 3rd, ... period when it differs from the first (the process changes its own
	// environment between two periods); "" = unchanged
	PeriodPid []string `json:"period_pid,omitempty"`
	// Second: while the first service serves (on its address argument: only used where the model selects no descriptor), a
	// second Service object of the same process listens on an address of its own
	Second bool `json:"second,omitempty"`
}

// c20Model (DESIGN A.6): index of the inherited descriptor (0 = fd 3) that must be served, or -1 = the address.
func c20Model(c *c20Case) (sel int, would int) {
	would = 0
	n := 0
	okN := false
	if c.FDS != nil {
		if v, err := strconv.Atoi(*c.FDS); err == nil && v >= 1 {
			n, okN = v, true
		}
	}
	if okN && n > 1 {
		would = -1
		if c.FDNames != nil {
			names := strings.Split(*c.FDNames, ":")
			if len(names) == n {
				for i, nm := range names {
					if nm == "varlink" {
						would = i
						break
					}
				}
			}
		}
	}
	if c.PidMode != "own" || !okN || would < 0 {
		if would < 0 {
			would = 0
		}
		return -1, would
	}
	return would, would
}

func c20Enumerate(otherKind string) []*c20Case {
	sp := func(s string) *string { return &s }
	var out []*c20Case
	for _, pid := range []string{"own", "other", "unset", "garbage"} {
		for _, fds := range []*string{nil, sp(""), sp("foo"), sp("-1"), sp("0"), sp("1"), sp("2"), sp("3")} {
			n := 2
			if fds != nil {
				if v, err := strconv.Atoi(*fds); err == nil && v >= 1 {
					n = v
				}
			}
			mk := func(pos []int, total int) *string {
				names := make([]string, total)
				for i := range names {
					names[i] = fmt.Sprintf("n%d", i)
				}
				for _, p := range pos {
					if p < total {
						names[p] = "varlink"
					}
				}
				return sp(strings.Join(names, ":"))
			}
			variants := []struct {
				name string
				v    *string
			}{
				{"unset", nil},
				{"wrong-arity-more", mk([]int{0}, n+1)},
				{"wrong-arity-less", mk([]int{0}, max(n-1, 0))},
				{"first", mk([]int{0}, n)},
				{"middle", mk([]int{n / 2}, n)},
				{"last", mk([]int{n - 1}, n)},
				{"twice", mk([]int{n - 1, max(n-2, 0)}, n)},
				{"absent", mk(nil, n)},
			}
			for _, va := range variants {
				for _, kind := range []string{"socket", "file", "pipe"} {
					out = append(out, &c20Case{PidMode: pid, FDS: fds, FDNames: va.v, NamesVar: va.name, Kind: kind, OtherK: otherKind})
				}
			}
		}
	}
	return out
}

func c20Probe(network, addr, product string, bound time.Duration) (answered bool, wrong string) {
	deadline := time.Now().Add(bound)
	for {
		c, err := net.DialTimeout(network, addr, 2*time.Second)
		if err == nil {
			c.SetDeadline(time.Now().Add(bound))
			c.Write([]byte("{\"method\":\"org.varlink.service.GetInfo\"}\x00"))
			buf := make([]byte, 4096)
			n, _ := c.Read(buf)
			c.Close()
			if i := bytes.IndexByte(buf[:n], 0); i > 0 {
				var rep struct {
					Parameters struct {
						Product string `json:"product"`
					} `json:"parameters"`
				}
				if json.Unmarshal(buf[:i], &rep) == nil && rep.Parameters.Product == product {
					return true, ""
				}
				return true, string(buf[:i])
			}
		}
		if time.Now().After(deadline) {
			return false, ""
		}
		time.Sleep(300 * time.Microsecond)
	}
}

func c20One(r *fw.Run, c *c20Case, idx int) {
	report := func(class, format string, a ...interface{}) {
		b, _ := json.Marshal(c)
		r.Violation("C20 "+class, fmt.Sprintf("configuration %s: ", b)+fmt.Sprintf(format, a...), c)
	}
	sel, would := c20Model(c)
	tag := fmt.Sprintf("vf20-%d-%d-%d", os.Getpid(), idx, r.Seq())
	product := "activ-" + tag
	fallback := "@" + tag + "-fb"
	// candidates
	var files []*os.File
	var lns []net.Listener
	names := make([]string, 3)
	kinds := make([]string, 3)
	nets := []string{"unix", "unix", "unix"}
	isSock := func(k string) bool { return k == "socket" || k == "tcpsocket" }
	cleanup := func() {
		for _, f := range files {
			f.Close()
		}
		for _, l := range lns {
			l.Close()
		}
	}
	defer cleanup()
	for i := 0; i < 3; i++ {
		kind := c.OtherK
		if i == would {
			kind = c.Kind
		}
		kinds[i] = kind
		switch kind {
		case "socket":
			names[i] = fmt.Sprintf("@%s-%d", tag, i)
			l, err := net.Listen("unix", names[i])
			if err != nil {
				r.Inconclusive("candidate socket: %v", err)
				return
			}
			lns = append(lns, l)
			f, err := l.(*net.UnixListener).File()
			if err != nil {
				r.Inconclusive("candidate socket file: %v", err)
				return
			}
			files = append(files, f)
		case "tcpsocket":
			l, err := net.Listen("tcp", "127.0.0.1:0")
			if err != nil {
				r.Inconclusive("candidate tcp socket: %v", err)
				return
			}
			names[i], nets[i] = l.Addr().String(), "tcp"
			lns = append(lns, l)
			f, err := l.(*net.TCPListener).File()
			if err != nil {
				r.Inconclusive("candidate tcp socket file: %v", err)
				return
			}
			files = append(files, f)
		case "file":
			f, err := os.Create(filepath.Join(r.WorkDir, fmt.Sprintf("%s-%d.txt", tag, i)))
			if err != nil {
				r.Inconclusive("candidate file: %v", err)
				return
			}
			files = append(files, f)
		case "pipe":
			pr, pw, err := os.Pipe()
			if err != nil {
				r.Inconclusive("candidate pipe: %v", err)
				return
			}
			files = append(files, pr)
			defer pw.Close()
		}
	}
	// when a descriptor will be selected, the address argument names an existing filesystem entry (as it does under
	// systemd, where it is the path of the activated socket): activation must leave it alone
	fsFallback := ""
	if sel >= 0 && isSock(kinds[sel]) {
		fsFallback = filepath.Join(r.WorkDir, tag+"-fb")
		if idx%2 == 0 {
			os.WriteFile(fsFallback, []byte("not a socket"), 0600)
		} else if l, err := net.Listen("unix", fsFallback); err == nil {
			l.(*net.UnixListener).SetUnlinkOnClose(false)
			defer l.Close()
		}
		fallback = fsFallback
	}
	exe, _ := os.Executable()
	cmd := exec.Command(exe, "--helper", "activ", "unix:"+fallback, product, c.PidMode)
	cmd.ExtraFiles = files[:3]
	env := []string{"PATH=" + os.Getenv("PATH")}
	if c.FDS != nil {
		env = append(env, "LISTEN_FDS="+*c.FDS)
	}
	if c.FDNames != nil {
		env = append(env, "LISTEN_FDNAMES="+*c.FDNames)
	}
	cmd.Env = env
	stdin, _ := cmd.StdinPipe()
	stdout, _ := cmd.StdoutPipe()
	var stderr bytes.Buffer
	cmd.Stderr = &stderr
	if err := cmd.Start(); err != nil {
		r.Inconclusive("helper start: %v", err)
		return
	}
	lineCh := make(chan string, 4)
	go func() {
		rd := bufio.NewReader(stdout)
		for {
			l, err := rd.ReadString('\n')
			lineCh <- strings.TrimSpace(l)
			if err != nil {
				return
			}
		}
	}()
	var line string
	select {
	case line = <-lineCh:
	case <-time.After(30 * time.Second):
		cmd.Process.Kill()
		cmd.Wait()
		r.Inconclusive("helper did not report within 30 s")
		return
	}
	finish := func() {
		stdin.Close()
		waited := make(chan struct{})
		go func() { cmd.Wait(); close(waited) }()
		select {
		case <-waited:
		case <-time.After(10 * time.Second):
			cmd.Process.Kill()
			<-waited
		}
	}
	if strings.HasPrefix(line, "PANIC") || strings.Contains(stderr.String(), "panic:") {
		finish()
		report("panic", "helper: %s\n%s", line, clip(stderr.String(), 2000))
		return
	}
	if !strings.HasPrefix(line, "READY") {
		finish()
		report("listen-failed", "Service.Listen in the helper did not serve: %q %s", line, clip(stderr.String(), 500))
		return
	}
	if sel >= 0 && !isSock(kinds[sel]) {
		sel = -1 // a selected descriptor that is not a socket: fall back to the address
	}
	// the expected endpoint answers with the helper's identity
	expAddr, expNet := fallback, "unix"
	expWhat := "the fallback address"
	if sel >= 0 {
		expAddr, expNet = names[sel], nets[sel]
		expWhat = fmt.Sprintf("inherited descriptor %d (%s)", 3+sel, kinds[sel])
	}
	ok, wrong := c20Probe(expNet, expAddr, product, 10*time.Second)
	if !ok {
		report("expected-endpoint-not-served", "%s must be served (model), but no GetInfo reply arrived within 10 s; helper reported %q", expWhat, line)
	} else if wrong != "" {
		report("expected-endpoint-not-served", "%s answered with %q", expWhat, clip(wrong, 200))
	}
	if fsFallback != "" {
		if _, err := os.Lstat(fsFallback); err != nil {
			report("address-argument-touched", "the inherited descriptor was selected, yet the filesystem entry named by the ignored address argument (%s) was removed: %v", fsFallback, err)
		}
		r.Count("ignored_address_left_alone_checks", 1)
	}
	// no other candidate is served
	others := []string{}
	onets := []string{}
	for i := 0; i < 3; i++ {
		if i != sel && isSock(kinds[i]) {
			others = append(others, names[i])
			onets = append(onets, nets[i])
		}
	}
	if sel >= 0 {
		others = append(others, fallback)
		onets = append(onets, "unix")
	}
	for oi, a := range others {
		if ans, _ := c20Probe(onets[oi], a, product, 15*time.Millisecond); ans {
			report("unexpected-endpoint-served", "%s answers although the model selects %s", a, expWhat)
		}
	}
	// a second Service object in the same process (only where the first serves its address argument): each answers on its
	// own address with its own identity (seeded change C20-O: the first Bind gives the inherited descriptor number back to
	// the system, the second Bind then mistakes whatever owns that number now for the inherited socket)
	if c.Second && sel < 0 {
		fmt.Fprintln(stdin, "SECOND")
		var l2 string
		select {
		case l2 = <-lineCh:
		case <-time.After(30 * time.Second):
			report("listen-failed", "second service: the helper did not report within 30 s")
			cmd.Process.Kill()
			finish()
			return
		}
		switch {
		case strings.HasPrefix(l2, "PANIC"):
			report("panic", "second service: helper: %s\n%s", l2, clip(stderr.String(), 2000))
		case !strings.HasPrefix(l2, "READY2"):
			report("listen-failed", "second service of the process: Listen on an address of its own did not serve: %q", l2)
		default:
			if ok, wrong := c20Probe("unix", fallback+"-second", product+"-second", 10*time.Second); !ok {
				report("expected-endpoint-not-served", "second service of the process: its address argument must be served, but no GetInfo reply arrived within 10 s; helper reported %q", l2)
			} else if wrong != "" {
				report("expected-endpoint-not-served", "second service of the process: its address answered with %q", clip(wrong, 200))
			}
			for k := 0; k < 8; k++ {
				if ok, wrong := c20Probe("unix", fallback, product, 10*time.Second); !ok || wrong != "" {
					report("expected-endpoint-not-served", "first service, after a second service was started in the same process: probe %d of its address was answered=%v with %q", k, ok, clip(wrong, 200))
					break
				}
			}
			r.Count("second_service_runs", 1)
		}
	}
	// further serve periods of the same object in the same process: the environment still says "activated", so the same
	// endpoint is served again (the fallback address differs per period: "<fallback>-p<n>")
	for period := 2; period <= c.Periods; period++ {
		selP := sel
		if period-2 < len(c.PeriodPid) && c.PeriodPid[period-2] != "" {
			fmt.Fprintln(stdin, "NEXT "+c.PeriodPid[period-2])
			cp := *c
			cp.PidMode = c.PeriodPid[period-2]
			selP, _ = c20Model(&cp)
			if selP >= 0 && !isSock(kinds[selP]) {
				selP = -1
			}
		} else {
			fmt.Fprintln(stdin, "NEXT")
		}
		var l2 string
		select {
		case l2 = <-lineCh:
		case <-time.After(30 * time.Second):
			report("listen-failed", "period %d: the helper did not report within 30 s", period)
			cmd.Process.Kill()
			finish()
			return
		}
		if strings.HasPrefix(l2, "PANIC") {
			report("panic", "period %d: helper: %s\n%s", period, l2, clip(stderr.String(), 2000))
			finish()
			return
		}
		if !strings.HasPrefix(l2, "READY") {
			report("listen-failed", "period %d: Service.Listen in the helper did not serve: %q %s", period, l2, clip(stderr.String(), 500))
			finish()
			return
		}
		pAddr, pNet, pWhat := fmt.Sprintf("%s-p%d", fallback, period), "unix", fmt.Sprintf("the fallback address of period %d", period)
		if selP >= 0 {
			pAddr, pNet, pWhat = names[selP], nets[selP], fmt.Sprintf("inherited descriptor %d (%s) in period %d", 3+selP, kinds[selP], period)
		}
		if ok, wrong := c20Probe(pNet, pAddr, product, 10*time.Second); !ok {
			report("expected-endpoint-not-served", "%s must be served (model), but no GetInfo reply arrived within 10 s; helper reported %q", pWhat, l2)
		} else if wrong != "" {
			report("expected-endpoint-not-served", "%s answered with %q", pWhat, clip(wrong, 200))
		}
		if selP >= 0 {
			if ans, _ := c20Probe("unix", fmt.Sprintf("%s-p%d", fallback, period), product, 15*time.Millisecond); ans {
				report("unexpected-endpoint-served", "period %d: the address argument is served although the model selects %s", period, pWhat)
			}
		}
		r.Count("later_serve_periods", 1)
	}
	finish()
	r.Count("helper_runs", 1)
	if sel < 0 {
		r.Count("fallback_cases", 1)
	} else {
		r.Count(fmt.Sprintf("fd_selected_%d", 3+sel), 1)
	}
}

func runC20(r *fw.Run) {
	cases := c20Enumerate("socket")
	if r.Thorough {
		cases = append(cases, c20Enumerate("file")...)
		cases = append(cases, c20Enumerate("pipe")...)
	}
	// a few extra spellings outside the listed product (judged by the same model)
	sp := func(s string) *string { return &s }
	for _, fds := range []string{"+1", "01", " 1", "1 ", "2147483648", "4"} {
		cases = append(cases, &c20Case{PidMode: "own", FDS: sp(fds), FDNames: sp("varlink"), NamesVar: "extra", Kind: "socket", OtherK: "socket"})
	}
	cases = append(cases, &c20Case{PidMode: "own", FDS: sp("2"), FDNames: sp("Varlink:varlink"), NamesVar: "extra", Kind: "socket", OtherK: "socket"},
		&c20Case{PidMode: "own", FDS: sp("2"), FDNames: sp("varlink :x"), NamesVar: "extra", Kind: "socket", OtherK: "socket"},
		&c20Case{PidMode: "own", FDS: sp("3"), FDNames: sp("a::varlink"), NamesVar: "extra", Kind: "socket", OtherK: "socket"})
	for _, nm := range []string{"varlinkx:varlink", "var:varlink", "VARLINK:varlink", ":varlink", "varlink ", "n0:n1:varlink"} {
		fds := "2"
		if strings.Count(nm, ":") == 2 {
			fds = "3"
		}
		for _, ok := range []string{"socket", "pipe"} {
			cases = append(cases, &c20Case{PidMode: "own", FDS: sp(fds), FDNames: sp(nm), NamesVar: "extra", Kind: "socket", OtherK: ok})
		}
	}
	// inherited listening sockets of the other stream family (TCP), selected and not selected
	for _, fds := range []string{"1", "2", "3"} {
		cases = append(cases, &c20Case{PidMode: "own", FDS: sp(fds), FDNames: sp([]string{"varlink", "x:varlink", "x:varlink:y"}[int(fds[0]-'1')]), NamesVar: "extra", Kind: "tcpsocket", OtherK: "socket"},
			&c20Case{PidMode: "own", FDS: sp(fds), FDNames: sp([]string{"varlink", "x:varlink", "x:varlink:y"}[int(fds[0]-'1')]), NamesVar: "extra", Kind: "socket", OtherK: "tcpsocket"},
			&c20Case{PidMode: "other", FDS: sp(fds), FDNames: sp([]string{"varlink", "x:varlink", "x:varlink:y"}[int(fds[0]-'1')]), NamesVar: "extra", Kind: "tcpsocket", OtherK: "tcpsocket"})
	}
	cases = append(cases, &c20Case{PidMode: "own", FDS: sp("1"), NamesVar: "extra", Kind: "tcpsocket", OtherK: "file"})
	// several serve periods in one activated process
	for _, fds := range []string{"1", "3"} {
		for _, kind := range []string{"socket", "tcpsocket", "file"} {
			cases = append(cases, &c20Case{PidMode: "own", FDS: sp(fds), FDNames: sp([]string{"varlink", "", "x:varlink:y"}[int(fds[0]-'1')]), NamesVar: "extra", Kind: kind, OtherK: "socket", Periods: 3})
		}
	}
	cases = append(cases, &c20Case{PidMode: "other", FDS: sp("1"), NamesVar: "extra", Kind: "socket", OtherK: "socket", Periods: 2})
	// the process changes LISTEN_PID between two periods: every period is decided by the environment it starts in
	cases = append(cases, &c20Case{PidMode: "own", FDS: sp("1"), NamesVar: "extra", Kind: "socket", OtherK: "socket", Periods: 3, PeriodPid: []string{"unset", "own"}},
		&c20Case{PidMode: "garbage", FDS: sp("3"), FDNames: sp("x:varlink:y"), NamesVar: "extra", Kind: "socket", OtherK: "socket", Periods: 3, PeriodPid: []string{"own", "other"}},
		&c20Case{PidMode: "unset", FDS: sp("1"), NamesVar: "extra", Kind: "socket", OtherK: "socket", Periods: 2, PeriodPid: []string{"own"}})
	// two Service objects in one process where the first one had to fall back to its address argument
	for _, kind := range []string{"file", "pipe"} {
		cases = append(cases, &c20Case{PidMode: "own", FDS: sp("1"), NamesVar: "extra", Kind: kind, OtherK: "socket", Second: true},
			&c20Case{PidMode: "own", FDS: sp("3"), FDNames: sp("x:varlink:y"), NamesVar: "extra", Kind: kind, OtherK: "socket", Second: true},
			&c20Case{PidMode: "own", FDS: sp("2"), FDNames: sp("varlink:y"), NamesVar: "extra", Kind: kind, OtherK: kind, Second: true})
	}
	cases = append(cases, &c20Case{PidMode: "unset", NamesVar: "extra", Kind: "socket", OtherK: "socket", Second: true},
		&c20Case{PidMode: "other", FDS: sp("1"), NamesVar: "extra", Kind: "socket", OtherK: "socket", Second: true})
	cases = append(cases, &c20Case{PidMode: "own-padded", FDS: sp("1"), NamesVar: "extra", Kind: "socket", OtherK: "socket"},
		&c20Case{PidMode: "own-suffix", FDS: sp("1"), NamesVar: "extra", Kind: "socket", OtherK: "socket"})
	for _, fds := range []string{"1x", "1.5", "1,3", "2-1", "3;", "0x1", "1e0", "١"} {
		cases = append(cases, &c20Case{PidMode: "own", FDS: sp(fds), FDNames: sp("varlink:x:y"), NamesVar: "extra", Kind: "socket", OtherK: "socket"})
	}
	fw.Parallel(16, len(cases), func(w, i int) {
		c := cases[i]
		if c.FDS != nil && (*c.FDS == "4" || *c.FDS == "2147483648" || *c.FDS == "+1" || *c.FDS == "01") {
			// n > 3 would name descriptors the harness does not pass; "+1"/"01" parse as 1: keep those
			if *c.FDS == "4" || *c.FDS == "2147483648" {
				return
			}
		}
		r.Journal(w, c)
		c20One(r, c, i)
		r.Done(w)
		b, _ := json.Marshal(c)
		r.Case(fw.HashBytes(b), c.PidMode == "own" || c.FDS != nil)
		if i%100 == 0 {
			r.Sample(c)
		}
	})
	r.Count("configurations", int64(len(cases)))
	r.Count("exhaustive_product_complete", 1)
}

func replayC20(r *fw.Run, raw json.RawMessage) {
	var c c20Case
	if json.Unmarshal(raw, &c) != nil || c.PidMode == "" {
		return
	}
	c20One(r, &c, 0)
	r.Case(1, true)
	r.Case(2, true)
}

func init() {
	fw.Register(&fw.Engine{
		ID: "C20", Level: "exploration",
		Rule: "the full product LISTEN_PID in {own pid, other pid, unset, garbage} x LISTEN_FDS in {unset, '', 'foo', '-1', '0', '1', '2', '3'} x LISTEN_FDNAMES in {unset, one entry too many, one too few, varlink first / middle / last / twice / absent with the right arity} x kind of the descriptor that would be selected in {listening unix socket, regular file, pipe} = 768 configurations, enumerated completely (thorough: three times, with the non-selected descriptors being sockets, files, pipes), plus a few spellings outside the product ('+1', '01', ' 1', case and blank variants of 'varlink', an empty name). For each configuration a helper process inherits three distinguishable candidates as descriptors 3,4,5, sets LISTEN_PID as the case says and calls Service.Listen(fallback address). Oracle (model A.6 written from the statement): exactly one endpoint - the selected inherited socket, or the fallback address in every other environment incl. a selected descriptor that is not a socket - answers GetInfo with the helper's unique product string; no other candidate answers; the helper never panics. non-trivial = pid matches or LISTEN_FDS is set; distinct by hash of the configuration. Further spellings outside the product: numeric prefixes (1x, 1.5, 3;), pid with suffix or padding, name prefixes and case variants; whenever a descriptor is selected the address argument names an existing file or socket that must be left alone. Extra cases outside the product: inherited listening TCP sockets (selected: must be served; not selected: must not be). Also: up to three serve periods of the same Service object in one activated process (Shutdown and two forced garbage collections in between, a different address argument per period): each period serves the endpoint the model selects, also when the process changes LISTEN_PID between two periods.",
		Assumptions: []string{"'no other candidate answers' is checked with a 15 ms probe and is one-sided (an answer is a violation); the positive check has a 10 s bound", "descriptor numbers above 5 are not passed, so LISTEN_FDS > 3 is not generated"},
		Run:         runC20, Replay: replayC20, CrashIsViolation: false, MinEvals: 100,
		QuickTimeout: 15 * time.Minute, ThoroughTimeout: 60 * time.Minute,
	})
}
