package eng

// Syntax trees of the varlink interface definition grammar, their renderings under
// arbitrary layouts, and the independent printer used by the C06 oracle.

import (
	"fmt"
	"math/rand"
	"strings"

	"github.com/varlink/go/varlink/idl"
)

// Kinds (own constants; compared against idl.Type* through kindOf).
const (
	kBool = iota
	kInt
	kFloat
	kString
	kObject
	kArray
	kMaybe
	kMap
	kStruct
	kEnum
	kAlias
)

var kindName = []string{"bool", "int", "float", "string", "object", "array", "maybe", "map", "struct", "enum", "alias"}

type Ty struct {
	K      int    `json:"k"`
	Elem   *Ty    `json:"elem,omitempty"`
	Alias  string `json:"alias,omitempty"`
	Fields []Fld  `json:"fields,omitempty"`
}

type Fld struct {
	Name string `json:"n"`
	T    *Ty    `json:"t,omitempty"` // nil in an enum
}

type Mem struct {
	Kind byte     `json:"kind"` // 't' type, 'm' method, 'e' error
	Name string   `json:"name"`
	T    *Ty      `json:"t,omitempty"`   // alias body / error parameters (nil: typeless error)
	In   *Ty      `json:"in,omitempty"`  // method
	Out  *Ty      `json:"out,omitempty"` // method
	Doc  []string `json:"doc,omitempty"` // comment block rendered directly above (texts, without '#')
}

type Desc struct {
	Name string   `json:"name"`
	Doc  []string `json:"doc,omitempty"`
	Mems []Mem    `json:"mems"`
}

func base(k int) *Ty       { return &Ty{K: k} }
func alias(n string) *Ty   { return &Ty{K: kAlias, Alias: n} }
func wrap(k int, e *Ty) *Ty { return &Ty{K: k, Elem: e} }
func strct(f ...Fld) *Ty {
	if f == nil {
		f = []Fld{}
	}
	return &Ty{K: kStruct, Fields: f}
}
func enum(names ...string) *Ty {
	t := &Ty{K: kEnum}
	for _, n := range names {
		t.Fields = append(t.Fields, Fld{Name: n})
	}
	return t
}

// ---- printing (canonical, no layout) -------------------------------------------------

func printTy(b *strings.Builder, t *Ty) {
	switch t.K {
	case kBool, kInt, kFloat, kString, kObject:
		b.WriteString(kindName[t.K])
	case kAlias:
		b.WriteString(t.Alias)
	case kMaybe:
		b.WriteString("?")
		printTy(b, t.Elem)
	case kArray:
		b.WriteString("[]")
		printTy(b, t.Elem)
	case kMap:
		b.WriteString("[string]")
		printTy(b, t.Elem)
	case kStruct, kEnum:
		b.WriteString("(")
		for i, f := range t.Fields {
			if i > 0 {
				b.WriteString(",")
			}
			b.WriteString(f.Name)
			if f.T != nil {
				b.WriteString(":")
				printTy(b, f.T)
			}
		}
		b.WriteString(")")
	}
}

// ---- the oracle-side printer of a parsed tree (C06) ----------------------------------

func printParsedTy(b *strings.Builder, t *idl.Type) error {
	if t == nil {
		return fmt.Errorf("nil type in tree")
	}
	switch t.Kind {
	case idl.TypeBool:
		b.WriteString("bool")
	case idl.TypeInt:
		b.WriteString("int")
	case idl.TypeFloat:
		b.WriteString("float")
	case idl.TypeString:
		b.WriteString("string")
	case idl.TypeObject:
		b.WriteString("object")
	case idl.TypeAlias:
		b.WriteString(t.Alias)
	case idl.TypeMaybe:
		b.WriteString("?")
		return printParsedTy(b, t.ElementType)
	case idl.TypeArray:
		b.WriteString("[]")
		return printParsedTy(b, t.ElementType)
	case idl.TypeMap:
		b.WriteString("[string]")
		return printParsedTy(b, t.ElementType)
	case idl.TypeStruct, idl.TypeEnum:
		b.WriteString("(")
		for i, f := range t.Fields {
			if i > 0 {
				b.WriteString(",")
			}
			b.WriteString(f.Name)
			if f.Type != nil {
				b.WriteString(":")
				if err := printParsedTy(b, f.Type); err != nil {
					return err
				}
			}
		}
		b.WriteString(")")
	default:
		return fmt.Errorf("unknown kind %d", t.Kind)
	}
	return nil
}

// printParsed prints an *idl.IDL in member order without any layout.
func printParsed(t *idl.IDL) (string, error) {
	var b strings.Builder
	b.WriteString("interface")
	b.WriteString(t.Name)
	for _, m := range t.Members {
		switch x := m.(type) {
		case *idl.Alias:
			b.WriteString("type" + x.Name)
			if err := printParsedTy(&b, x.Type); err != nil {
				return "", err
			}
		case *idl.Method:
			b.WriteString("method" + x.Name)
			if err := printParsedTy(&b, x.In); err != nil {
				return "", err
			}
			b.WriteString("->")
			if err := printParsedTy(&b, x.Out); err != nil {
				return "", err
			}
		case *idl.Error:
			b.WriteString("error" + x.Name)
			if x.Type != nil {
				if err := printParsedTy(&b, x.Type); err != nil {
					return "", err
				}
			}
		default:
			return "", fmt.Errorf("member of unknown Go type %T", m)
		}
	}
	return b.String(), nil
}

// stripLayout removes comments ('#' to end of line) and the four layout characters.
func stripLayout(s string) string {
	var b strings.Builder
	in := false
	for i := 0; i < len(s); i++ {
		c := s[i]
		if in {
			if c == '\n' {
				in = false
			}
			continue
		}
		switch c {
		case '#':
			in = true
		case ' ', '\t', '\r', '\n':
		default:
			b.WriteByte(c)
		}
	}
	return b.String()
}

// ---- rendering with layout -----------------------------------------------------------

// gap classes
const (
	gTight   = iota // nothing may be inserted
	gOpt            // optional layout (may be empty)
	gReq            // at least one layout character (or a comment line)
	gLineOpt        // blanks/tabs only, possibly none (error name -> parameters)
	gMember         // member separator: contains a newline; may carry the next member's doc block
	gFirst          // before "interface": anything, may carry the interface doc block
	gLast           // after the last token
)

type tok struct {
	gap  int
	text string
	doc  []string // for gMember / gFirst: the doc block to render directly above
	mem  int      // index of the member this token belongs to (-1: interface header)
	kw   bool     // this token directly follows a member keyword / "interface"
}

func tyToks(out *[]tok, gap int, t *Ty) {
	prefix := ""
	for t.K == kMaybe || t.K == kArray || t.K == kMap {
		switch t.K {
		case kMaybe:
			prefix += "?"
		case kArray:
			prefix += "[]"
		case kMap:
			prefix += "[string]"
		}
		t = t.Elem
	}
	switch t.K {
	case kStruct, kEnum:
		*out = append(*out, tok{gap: gap, text: prefix + "("})
		for i, f := range t.Fields {
			if i > 0 {
				*out = append(*out, tok{gap: gOpt, text: ","})
			}
			*out = append(*out, tok{gap: gOpt, text: f.Name})
			if f.T != nil {
				*out = append(*out, tok{gap: gOpt, text: ":"})
				tyToks(out, gOpt, f.T)
			}
		}
		*out = append(*out, tok{gap: gOpt, text: ")"})
	case kAlias:
		*out = append(*out, tok{gap: gap, text: prefix + t.Alias})
	default:
		*out = append(*out, tok{gap: gap, text: prefix + kindName[t.K]})
	}
}

func descToks(d *Desc) []tok {
	var out []tok
	out = append(out, tok{gap: gFirst, text: "interface", doc: d.Doc, mem: -1})
	out = append(out, tok{gap: gReq, text: d.Name, mem: -1, kw: true})
	for i, m := range d.Mems {
		switch m.Kind {
		case 't':
			out = append(out, tok{gap: gMember, text: "type", doc: m.Doc, mem: i}, tok{gap: gReq, text: m.Name, mem: i, kw: true})
			g := gOpt
			if m.T.K != kStruct && m.T.K != kEnum && !(isWrapper(m.T)) {
				g = gReq // "type Foo int": name and keyword-like type must be separated
			}
			tyToks(&out, g, m.T)
		case 'm':
			out = append(out, tok{gap: gMember, text: "method", doc: m.Doc, mem: i}, tok{gap: gReq, text: m.Name, mem: i, kw: true})
			tyToks(&out, gOpt, m.In)
			out = append(out, tok{gap: gOpt, text: "->"})
			tyToks(&out, gOpt, m.Out)
		case 'e':
			out = append(out, tok{gap: gMember, text: "error", doc: m.Doc, mem: i}, tok{gap: gReq, text: m.Name, mem: i, kw: true})
			if m.T != nil {
				tyToks(&out, gLineOpt, m.T)
			}
		}
	}
	out = append(out, tok{gap: gLast})
	return out
}

func isWrapper(t *Ty) bool { return t.K == kMaybe || t.K == kArray || t.K == kMap }

// Layout decides the string for each gap. style 0 = canonical.
type Layout struct {
	rng   *rand.Rand
	style int // 0 canonical; 1 minimal (tightest legal); 2 CRLF; 3 tabs; >=4 random mix
	nl    string
	Kinds map[string]bool
	// Tainted[m]: the layout put a newline or a comment between member m's keyword and its name, a
	// placement for which the statement does not define the documentation (only the tree is asserted).
	Tainted map[int]bool
}

func (l *Layout) note(k string) {
	if l.Kinds != nil {
		l.Kinds[k] = true
	}
}

func (l *Layout) ws(allowNewline, allowComment bool) string {
	r := l.rng
	switch n := r.Intn(10); {
	case n < 3:
		l.note("space")
		return " "
	case n < 4:
		l.note("tab")
		return "\t"
	case n < 5:
		l.note("spaces")
		return "   "
	case n < 6:
		l.note("cr")
		return "\r"
	case n < 8 && allowNewline:
		if r.Intn(2) == 0 {
			l.note("lf")
			return "\n"
		}
		l.note("crlf")
		return "\r\n"
	case n < 10 && allowNewline && allowComment:
		// a comment to the end of the line; "# text" form only (other forms are exercised in
		// member separators, where their effect on documentation is understood)
		l.note("inner-comment")
		return " # c" + l.nl
	}
	l.note("space")
	return " "
}

func (l *Layout) docBlock(doc []string, nl string) string {
	var b strings.Builder
	for _, line := range doc {
		if l.style >= 4 && l.rng.Intn(4) == 0 {
			b.WriteString("  ")
		}
		switch {
		case line == "":
			b.WriteString("#")
		case line[0] != ' ' && line[0] != '\t' && (l.style == 1 || (l.style >= 4 && l.rng.Intn(3) == 0)):
			// the text right behind the '#': only ONE blank after '#' is layout, and only if there is one
			b.WriteString("#" + line)
			l.note("doc-without-blank")
		default:
			b.WriteString("# " + line)
		}
		b.WriteString(nl)
	}
	if len(doc) > 0 {
		l.note("doc-block")
	}
	return b.String()
}

func (l *Layout) gapString(t tok, last bool, finalStyle int) string {
	nl := l.nl
	switch t.gap {
	case gTight:
		return ""
	case gFirst:
		switch l.style {
		case 0, 1, 2, 3:
			return l.docBlock(t.doc, nl)
		}
		s := ""
		if l.rng.Intn(2) == 0 {
			s = nl + "  " + nl
		}
		return s + l.docBlock(t.doc, nl)
	case gOpt:
		switch l.style {
		case 0:
			if t.text == ")" || t.text == "," || t.text == ":" || strings.HasSuffix(t.text, "(") {
				return ""
			}
			return " "
		case 1:
			return ""
		case 2:
			if l.rng.Intn(4) == 0 {
				return "\r\n  "
			}
			return ""
		case 3:
			return "\t"
		}
		if l.rng.Intn(3) == 0 {
			l.note("empty")
			return ""
		}
		s := l.ws(true, true)
		for l.rng.Intn(4) == 0 {
			s += l.ws(true, true)
		}
		return s
	case gReq:
		switch l.style {
		case 0, 1:
			return " "
		case 2:
			return " "
		case 3:
			return "\t"
		}
		s := l.ws(true, true)
		for l.rng.Intn(4) == 0 {
			s += l.ws(true, true)
		}
		if t.kw && strings.ContainsAny(s, "\n#") {
			l.Tainted[t.mem] = true
		}
		return s
	case gLineOpt:
		switch l.style {
		case 0:
			return " "
		case 1:
			return ""
		case 2:
			return " "
		case 3:
			l.note("tab-after-error-name")
			return "\t"
		}
		switch l.rng.Intn(4) {
		case 0:
			return ""
		case 1:
			return " "
		case 2:
			l.note("tab-after-error-name")
			return "\t"
		}
		return "  \t "
	case gMember:
		switch l.style {
		case 0, 1:
			return "\n" + l.docBlock(t.doc, nl)
		case 2:
			return "\r\n" + l.docBlock(t.doc, nl)
		case 3:
			return "\n\n" + l.docBlock(t.doc, nl) + "\t"
		}
		// random: optional trailing blanks, newline, optional unrelated comment block closed by a
		// blank line, then the doc block directly above the member, optional indentation
		s := ""
		if l.rng.Intn(4) == 0 {
			s += " \t"
		}
		s += nl
		if l.rng.Intn(3) == 0 {
			l.note("detached-comment")
			s += "# detached" + nl
			if l.rng.Intn(2) == 0 {
				s += "#" + nl // empty comment line
				l.note("empty-comment")
			}
			s += nl
		}
		for l.rng.Intn(3) == 0 {
			s += nl
		}
		s += l.docBlock(t.doc, nl)
		if l.rng.Intn(3) == 0 {
			s += "  "
		}
		return s
	case gLast:
		switch finalStyle {
		case 0:
			return ""
		case 1:
			return nl
		case 2:
			l.note("final-comment-no-newline")
			return nl + "# the end"
		case 3:
			l.note("final-empty-comment")
			return nl + "#"
		case 4:
			l.note("final-trailing-comment")
			return " # trailing"
		case 5:
			return nl + "# the end" + nl
		case 6:
			l.note("final-empty-comment-nl")
			return nl + "#" + nl
		case 7:
			return "  " + nl + nl
		}
	}
	return " "
}

const numFinalStyles = 8

// Render renders d with the given style and final style. The second result lists the members
// (-1: the interface) whose documentation the layout made undefined.
func Render(d *Desc, style, finalStyle int, seed int64, kinds map[string]bool) (string, map[int]bool) {
	l := &Layout{rng: rand.New(rand.NewSource(seed)), style: style, Kinds: kinds, nl: "\n", Tainted: map[int]bool{}}
	if style == 2 || (style >= 4 && l.rng.Intn(4) == 0) {
		l.nl = "\r\n"
	}
	toks := descToks(d)
	var b strings.Builder
	for i, t := range toks {
		b.WriteString(l.gapString(t, i == len(toks)-1, finalStyle))
		b.WriteString(t.text)
	}
	return b.String(), l.Tainted
}

// RenderGaps is Render, returning the tokens and the gap chosen before each of them.
func RenderGaps(d *Desc, style, finalStyle int, seed int64) ([]tok, []string) {
	l := &Layout{rng: rand.New(rand.NewSource(seed)), style: style, nl: "\n", Tainted: map[int]bool{}}
	if style == 2 || (style >= 4 && l.rng.Intn(4) == 0) {
		l.nl = "\r\n"
	}
	toks := descToks(d)
	gaps := make([]string, len(toks))
	for i, t := range toks {
		gaps[i] = l.gapString(t, i == len(toks)-1, finalStyle)
	}
	return toks, gaps
}

func joinToks(toks []tok, gaps []string) string {
	var b strings.Builder
	for i, t := range toks {
		b.WriteString(gaps[i])
		b.WriteString(t.text)
	}
	return b.String()
}

// ---- generators ----------------------------------------------------------------------

var baseKinds = []int{kBool, kInt, kFloat, kString, kObject}

// coreTypes enumerates the bounded-exhaustive type set (see DESIGN C05): T0 = builtins and
// one alias reference; T1 = T0 + one wrapper over T0 + small structs/enums over T0;
// T2 = T1 + one wrapper over T1 (no ??) + one-field structs over T1 + two-field structs (T1, int).
func coreTypes() []*Ty {
	var t0 []*Ty
	for _, k := range baseKinds {
		t0 = append(t0, base(k))
	}
	t0 = append(t0, alias("T"))
	t1 := append([]*Ty{}, t0...)
	for _, w := range []int{kMaybe, kArray, kMap} {
		for _, e := range t0 {
			t1 = append(t1, wrap(w, e))
		}
	}
	t1 = append(t1, strct())
	for _, e := range t0 {
		t1 = append(t1, strct(Fld{"a", e}))
	}
	small := []*Ty{base(kInt), base(kString), alias("T")}
	for _, e := range small {
		for _, f := range small {
			t1 = append(t1, strct(Fld{"a", e}, Fld{"b_c", f}))
		}
	}
	t1 = append(t1, enum("x"), enum("x", "y_z"))
	t2 := append([]*Ty{}, t1...)
	for _, w := range []int{kMaybe, kArray, kMap} {
		for _, e := range t1[len(t0):] {
			if w == kMaybe && e.K == kMaybe {
				continue
			}
			t2 = append(t2, wrap(w, e))
		}
	}
	for _, e := range t1[len(t0):] {
		t2 = append(t2, strct(Fld{"a", e}))
		t2 = append(t2, strct(Fld{"a", e}, Fld{"b", base(kInt)}))
	}
	return t2
}

var positions = []string{"alias-body", "alias-field", "method-in", "method-out", "error-field"}

// coreDescs: every core type at every position, plus every member-kind sequence up to length 3
// that contains a method.
func coreDescs() []*Desc {
	var out []*Desc
	aliasT := Mem{Kind: 't', Name: "T", T: strct(Fld{"v", base(kInt)})}
	for _, t := range coreTypes() {
		for _, pos := range positions {
			d := &Desc{Name: "org.example.core"}
			d.Mems = append(d.Mems, aliasT)
			switch pos {
			case "alias-body":
				d.Mems = append(d.Mems, Mem{Kind: 't', Name: "U", T: t}, Mem{Kind: 'm', Name: "M", In: strct(), Out: strct()})
			case "alias-field":
				d.Mems = append(d.Mems, Mem{Kind: 't', Name: "U", T: strct(Fld{"f", t})}, Mem{Kind: 'm', Name: "M", In: strct(), Out: strct()})
			case "method-in":
				d.Mems = append(d.Mems, Mem{Kind: 'm', Name: "M", In: strct(Fld{"p", t}), Out: strct()})
			case "method-out":
				d.Mems = append(d.Mems, Mem{Kind: 'm', Name: "M", In: strct(), Out: strct(Fld{"q", t})})
			case "error-field":
				d.Mems = append(d.Mems, Mem{Kind: 'm', Name: "M", In: strct(), Out: strct()}, Mem{Kind: 'e', Name: "E", T: strct(Fld{"r", t})})
			}
			out = append(out, d)
		}
	}
	kinds := []byte{'t', 'm', 'e'}
	var seqs [][]byte
	for n := 1; n <= 3; n++ {
		var rec func(cur []byte)
		rec = func(cur []byte) {
			if len(cur) == n {
				seqs = append(seqs, append([]byte{}, cur...))
				return
			}
			for _, k := range kinds {
				rec(append(cur, k))
			}
		}
		rec(nil)
	}
	for _, s := range seqs {
		hasM := false
		for _, k := range s {
			if k == 'm' {
				hasM = true
			}
		}
		if !hasM {
			continue
		}
		for variant := 0; variant < 2; variant++ {
			d := &Desc{Name: "a.b"}
			for i, k := range s {
				name := fmt.Sprintf("%c%d", 'A'+i, i)
				switch k {
				case 't':
					d.Mems = append(d.Mems, Mem{Kind: 't', Name: name, T: enum("one", "two")})
				case 'm':
					d.Mems = append(d.Mems, Mem{Kind: 'm', Name: name, In: strct(Fld{"a", base(kInt)}), Out: strct(Fld{"b", wrap(kArray, base(kString))})})
				case 'e':
					if variant == 0 {
						d.Mems = append(d.Mems, Mem{Kind: 'e', Name: name}) // typeless
					} else {
						d.Mems = append(d.Mems, Mem{Kind: 'e', Name: name, T: strct(Fld{"why", base(kString)})})
					}
				}
			}
			out = append(out, d)
		}
	}
	return out
}

// ---- random trees -------------------------------------------------------------------

type IDLGen struct {
	R *rand.Rand
	// Domain restrictions for the generator checks (C07/C08): see genDomain.
	GenDomain bool
}

const lower = "abcdefghijklmnopqrstuvwxyz"
const upper = "ABCDEFGHIJKLMNOPQRSTUVWXYZ"
const digits = "0123456789"

func (g *IDLGen) pick(s string) byte { return s[g.R.Intn(len(s))] }

func (g *IDLGen) InterfaceName() string {
	r := g.R
	if r.Intn(12) == 0 {
		// xn-- form (lower case only)
		s := "xn--" + g.word(lower+digits, 1, 6)
		for n := 1 + r.Intn(3); n > 0; n-- {
			s += "." + g.label(lower + digits)
		}
		return s
	}
	first := lower
	rest := lower + digits
	if r.Intn(3) == 0 {
		first = lower + upper
		rest = lower + upper + digits
	}
	s := g.word(first, 1, 8)
	for n := 1 + r.Intn(4); n > 0; n-- {
		s += "." + g.label(rest)
	}
	return s
}

func (g *IDLGen) label(alpha string) string {
	s := g.word(alpha, 1, 6)
	for g.R.Intn(4) == 0 {
		s += "-" + g.word(alpha, 1, 4)
	}
	return s
}

func (g *IDLGen) word(alpha string, min, max int) string {
	n := min + g.R.Intn(max-min+1)
	b := make([]byte, n)
	for i := range b {
		b[i] = g.pick(alpha)
	}
	return string(b)
}

var goKeywords = []string{"type", "func", "map", "range", "interface", "chan", "var", "go", "select", "switch", "case", "default",
	"defer", "else", "for", "if", "import", "package", "return", "struct", "break", "const", "continue", "fallthrough", "goto"}
var genLocals = []string{"in", "out", "err", "receive", "flags", "c", "ctx", "m", "s", "call", "conn", "e", "b", "param", "methodname",
	"string", "int", "bool", "float", "object", "json", "fmt", "varlink", "context", "nil", "true", "false", "len", "error_", "err_"}

func (g *IDLGen) FieldName(used map[string]bool) string {
	for {
		var s string
		switch g.R.Intn(10) {
		case 0:
			s = goKeywords[g.R.Intn(len(goKeywords))]
		case 1:
			s = genLocals[g.R.Intn(len(genLocals))]
		default:
			s = string(g.pick(lower))
			for n := g.R.Intn(7); n > 0; n-- {
				if g.R.Intn(6) == 0 && s[len(s)-1] != '_' && n > 1 {
					s += "_"
					continue
				}
				s += string(g.pick(lower + upper + digits))
			}
			if s[len(s)-1] == '_' {
				s += "x"
			}
		}
		// Go-level distinctness of the generated struct fields (strings.Title of the name)
		key := strings.Title(s)
		if s == "error" && g.GenDomain {
			continue // see KNOWN_FINDINGS (C07): sentinel case exercises it separately
		}
		if !used[key] && !used[s] {
			used[key], used[s] = true, true
			return s
		}
	}
}

var reservedMembers = map[string]bool{"VarlinkCall": true, "VarlinkInterface": true, "VarlinkNew": true, "VarlinkDispatch": true,
	"VarlinkGetName": true, "VarlinkGetDescription": true, "Error": true, "MethodNotFound": true, "MethodNotImplemented": true,
	"InvalidParameter": true, "InterfaceNotFound": true}

func (g *IDLGen) MemberName(used map[string]bool) string {
	for {
		s := string(g.pick(upper)) + g.word(lower+upper+digits, 0, 7)
		if used[s] || reservedMembers[s] || strings.HasPrefix(s, "Reply") || strings.HasPrefix(s, "Dispatch") {
			continue
		}
		used[s] = true
		return s
	}
}

// Type generates a random type. aliases: names that may be referenced.
func (g *IDLGen) Type(depth int, aliases []string, allowMaybe bool) *Ty {
	r := g.R
	n := r.Intn(14)
	if depth <= 0 && n >= 7 {
		n = r.Intn(7)
	}
	switch {
	case n < 5:
		return base(baseKinds[n])
	case n == 5 || n == 6:
		if len(aliases) > 0 {
			return alias(aliases[r.Intn(len(aliases))])
		}
		return base(kString)
	case n == 7:
		if !allowMaybe {
			return wrap(kArray, g.Type(depth-1, aliases, true))
		}
		return wrap(kMaybe, g.Type(depth-1, aliases, false))
	case n == 8 || n == 9:
		return wrap(kArray, g.Type(depth-1, aliases, true))
	case n == 10:
		return wrap(kMap, g.Type(depth-1, aliases, true))
	case n == 11:
		used := map[string]bool{}
		var names []string
		for k := 1 + r.Intn(4); k > 0; k-- {
			names = append(names, g.FieldName(used))
		}
		return enum(names...)
	default:
		return g.Struct(depth-1, aliases, 0, 4)
	}
}

func (g *IDLGen) Struct(depth int, aliases []string, min, max int) *Ty {
	used := map[string]bool{}
	n := min + g.R.Intn(max-min+1)
	t := strct()
	for i := 0; i < n; i++ {
		t.Fields = append(t.Fields, Fld{Name: g.FieldName(used), T: g.Type(depth, aliases, true)})
	}
	return t
}

var docTexts = []string{"A doc line", "second line with `backticks` and \"quotes\"", "", "ünïcödé → ✓", "trailing blanks  ", "* bullet: x -> y", "// slashes */ /*"}

func (g *IDLGen) Doc() []string {
	if g.R.Intn(3) != 0 {
		return nil
	}
	var d []string
	for n := 1 + g.R.Intn(3); n > 0; n-- {
		d = append(d, docTexts[g.R.Intn(len(docTexts))])
	}
	// a block made only of empty comment lines carries no documentation to assert
	return d
}

// Desc generates a random description with up to maxMembers members and the given type depth.
func (g *IDLGen) Desc(maxMembers, depth int) *Desc {
	r := g.R
	d := &Desc{Name: g.InterfaceName(), Doc: g.Doc()}
	used := map[string]bool{}
	n := 1 + r.Intn(maxMembers)
	kinds := make([]byte, n)
	hasM := false
	for i := range kinds {
		kinds[i] = "tmmme"[r.Intn(5)]
		if kinds[i] == 'm' {
			hasM = true
		}
	}
	if !hasM {
		kinds[r.Intn(n)] = 'm'
	}
	// alias names are known up front so that references may point forward and backward
	var aliases []string
	names := make([]string, n)
	for i, k := range kinds {
		names[i] = g.MemberName(used)
		if k == 't' {
			aliases = append(aliases, names[i])
		}
	}
	for i, k := range kinds {
		m := Mem{Kind: k, Name: names[i], Doc: g.Doc()}
		switch k {
		case 't':
			// alias bodies: references to other aliases only below a container, so that the
			// generated Go types are never infinitely sized (GenDomain) — harmless otherwise
			refs := aliases
			if g.GenDomain {
				refs = nil
			}
			switch r.Intn(4) {
			case 0:
				m.T = g.Type(depth, refs, true)
				if g.GenDomain && m.T.K != kStruct && m.T.K != kEnum {
					m.T = g.containerOver(depth, aliases)
				}
			case 1:
				used := map[string]bool{}
				m.T = enum(g.FieldName(used), g.FieldName(used))
			default:
				m.T = g.structWithRefs(depth, aliases)
			}
		case 'm':
			m.In = g.Struct(depth, aliases, 0, 4)
			m.Out = g.Struct(depth, aliases, 0, 4)
		case 'e':
			if r.Intn(4) == 0 {
				m.T = nil
			} else {
				m.T = g.Struct(depth, aliases, 0, 3)
			}
		}
		d.Mems = append(d.Mems, m)
	}
	return d
}

// structWithRefs: struct whose alias references are always below ?, [] or [string].
func (g *IDLGen) structWithRefs(depth int, aliases []string) *Ty {
	used := map[string]bool{}
	t := strct()
	for n := g.R.Intn(4); n > 0; n-- {
		var ft *Ty
		if len(aliases) > 0 && g.R.Intn(3) == 0 {
			ft = g.containerOver(depth, aliases)
		} else {
			ft = g.Type(depth, nil, true)
		}
		t.Fields = append(t.Fields, Fld{Name: g.FieldName(used), T: ft})
	}
	return t
}

func (g *IDLGen) containerOver(depth int, aliases []string) *Ty {
	var e *Ty
	if len(aliases) > 0 {
		e = alias(aliases[g.R.Intn(len(aliases))])
	} else {
		e = base(kInt)
	}
	return wrap([]int{kMaybe, kArray, kMap}[g.R.Intn(3)], e)
}
