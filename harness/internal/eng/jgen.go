package eng

// Hostile JSON document generator (texts, not Go values: the literal spelling of numbers
// and strings is part of what the round-trip properties quantify over) and number-exact
// JSON equality.

import (
	"bytes"
	"encoding/json"
	"fmt"
	"math/rand"
	"sort"
	"strconv"
	"strings"
	"unicode/utf8"
)

type JGen struct {
	R   *rand.Rand
	key int
	// Timed: scripted handlers now and then reply under a short-lived derived context, wait until it has expired, and
	// reply again; they also reply empty / nil raw JSON values (used by the engines that can afford the waits)
	Timed bool
}

var jNumbers = []string{"0", "-0", "1", "-1", "42", "9007199254740992", "9007199254740993", "-9007199254740993",
	"9223372036854775807", "-9223372036854775808", "9223372036854775808", "18446744073709551615", "18446744073709551616",
	"123456789012345678901234567890", "1e400", "-1E-400", "1.0e+2", "1E5", "0.1", "0.30000000000000004", "-1.5E-10", "1.0", "100",
	"3.141592653589793238462643383279", "0e0", "0.0", "5e-324", "1.7976931348623157e308", "2.5", "1e+0", "10000000000000000000000"}

var jStringPieces = []string{"", "a", "hello", `\u0000`, `\"`, `\\`, `\/`, `\b\f\n\r\t`, `\u0001\u001f`, "\u007f", "  ", "\u00e9", `\u00e9`,
	"\u65e5\u672c\u8a9e", "\U0001F600", `\ud83d\ude00`, "<script>&amp;</script>", "\U0010FFFF", `\uffff`, "{}", "[", `\u0000\u0000`, "null", "\u2028", "\u2029", `\u2028`,
	`\\u0000`, `\\u003c`, `\\u003e\\u0026`, `\\u2028`, `\\n`, `\\\\`, `\u003c\u003e\u0026`, "'", "`", "%s%d", "\ufeff", "\u00a0", "  leading and trailing  ", "\u0080", "\u07ff\u0800", `\uD834\uDD1E`}

func (g *JGen) Number() string {
	if g.R.Intn(3) == 0 {
		n := 1 + g.R.Intn(30)
		var b strings.Builder
		if g.R.Intn(2) == 0 {
			b.WriteByte('-')
		}
		b.WriteByte("123456789"[g.R.Intn(9)])
		for i := 1; i < n; i++ {
			b.WriteByte("0123456789"[g.R.Intn(10)])
		}
		if g.R.Intn(3) == 0 {
			b.WriteByte('.')
			for i := 0; i < 1+g.R.Intn(20); i++ {
				b.WriteByte("0123456789"[g.R.Intn(10)])
			}
		}
		if g.R.Intn(4) == 0 {
			b.WriteString([]string{"e", "E", "e+", "e-", "E+", "E-"}[g.R.Intn(6)])
			b.WriteString(strconv.Itoa(g.R.Intn(400)))
		}
		return b.String()
	}
	return jNumbers[g.R.Intn(len(jNumbers))]
}

// StringLit returns a JSON string literal (with quotes).
func (g *JGen) StringLit() string {
	var b strings.Builder
	b.WriteByte('"')
	n := g.R.Intn(5)
	for i := 0; i < n; i++ {
		b.WriteString(jStringPieces[g.R.Intn(len(jStringPieces))])
	}
	if g.R.Intn(6) == 0 {
		// every C0 control, escaped
		for c := 0; c < 0x20; c++ {
			fmt.Fprintf(&b, `\u%04x`, c)
		}
	}
	b.WriteByte('"')
	return b.String()
}

// BigString returns a string literal of about n bytes with hostile content sprinkled in.
func (g *JGen) BigString(n int) string {
	var b strings.Builder
	b.Grow(n + 16)
	b.WriteByte('"')
	for b.Len() < n {
		switch g.R.Intn(8) {
		case 0:
			b.WriteString(`\u0000`)
		case 1:
			b.WriteString("😀")
		case 2:
			b.WriteString(`\"\\`)
		default:
			b.WriteString("abcdefghijklmnopqrstuvwxyz0123456789ABCDEFGHIJKLMNOPQRSTUVWXYZ-_"[:1+g.R.Intn(63)])
		}
	}
	b.WriteByte('"')
	return b.String()
}

func (g *JGen) Key() string {
	g.key++
	switch g.R.Intn(6) {
	case 0:
		return fmt.Sprintf(`"k%d\u0000"`, g.key)
	case 1:
		return fmt.Sprintf(`"ключ%d"`, g.key)
	case 2:
		return fmt.Sprintf(`"%d"`, g.key)
	case 3:
		return fmt.Sprintf(`"k%d \"q\" \\ 😀"`, g.key)
	}
	return fmt.Sprintf(`"k%d"`, g.key)
}

func (g *JGen) Value(depth int) string {
	k := g.R.Intn(10)
	if depth <= 0 && k >= 7 {
		k = g.R.Intn(7)
	}
	switch k {
	case 0:
		return "null"
	case 1:
		return []string{"true", "false"}[g.R.Intn(2)]
	case 2, 3:
		return g.Number()
	case 4, 5, 6:
		return g.StringLit()
	case 7:
		n := g.R.Intn(4)
		parts := make([]string, n)
		for i := range parts {
			parts[i] = g.Value(depth - 1)
		}
		return "[" + strings.Join(parts, g.sep()) + "]"
	}
	return g.Object(depth-1, 0)
}

func (g *JGen) sep() string {
	if g.R.Intn(4) == 0 {
		return " , "
	}
	return ","
}

func (g *JGen) Object(depth, minKeys int) string {
	n := minKeys + g.R.Intn(4)
	if depth <= 0 && n > 2 {
		n = 2
	}
	parts := make([]string, n)
	for i := range parts {
		c := ":"
		if g.R.Intn(5) == 0 {
			c = " : "
		}
		parts[i] = g.Key() + c + g.Value(depth)
	}
	return "{" + strings.Join(parts, g.sep()) + "}"
}

// Nested returns a value nested n levels deep (arrays and objects alternating).
func (g *JGen) Nested(n int) string {
	var b strings.Builder
	for i := 0; i < n; i++ {
		if i%2 == 0 {
			b.WriteString(`{"d":`)
		} else {
			b.WriteString(`[`)
		}
	}
	b.WriteString(g.Number())
	for i := n - 1; i >= 0; i-- {
		if i%2 == 0 {
			b.WriteString(`}`)
		} else {
			b.WriteString(`]`)
		}
	}
	return b.String()
}

// ---- number-exact JSON equality -------------------------------------------------------

func jdecode(b []byte) (interface{}, error) {
	d := json.NewDecoder(bytes.NewReader(b))
	d.UseNumber()
	var v interface{}
	if err := d.Decode(&v); err != nil {
		return nil, err
	}
	if d.More() {
		return nil, fmt.Errorf("trailing data after JSON value")
	}
	return v, nil
}

// jEqualV compares decoded values: numbers by literal text, strings by code points,
// objects member-wise, arrays element-wise. Returns "" or the path of the first difference.
func jEqualV(a, b interface{}, path string) string {
	switch x := a.(type) {
	case nil:
		if b != nil {
			return path + ": null vs " + clipv(b)
		}
	case bool:
		y, ok := b.(bool)
		if !ok || x != y {
			return path + ": " + clipv(a) + " vs " + clipv(b)
		}
	case json.Number:
		y, ok := b.(json.Number)
		if !ok || string(x) != string(y) {
			return path + ": number " + clipv(a) + " vs " + clipv(b)
		}
	case string:
		y, ok := b.(string)
		if !ok || x != y {
			return path + ": string " + clipv(a) + " vs " + clipv(b)
		}
	case []interface{}:
		y, ok := b.([]interface{})
		if !ok || len(x) != len(y) {
			return path + ": array " + clipv(a) + " vs " + clipv(b)
		}
		for i := range x {
			if d := jEqualV(x[i], y[i], fmt.Sprintf("%s[%d]", path, i)); d != "" {
				return d
			}
		}
	case map[string]interface{}:
		y, ok := b.(map[string]interface{})
		if !ok {
			return path + ": object vs " + clipv(b)
		}
		if len(x) != len(y) {
			return path + ": objects with different member sets " + keysOf(x) + " vs " + keysOf(y)
		}
		for k, v := range x {
			w, ok := y[k]
			if !ok {
				return path + ": member " + strconv.Quote(k) + " missing"
			}
			if d := jEqualV(v, w, path+"."+k); d != "" {
				return d
			}
		}
	default:
		return path + ": unexpected type"
	}
	return ""
}

func keysOf(m map[string]interface{}) string {
	var k []string
	for s := range m {
		k = append(k, s)
	}
	sort.Strings(k)
	return clip(fmt.Sprintf("%q", k), 200)
}

func clipv(v interface{}) string {
	b, _ := json.Marshal(v)
	return clip(string(b), 120)
}

// jEqual compares two JSON texts. Returns "" if equal.
func jEqual(a, b []byte) string {
	x, err := jdecode(a)
	if err != nil {
		return "left side is not JSON: " + err.Error() + ": " + clip(string(a), 120)
	}
	y, err := jdecode(b)
	if err != nil {
		return "right side is not JSON: " + err.Error() + ": " + clip(string(b), 120)
	}
	return jEqualV(x, y, "$")
}

// jEqualParams is jEqual where an absent / null parameters value equals {}.
func jEqualParams(a, b []byte) string {
	norm := func(x []byte) []byte {
		t := bytes.TrimSpace(x)
		if len(t) == 0 || string(t) == "null" {
			return []byte("{}")
		}
		return x
	}
	return jEqual(norm(a), norm(b))
}

// splitFrames splits a byte stream at NUL; rest is what follows the last NUL.
func splitFrames(b []byte) (frames [][]byte, rest []byte) {
	for {
		i := bytes.IndexByte(b, 0)
		if i < 0 {
			return frames, b
		}
		frames = append(frames, b[:i])
		b = b[i+1:]
	}
}

func validUTF8(s string) bool { return utf8.ValidString(s) }
