package eng

// Sequential reference model of one service connection (DESIGN.md Appendix A.1, A.2),
// written from the property statements C01 / C04 / C10, and the comparison of what was
// observed (reply frames, handler log) with what the model predicts.

import (
	"bytes"
	"encoding/json"
	"fmt"
	"strings"
)

const (
	mInvalid  = iota // not valid JSON / not an object of the call's shape: no dispatch, no reply, connection ends
	mCall            // a call
	mUnjudged        // shape depends on decoder details the statement does not fix (case-variant or duplicate keys)
)

type MCall struct {
	Kind                  int
	Method                string
	Params                []byte // nil = absent
	More, Oneway, Upgrade bool
}

var callKeys = []string{"method", "parameters", "more", "oneway", "upgrade"}

// topLevel returns the members of a JSON object text in order (raw values), or ok=false.
func topLevel(frame []byte) (keys []string, vals []json.RawMessage, ok bool) {
	d := json.NewDecoder(bytes.NewReader(frame))
	t, err := d.Token()
	if err != nil || t != json.Delim('{') {
		return nil, nil, false
	}
	for d.More() {
		t, err := d.Token()
		if err != nil {
			return nil, nil, false
		}
		k, isStr := t.(string)
		if !isStr {
			return nil, nil, false
		}
		var v json.RawMessage
		if err := d.Decode(&v); err != nil {
			return nil, nil, false
		}
		keys = append(keys, k)
		vals = append(vals, v)
	}
	return keys, vals, true
}

// ambiguousKeys reports whether a key list contains duplicates of, or case variants of, known keys.
func ambiguousKeys(keys []string, known []string) bool {
	seen := map[string]bool{}
	for _, k := range keys {
		for _, kn := range known {
			if k != kn && strings.EqualFold(k, kn) {
				return true
			}
		}
		if seen[k] {
			for _, kn := range known {
				if k == kn {
					return true
				}
			}
		}
		seen[k] = true
	}
	return false
}

func classifyCall(frame []byte) MCall {
	if !json.Valid(frame) {
		return MCall{Kind: mInvalid}
	}
	t := bytes.TrimSpace(frame)
	if string(t) == "null" {
		return MCall{Kind: mCall}
	}
	if len(t) == 0 || t[0] != '{' {
		return MCall{Kind: mInvalid}
	}
	keys, vals, ok := topLevel(t)
	if !ok {
		return MCall{Kind: mInvalid}
	}
	if ambiguousKeys(keys, callKeys) {
		return MCall{Kind: mUnjudged}
	}
	c := MCall{Kind: mCall}
	for i, k := range keys {
		v := bytes.TrimSpace(vals[i])
		isNull := string(v) == "null"
		switch k {
		case "method":
			if isNull {
				continue
			}
			if len(v) == 0 || v[0] != '"' {
				return MCall{Kind: mInvalid}
			}
			if json.Unmarshal(v, &c.Method) != nil {
				return MCall{Kind: mInvalid}
			}
		case "parameters":
			if !isNull {
				c.Params = v
			}
		case "more", "oneway", "upgrade":
			var b bool
			switch string(v) {
			case "null", "false":
			case "true":
				b = true
			default:
				return MCall{Kind: mInvalid}
			}
			switch k {
			case "more":
				c.More = b
			case "oneway":
				c.Oneway = b
			default:
				c.Upgrade = b
			}
		}
	}
	return c
}

// MReg is the model's view of what is registered.
type MReg struct {
	Vendor, Product, Version, URL string
	Names                         []string // registration order, org.varlink.service first
	Descs                         map[string]string
	Scripted                      map[string]bool
}

func (m *MReg) has(name string) bool {
	for _, n := range m.Names {
		if n == name {
			return true
		}
	}
	return false
}

// MFrame is an expected reply frame.
type MFrame struct {
	Kind      string // "" plain | getinfo | getdesc
	Params    []byte // expected parameters (nil: absent / {})
	Continues bool
	Error     string
	Desc      string // getdesc
}

type MDispatch struct {
	Iface, Method, CallID, Flags string
	Params                       []byte
	NoPar                        bool
	Steps                        []string // per non-yield step: "<index>:nil" | "<index>:err"
	End                          string   // nil | err
}

type MOut struct {
	Frames     []MFrame
	Dispatches []MDispatch
	Ended      bool // the service ends the connection (invalid frame or handler error)
	// Unjudged: from this point on the model makes no prediction; JudgedFrames/JudgedDispatches
	// are the prefix lengths that are still predicted.
	Unjudged bool
}

func errFrame(name, field, val string) MFrame {
	v, _ := json.Marshal(val)
	return MFrame{Error: "org.varlink.service." + name, Params: []byte(fmt.Sprintf(`{%q:%s}`, field, v))}
}

func refusedErrorName(name string) bool {
	r := strings.LastIndex(name, ".")
	return r <= 0 || name[:r] == "org.varlink.service"
}

// modelConn runs the frames of one connection through the model.
func modelConn(frames [][]byte, reg *MReg) *MOut {
	out := &MOut{}
	for _, f := range frames {
		k := classifyCall(f)
		if k.Kind == mUnjudged {
			out.Unjudged = true
			return out
		}
		if k.Kind == mInvalid {
			out.Ended = true
			return out
		}
		emit := func(fr MFrame) {
			if !k.Oneway {
				out.Frames = append(out.Frames, fr)
			}
		}
		r := strings.LastIndex(k.Method, ".")
		if r <= 0 {
			emit(errFrame("InvalidParameter", "parameter", "method"))
			continue
		}
		iface, m := k.Method[:r], k.Method[r+1:]
		if iface == "org.varlink.service" {
			switch m {
			case "GetInfo":
				emit(MFrame{Kind: "getinfo"})
			case "GetInterfaceDescription":
				if k.Params == nil {
					emit(errFrame("InvalidParameter", "parameter", "parameters"))
					break
				}
				pk, pv, ok := topLevel(k.Params)
				if !ok {
					if string(bytes.TrimSpace(k.Params)) == "null" {
						emit(errFrame("InvalidParameter", "parameter", "parameters"))
						break
					}
					// a non-object parameters value cannot be decoded into the request struct
					emit(errFrame("InvalidParameter", "parameter", "parameters"))
					break
				}
				if ambiguousKeys(pk, []string{"interface"}) {
					out.Unjudged = true
					return out
				}
				name, bad := "", false
				for i, key := range pk {
					if key != "interface" {
						continue
					}
					v := bytes.TrimSpace(pv[i])
					if string(v) == "null" {
						continue
					}
					if len(v) == 0 || v[0] != '"' || json.Unmarshal(v, &name) != nil {
						bad = true
					}
				}
				if bad {
					emit(errFrame("InvalidParameter", "parameter", "parameters"))
					break
				}
				d, ok := reg.Descs[name]
				if name == "org.varlink.service" {
					emit(MFrame{Kind: "getdesc-builtin"})
					break
				}
				if name == "" || !ok {
					emit(errFrame("InvalidParameter", "parameter", "interface"))
					break
				}
				emit(MFrame{Kind: "getdesc", Desc: d})
			default:
				emit(errFrame("MethodNotFound", "method", m))
			}
			continue
		}
		if !reg.has(iface) {
			emit(errFrame("InterfaceNotFound", "interface", iface))
			continue
		}
		if !reg.Scripted[iface] {
			out.Unjudged = true
			return out
		}
		d := MDispatch{Iface: iface, Method: m, Flags: flagString(k.More, k.Oneway, k.Upgrade), Params: k.Params, NoPar: k.Params == nil, End: "nil"}
		var cs CallScript
		if k.Params != nil {
			if json.Unmarshal(k.Params, &cs) != nil {
				cs = CallScript{}
			}
		}
		d.CallID = cs.ID
		if cs.ID == "" && len(cs.Steps) == 0 {
			emit(MFrame{Params: []byte(`{"noscript":true}`)})
			d.Steps = append(d.Steps, "0:nil")
			out.Dispatches = append(out.Dispatches, d)
			continue
		}
		for i, st := range cs.Steps {
			var par []byte
			if !st.NoPar {
				if len(st.Raw) > 0 {
					par = st.Raw
				} else {
					par = stepPayload(cs.ID, i, cs.Pad)
				}
			}
			if st.RawKind != "" {
				par = nil // a nil raw value goes out as null
			}
			switch st.Op {
			case "reply":
				if st.Cont && !k.More {
					d.Steps = append(d.Steps, fmt.Sprintf("%d:err", i))
				} else if (st.RawKind == "empty" || st.RawKind == "invalid") && !k.Oneway {
					// a raw value that is not JSON (zero bytes, or a lone brace) cannot be encoded: the handler gets an error, nothing
					// goes out (for a oneway call nothing is encoded in the first place)
					d.Steps = append(d.Steps, fmt.Sprintf("%d:err", i))
				} else {
					emit(MFrame{Params: par, Continues: st.Cont})
					d.Steps = append(d.Steps, fmt.Sprintf("%d:nil", i))
				}
			case "error":
				if refusedErrorName(st.Name) {
					d.Steps = append(d.Steps, fmt.Sprintf("%d:err", i))
				} else {
					emit(MFrame{Params: par, Error: st.Name})
					d.Steps = append(d.Steps, fmt.Sprintf("%d:nil", i))
				}
			case "builtin":
				switch st.Name {
				case "InterfaceNotFound":
					emit(errFrame("InterfaceNotFound", "interface", st.Arg))
				case "MethodNotFound":
					emit(errFrame("MethodNotFound", "method", st.Arg))
				case "MethodNotImplemented":
					emit(errFrame("MethodNotImplemented", "method", st.Arg))
				default:
					emit(errFrame("InvalidParameter", "parameter", st.Arg))
				}
				d.Steps = append(d.Steps, fmt.Sprintf("%d:nil", i))
			}
		}
		if cs.Fail {
			d.End = "err"
			out.Dispatches = append(out.Dispatches, d)
			out.Ended = true
			return out
		}
		out.Dispatches = append(out.Dispatches, d)
	}
	return out
}

type replyShape struct {
	Parameters json.RawMessage `json:"parameters"`
	Continues  *bool           `json:"continues"`
	Error      *string         `json:"error"`
}

// cmpReplyFrame compares an observed reply frame with the expected one. "" = equal.
func cmpReplyFrame(exp MFrame, got []byte, reg *MReg) string {
	if !json.Valid(got) {
		return "reply frame is not valid JSON: " + clip(string(got), 200)
	}
	keys, _, ok := topLevel(bytes.TrimSpace(got))
	if !ok {
		return "reply frame is not a JSON object: " + clip(string(got), 200)
	}
	seen := map[string]bool{}
	for _, k := range keys {
		if k != "parameters" && k != "continues" && k != "error" {
			return fmt.Sprintf("reply frame has an unexpected member %q", k)
		}
		if seen[k] {
			return fmt.Sprintf("reply frame has member %q twice", k)
		}
		seen[k] = true
	}
	var rs replyShape
	if err := json.Unmarshal(got, &rs); err != nil {
		return "reply frame does not have the reply shape: " + err.Error()
	}
	gotErr, gotCont := "", false
	if rs.Error != nil {
		gotErr = *rs.Error
	}
	if rs.Continues != nil {
		gotCont = *rs.Continues
	}
	if gotErr != exp.Error {
		return fmt.Sprintf("error member: expected %q, got %q", exp.Error, gotErr)
	}
	if gotCont != exp.Continues {
		return fmt.Sprintf("continues member: expected %v, got %v", exp.Continues, gotCont)
	}
	switch exp.Kind {
	case "getinfo":
		var p struct {
			Vendor, Product, Version, URL string
			Interfaces                    []string
		}
		if err := json.Unmarshal(rs.Parameters, &p); err != nil {
			return "GetInfo reply parameters: " + err.Error()
		}
		if p.Vendor != reg.Vendor || p.Product != reg.Product || p.Version != reg.Version || p.URL != reg.URL {
			return fmt.Sprintf("GetInfo identity: expected %q, got %q", []string{reg.Vendor, reg.Product, reg.Version, reg.URL}, []string{p.Vendor, p.Product, p.Version, p.URL})
		}
		if strings.Join(p.Interfaces, "\x00") != strings.Join(reg.Names, "\x00") || len(p.Interfaces) != len(reg.Names) {
			return fmt.Sprintf("GetInfo interfaces: expected %q, got %q", reg.Names, p.Interfaces)
		}
		return ""
	case "getdesc", "getdesc-builtin":
		var p struct{ Description string }
		if err := json.Unmarshal(rs.Parameters, &p); err != nil {
			return "GetInterfaceDescription reply parameters: " + err.Error()
		}
		if exp.Kind == "getdesc-builtin" {
			if !strings.Contains(p.Description, "interface org.varlink.service") {
				return "GetInterfaceDescription(org.varlink.service): unexpected text " + clip(p.Description, 100)
			}
			return ""
		}
		if p.Description != exp.Desc {
			return fmt.Sprintf("GetInterfaceDescription: expected %q, got %q", clip(exp.Desc, 200), clip(p.Description, 200))
		}
		return ""
	}
	if d := jEqualParams(exp.Params, rs.Parameters); d != "" {
		return "parameters differ: " + d
	}
	return ""
}

// obsDispatches folds one peer's handler events into dispatch records and checks the
// per-connection ordering invariants (one handler at a time, no dispatch after an error).
func obsDispatches(evs []Ev) (ds []MDispatch, orderProblem string) {
	var cur *MDispatch
	var lastEnd int64
	for _, e := range evs {
		switch e.Kind {
		case "start":
			if cur != nil {
				orderProblem = fmt.Sprintf("dispatch of %s.%s (id %q) started at seq %d while the previous handler (id %q) had not returned", e.Iface, e.Method, e.CallID, e.Seq, cur.CallID)
				ds = append(ds, *cur)
			}
			if e.Seq < lastEnd {
				orderProblem = "dispatch start recorded before the previous end"
			}
			if e.CtxErr && orderProblem == "" {
				orderProblem = fmt.Sprintf("handler for id %q was started with an already cancelled context", e.CallID)
			}
			cur = &MDispatch{Iface: e.Iface, Method: e.Method, CallID: e.CallID, Flags: e.Flags, Params: []byte(e.Params), NoPar: e.NoPar}
		case "step":
			if cur != nil {
				cur.Steps = append(cur.Steps, fmt.Sprintf("%d:%s", e.Step, e.Res))
			}
		case "end":
			if cur != nil {
				cur.End = e.Res
				ds = append(ds, *cur)
				cur = nil
			}
			lastEnd = e.Seq
		}
	}
	if cur != nil {
		ds = append(ds, *cur)
		if orderProblem == "" {
			orderProblem = "a handler had not returned when the connection was judged"
		}
	}
	return
}

func descDispatch(d MDispatch) string {
	return fmt.Sprintf("%s.%s id=%q flags=%q steps=%v end=%s", d.Iface, d.Method, d.CallID, d.Flags, d.Steps, d.End)
}

// cmpDispatch compares one observed dispatch with the predicted one.
func cmpDispatch(exp, got MDispatch, checkParams bool) string {
	if exp.Iface != got.Iface || exp.Method != got.Method {
		return fmt.Sprintf("dispatched to %q method %q, expected %q method %q", got.Iface, got.Method, exp.Iface, exp.Method)
	}
	if exp.CallID != got.CallID {
		return fmt.Sprintf("handler saw call id %q, expected %q", got.CallID, exp.CallID)
	}
	if exp.Flags != got.Flags {
		return fmt.Sprintf("handler saw flags %q, expected %q (call %q)", got.Flags, exp.Flags, exp.CallID)
	}
	if exp.NoPar != got.NoPar {
		return fmt.Sprintf("handler saw absent-parameters=%v, expected %v", got.NoPar, exp.NoPar)
	}
	if strings.Join(exp.Steps, ",") != strings.Join(got.Steps, ",") {
		return fmt.Sprintf("reply attempts of call %q returned %v to the handler, expected %v", exp.CallID, got.Steps, exp.Steps)
	}
	if exp.End != got.End {
		return fmt.Sprintf("handler end %s, expected %s", got.End, exp.End)
	}
	if checkParams && !exp.NoPar {
		if d := jEqual(exp.Params, got.Params); d != "" {
			return "parameters read by the handler differ from what was sent: " + d
		}
	}
	return ""
}

// judgeConn compares one connection's observations with the model. exact=false: prefix oracle
// (hard abort: the observed dispatches must be a prefix of the predicted ones; replies not judged).
// Returns signature class and detail, or "", "".
func judgeConn(mo *MOut, reg *MReg, got []byte, eof bool, evs []Ev, gaugeMax int, exact bool) (class, detail string) {
	ds, orderProblem := obsDispatches(evs)
	if orderProblem != "" && !(strings.HasPrefix(orderProblem, "a handler had not returned") && !exact) {
		return "dispatch-order", orderProblem
	}
	if gaugeMax > 1 {
		return "dispatch-order", fmt.Sprintf("%d handlers were running at once for one connection", gaugeMax)
	}
	// dispatches
	n := len(mo.Dispatches)
	if len(ds) > n && !mo.Unjudged {
		return "extra-dispatch", fmt.Sprintf("handler invoked %d times, model predicts %d; first extra: %s", len(ds), n, descDispatch(ds[n]))
	}
	for i := 0; i < len(ds) && i < n; i++ {
		exp := mo.Dispatches[i]
		g := ds[i]
		if !exact {
			// steps may fail with EPIPE after a hard abort: compare identity only
			exp.Steps, g.Steps = nil, nil
			if g.End == "" {
				g.End = exp.End
			}
		}
		if d := cmpDispatch(exp, g, true); d != "" {
			return "dispatch-mismatch", fmt.Sprintf("dispatch #%d: %s", i, d)
		}
	}
	if !exact {
		return "", ""
	}
	if len(ds) < n {
		return "missing-dispatch", fmt.Sprintf("handler invoked %d times, model predicts %d; first missing: %s", len(ds), n, descDispatch(mo.Dispatches[len(ds)]))
	}
	// frames
	frames, rest := splitFrames(got)
	for i := 0; i < len(frames) && i < len(mo.Frames); i++ {
		if d := cmpReplyFrame(mo.Frames[i], frames[i], reg); d != "" {
			return "reply-mismatch", fmt.Sprintf("reply frame #%d: %s\n got: %s", i, d, clip(string(frames[i]), 300))
		}
	}
	if mo.Unjudged {
		return "", ""
	}
	if len(frames) > len(mo.Frames) {
		return "extra-reply", fmt.Sprintf("%d reply frames received, model predicts %d; first extra: %s", len(frames), len(mo.Frames), clip(string(frames[len(mo.Frames)]), 300))
	}
	if len(rest) > 0 {
		return "extra-bytes", fmt.Sprintf("bytes after the last NUL: %q", clip(string(rest), 200))
	}
	if len(frames) < len(mo.Frames) {
		return "missing-reply", fmt.Sprintf("%d reply frames received, model predicts %d (eof=%v)", len(frames), len(mo.Frames), eof)
	}
	if !eof {
		return "no-eof", "the service did not end the connection after the client half-closed / after the model's end point"
	}
	return "", ""
}
