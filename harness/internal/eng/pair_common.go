package eng

// Recording, re-segmenting proxy between a real Connection and a real Service, the bridge helper
// subprocess, and the four-transport pair rig (engine e-pair).

import (
	"context"
	"fmt"
	"io"
	"math/rand"
	"net"
	"os"
	"path/filepath"
	"runtime"
	"strings"
	"sync"
	"sync/atomic"
	"time"

	"github.com/varlink/go/varlink"

	"verif/harness/internal/fw"
	"verif/harness/internal/helpers"
)

type ProxyConn struct {
	mu   sync.Mutex
	c2s  []byte
	s2c  []byte
	done chan struct{}
}

func (pc *ProxyConn) Wait(d time.Duration) bool {
	select {
	case <-pc.done:
		return true
	case <-time.After(d):
		return false
	}
}

func (pc *ProxyConn) Captured() (c2s, s2c []byte) {
	pc.mu.Lock()
	defer pc.mu.Unlock()
	return append([]byte{}, pc.c2s...), append([]byte{}, pc.s2c...)
}

type Proxy struct {
	l       net.Listener
	Net     string
	Dial    string // where the proxy listens
	tNet    string
	tDial   string
	mu      sync.Mutex
	conns   []*ProxyConn
	Reseg   int32 // 0: forward chunks as read; 1: byte-wise; 2: random pieces with yields; 3: coalesce (hold until 3 ms of silence, then one write)
	// PauseNextMS: the next service->client chunk is forwarded in two halves with this pause in between (one shot)
	PauseNextMS int32
	segSeed     int64
}

var proxyCounter int64
var bridgeCounter int64

func newProxy(dir, network, tNet, tDial string) (*Proxy, error) {
	n := atomic.AddInt64(&proxyCounter, 1)
	p := &Proxy{Net: network, tNet: tNet, tDial: tDial}
	var err error
	switch network {
	case "tcp":
		p.l, err = net.Listen("tcp", "127.0.0.1:0")
		if err == nil {
			p.Dial = p.l.Addr().String()
		}
	case "abstract":
		p.Dial = fmt.Sprintf("@vfp-%d-%d", os.Getpid(), n)
		p.Net = "unix"
		p.l, err = net.Listen("unix", p.Dial)
	default:
		p.Dial = filepath.Join(dir, fmt.Sprintf("p%d", n))
		p.Net = "unix"
		p.l, err = net.Listen("unix", p.Dial)
	}
	if err != nil {
		return nil, err
	}
	go p.loop()
	return p, nil
}

func (p *Proxy) Close() { p.l.Close() }

func (p *Proxy) loop() {
	for {
		c, err := p.l.Accept()
		if err != nil {
			return
		}
		pc := &ProxyConn{done: make(chan struct{})}
		p.mu.Lock()
		p.conns = append(p.conns, pc)
		seed := p.segSeed + int64(len(p.conns))
		p.mu.Unlock()
		go p.serve(c, pc, seed)
	}
}

// TakeConns returns the connections seen so far and forgets them.
func (p *Proxy) TakeConns() []*ProxyConn {
	p.mu.Lock()
	defer p.mu.Unlock()
	c := p.conns
	p.conns = nil
	return c
}

func closeWrite(c net.Conn) {
	switch cc := c.(type) {
	case *net.UnixConn:
		cc.CloseWrite()
	case *net.TCPConn:
		cc.CloseWrite()
	default:
		c.Close()
	}
}

func (p *Proxy) serve(c net.Conn, pc *ProxyConn, seed int64) {
	defer close(pc.done)
	defer c.Close()
	s, err := net.DialTimeout(p.tNet, p.tDial, 10*time.Second)
	if err != nil {
		return
	}
	defer s.Close()
	mode := atomic.LoadInt32(&p.Reseg)
	pump := func(dst, src net.Conn, rec *[]byte, rng *rand.Rand) {
		buf := make([]byte, 65536)
		for {
			n, err := src.Read(buf)
			if n > 0 {
				pc.mu.Lock()
				*rec = append(*rec, buf[:n]...)
				pc.mu.Unlock()
				b := buf[:n]
				if mode == 3 && rec == &pc.s2c {
					// whatever else the service sends within the next 3 ms travels in the same segment
					for n < len(buf) {
						src.SetReadDeadline(time.Now().Add(3 * time.Millisecond))
						m, rerr := src.Read(buf[n:])
						if m > 0 {
							pc.mu.Lock()
							*rec = append(*rec, buf[n:n+m]...)
							pc.mu.Unlock()
							n += m
						}
						if rerr != nil {
							if ne, ok := rerr.(net.Error); !ok || !ne.Timeout() {
								err = rerr
							}
							break
						}
					}
					src.SetReadDeadline(time.Time{})
					b = buf[:n]
				}
				if rec == &pc.s2c && n >= 2 {
					if ms := atomic.SwapInt32(&p.PauseNextMS, 0); ms > 0 {
						dst.Write(b[:n/2])
						time.Sleep(time.Duration(ms) * time.Millisecond)
						b = b[n/2:]
					}
				}
				switch mode {
				case 1:
					for i := range b {
						if _, werr := dst.Write(b[i : i+1]); werr != nil {
							break
						}
					}
				case 2:
					for len(b) > 0 {
						k := 1 + rng.Intn(len(b))
						if rng.Intn(3) == 0 && len(b) > 4096 {
							k = 4095 + rng.Intn(3)
						}
						if _, werr := dst.Write(b[:k]); werr != nil {
							break
						}
						b = b[k:]
						if rng.Intn(2) == 0 {
							runtime.Gosched()
						}
					}
				default:
					dst.Write(b)
				}
			}
			if err != nil {
				closeWrite(dst)
				return
			}
		}
	}
	var wg sync.WaitGroup
	wg.Add(2)
	go func() { defer wg.Done(); pump(s, c, &pc.c2s, rand.New(rand.NewSource(seed))) }()
	go func() { defer wg.Done(); pump(c, s, &pc.s2c, rand.New(rand.NewSource(seed+1))) }()
	wg.Wait()
}

// ---- bridge helper: vcheck --helper bridge <network> <address> ------------------------------

func init() {
	helpers.Register("bridge", func(a []string) {
		if len(a) < 2 {
			os.Exit(2)
		}
		c, err := net.Dial(a[0], a[1])
		if err != nil {
			fmt.Fprintln(os.Stderr, "bridge helper:", err)
			os.Exit(1)
		}
		go func() {
			io.Copy(c, os.Stdin)
			closeWrite(c)
		}()
		io.Copy(os.Stdout, c)
		os.Exit(0)
	})
}

// ---- pair rig ------------------------------------------------------------------------------

var pairTransports = []string{"unix", "abstract", "tcp", "bridge"}

type Pair struct {
	Rig       *Rig
	Proxy     *Proxy
	Transport string
}

func newPair(r *fw.Run, transport string, o RigOpt) (*Pair, error) {
	o.Transport = transport
	if transport == "bridge" {
		o.Transport = "unix"
	}
	g, err := newRig(r, o)
	if err != nil {
		return nil, err
	}
	pn := o.Transport
	p, err := newProxy(r.WorkDir, pn, g.Net, g.Dial)
	if err != nil {
		g.Stop()
		return nil, err
	}
	return &Pair{Rig: g, Proxy: p, Transport: transport}, nil
}

// ClientAddr is the varlink address a client uses to reach the proxy.
func (p *Pair) ClientAddr() string {
	if p.Proxy.Net == "tcp" {
		return "tcp:" + p.Proxy.Dial
	}
	return "unix:" + p.Proxy.Dial
}

// Connect returns a real client Connection through the proxy on this pair's transport.
func (p *Pair) Connect(ctx context.Context) (*varlink.Connection, error) {
	if p.Transport == "bridge" {
		exe, err := os.Executable()
		if err != nil {
			return nil, err
		}
		// every other bridge command line takes the program from the caller's environment (as "ssh host varlink bridge"
		// style commands rely on PATH, HOME, SSH_AUTH_SOCK): the bridge runs in the environment of the process
		if atomic.AddInt64(&bridgeCounter, 1)%2 == 0 {
			os.Setenv("VERIF_BRIDGE_PROGRAM", exe)
			return varlink.NewBridgeWithStderr(fmt.Sprintf("exec \"$VERIF_BRIDGE_PROGRAM\" --helper bridge %s '%s'", p.Proxy.Net, p.Proxy.Dial), io.Discard)
		}
		return varlink.NewBridgeWithStderr(fmt.Sprintf("exec '%s' --helper bridge %s '%s'", exe, p.Proxy.Net, p.Proxy.Dial), io.Discard)
	}
	return varlink.NewConnection(ctx, p.ClientAddr())
}

// reachable: a raw connection to the proxy's listening address can be made right now.
func (p *Pair) reachable() bool {
	c, err := net.DialTimeout(p.Proxy.Net, p.Proxy.Dial, 5*time.Second)
	if err != nil {
		return false
	}
	c.Close()
	return true
}

func (p *Pair) Close() (error, bool) {
	p.Proxy.Close()
	return p.Rig.Stop()
}

// checkFraming is the C02 emission oracle over one captured direction: the stream is a sequence of
// chunks each followed by exactly one NUL; every chunk is one valid JSON object.
func checkFraming(dir string, b []byte, wantFrames int) (class, detail string, frames [][]byte) {
	frames, rest := splitFrames(b)
	if len(rest) > 0 {
		return "unterminated-message", fmt.Sprintf("%s: %d bytes after the last NUL: %q", dir, len(rest), clip(string(rest), 200)), frames
	}
	if wantFrames >= 0 && len(frames) != wantFrames {
		return "message-count", fmt.Sprintf("%s: %d NUL-terminated chunks on the wire, %d messages were sent", dir, len(frames), wantFrames), frames
	}
	for i, f := range frames {
		if len(f) == 0 {
			return "empty-chunk", fmt.Sprintf("%s: chunk %d is empty (two NULs in a row)", dir, i), frames
		}
		if !jsonValid(f) {
			return "invalid-json-on-wire", fmt.Sprintf("%s: chunk %d is not valid JSON: %q", dir, i, clip(string(f), 300)), frames
		}
		t := strings.TrimLeft(string(f[:min(len(f), 16)]), " \t\r\n")
		if !strings.HasPrefix(t, "{") {
			return "not-an-object-on-wire", fmt.Sprintf("%s: chunk %d is not a JSON object: %q", dir, i, clip(string(f), 300)), frames
		}
	}
	return "", "", frames
}

// catchBounded runs f on a goroutine of its own, recovering a panic; hung reports that f has not returned within the bound
// (the goroutine is then abandoned). The bound is a watchdog far beyond the context deadline f itself works under.
func catchBounded(bound time.Duration, f func()) (panicText string, hung bool) {
	ch := make(chan string, 1)
	go func() { ch <- catch(f) }()
	select {
	case p := <-ch:
		return p, false
	case <-time.After(bound):
		return "", true
	}
}
