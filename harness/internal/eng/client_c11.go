package eng

// C11 - the client decodes exactly what was sent and fails cleanly otherwise (engine e-client).
// A scripted raw server plays a reply byte stream under a segmentation schedule and optionally
// dies after k bytes; the real varlink.Connection calls Send once and receive repeatedly.

import (
	"bytes"
	"context"
	"encoding/json"
	"fmt"
	"io"
	"math/rand"
	"net"
	"os"
	"path/filepath"
	"runtime"
	"strings"
	"sync"
	"sync/atomic"
	"time"

	"github.com/varlink/go/varlink"

	"verif/harness/internal/fw"
)

// ---- scripted raw server -----------------------------------------------------------------

type rawPlay struct {
	Reply    []byte
	Seg      Seg
	DieAt    int  // >= 0: close after this many bytes; < 0: play everything, then wait for the client to close
	NoWait   bool // do not wait for the first request frame before playing
	received []byte
	done     chan struct{}
}

type RawServer struct {
	l    net.Listener
	Addr string // varlink address
	mu   sync.Mutex
	next []*rawPlay
}

var rawSrvCounter int64

func newRawServer(dir string) (*RawServer, error) {
	n := atomic.AddInt64(&rawSrvCounter, 1)
	p := filepath.Join(dir, fmt.Sprintf("r%d", n))
	os.Remove(p)
	l, err := net.Listen("unix", p)
	if err != nil {
		return nil, err
	}
	s := &RawServer{l: l, Addr: "unix:" + p}
	go s.loop()
	return s, nil
}

func (s *RawServer) Close() { s.l.Close() }

// Expect queues the play for the next accepted connection.
func (s *RawServer) Expect(p *rawPlay) {
	p.done = make(chan struct{})
	s.mu.Lock()
	s.next = append(s.next, p)
	s.mu.Unlock()
}

func (s *RawServer) loop() {
	for {
		c, err := s.l.Accept()
		if err != nil {
			return
		}
		s.mu.Lock()
		var p *rawPlay
		if len(s.next) > 0 {
			p = s.next[0]
			s.next = s.next[1:]
		}
		s.mu.Unlock()
		if p == nil {
			c.Close()
			continue
		}
		go p.serve(c)
	}
}

func (p *rawPlay) serve(c net.Conn) {
	defer close(p.done)
	defer c.Close()
	var mu sync.Mutex
	gotFrame := make(chan struct{})
	rdone := make(chan struct{})
	go func() {
		defer close(rdone)
		buf := make([]byte, 65536)
		signalled := false
		for {
			n, err := c.Read(buf)
			mu.Lock()
			p.received = append(p.received, buf[:n]...)
			has := bytes.IndexByte(p.received, 0) >= 0
			mu.Unlock()
			if has && !signalled {
				signalled = true
				close(gotFrame)
			}
			if err != nil {
				if !signalled {
					close(gotFrame)
				}
				return
			}
		}
	}()
	if !p.NoWait {
		select {
		case <-gotFrame:
		case <-time.After(30 * time.Second):
			return
		}
	}
	data := p.Reply
	if p.DieAt >= 0 && p.DieAt < len(data) {
		data = data[:p.DieAt]
	}
	prev := 0
	cuts := append(append([]int{}, p.Seg.Cuts...), len(data))
	for i, cut := range cuts {
		if cut > len(data) {
			cut = len(data)
		}
		if cut <= prev {
			continue
		}
		c.SetWriteDeadline(time.Now().Add(30 * time.Second))
		if _, err := c.Write(data[prev:cut]); err != nil {
			break
		}
		prev = cut
		if i < len(p.Seg.Pauses) {
			switch q := p.Seg.Pauses[i]; {
			case q == 1:
				runtime.Gosched()
			case q > 1:
				time.Sleep(time.Duration(q) * time.Microsecond)
			}
		}
	}
	if p.DieAt >= 0 {
		// die: close now (the request has been read completely, so no reset is provoked)
		c.Close()
		<-rdone
		return
	}
	// wait for the client to close
	select {
	case <-rdone:
	case <-time.After(60 * time.Second):
	}
}

func (p *rawPlay) Received() []byte {
	<-p.done
	return p.received
}

// ---- reply model (DESIGN A.3) ---------------------------------------------------------------

type MReply struct {
	Kind      int    // mInvalid | mCall (= a reply) | mUnjudged
	Params    []byte // nil absent
	Continues bool
	Error     string
}

var replyKeys = []string{"parameters", "continues", "error"}

func classifyReply(frame []byte) MReply {
	if !json.Valid(frame) {
		return MReply{Kind: mInvalid}
	}
	t := bytes.TrimSpace(frame)
	if string(t) == "null" {
		return MReply{Kind: mCall}
	}
	if len(t) == 0 || t[0] != '{' {
		return MReply{Kind: mInvalid}
	}
	keys, vals, ok := topLevel(t)
	if !ok {
		return MReply{Kind: mInvalid}
	}
	if ambiguousKeys(keys, replyKeys) {
		return MReply{Kind: mUnjudged}
	}
	m := MReply{Kind: mCall}
	for i, k := range keys {
		v := bytes.TrimSpace(vals[i])
		isNull := string(v) == "null"
		switch k {
		case "parameters":
			if !isNull {
				m.Params = v
			}
		case "continues":
			switch string(v) {
			case "null", "false":
			case "true":
				m.Continues = true
			default:
				return MReply{Kind: mInvalid}
			}
		case "error":
			if isNull {
				continue
			}
			if v[0] != '"' || json.Unmarshal(v, &m.Error) != nil {
				return MReply{Kind: mInvalid}
			}
		}
	}
	return m
}

type recvObs struct {
	Flags  uint64
	Err    error
	NoOut  bool // the caller passed nil as out parameter (it does not want the values)
	Out    json.RawMessage
	Panic  string
	OutSet bool
}

// judgeReceive compares one receive() result with the model of the frame it consumed
// (frame == nil: the stream ended before a complete frame).
func judgeReceive(frame []byte, ended bool, o recvObs) (class, detail string) {
	if o.Panic != "" {
		return "panic", o.Panic
	}
	if frame == nil {
		if !ended {
			return "", ""
		}
		if o.Err == nil {
			return "success-on-truncated-stream", "receive reported success although the stream ended before the frame's NUL"
		}
		if o.Err != io.ErrUnexpectedEOF {
			return "wrong-eof-error", fmt.Sprintf("stream ended before the frame's NUL: receive returned %T %v, expected io.ErrUnexpectedEOF", o.Err, o.Err)
		}
		return "", ""
	}
	m := classifyReply(frame)
	switch m.Kind {
	case mUnjudged:
		return "", ""
	case mInvalid:
		if o.Err == nil {
			return "success-on-invalid-frame", "receive reported success for a frame that is not valid JSON / not of the reply's shape: " + clip(string(frame), 200)
		}
		return "", ""
	}
	if m.Error != "" {
		if o.Err == nil {
			return "error-frame-reported-as-success", "receive reported success for an error frame: " + clip(string(frame), 200)
		}
		field := func(params []byte, key string) (string, bool) {
			if params == nil {
				return "", true
			}
			var mm map[string]json.RawMessage
			if json.Unmarshal(params, &mm) != nil {
				return "", false
			}
			v, ok := mm[key]
			if !ok || string(bytes.TrimSpace(v)) == "null" {
				return "", true
			}
			var s string
			if json.Unmarshal(v, &s) != nil {
				return "", false
			}
			return s, true
		}
		generic := func() (string, string) {
			e, ok := o.Err.(*varlink.Error)
			if !ok {
				return "wrong-error-type", fmt.Sprintf("error frame %s: receive returned %T %v, expected *varlink.Error", clip(string(frame), 200), o.Err, o.Err)
			}
			if e.Name != m.Error {
				return "wrong-error-name", fmt.Sprintf("error name %q, expected %q", e.Name, m.Error)
			}
			rp, _ := e.Parameters.(*json.RawMessage)
			var got []byte
			if rp != nil {
				got = *rp
			}
			if (m.Params == nil) != (got == nil) {
				if !(m.Params == nil && got == nil) {
					return "wrong-error-parameters", fmt.Sprintf("error parameters presence: frame has parameters=%v, error value has parameters=%v", m.Params != nil, got != nil)
				}
			}
			if m.Params != nil {
				if d := jEqual(m.Params, got); d != "" {
					return "wrong-error-parameters", "error parameters differ: " + d
				}
			}
			return "", ""
		}
		typed := func(key string, got string) (string, string) {
			want, decodable := field(m.Params, key)
			if !decodable {
				return "?", ""
			}
			if got != want {
				return "wrong-typed-error-field", fmt.Sprintf("%s: typed error carries %q, frame says %q", m.Error, got, want)
			}
			return "", ""
		}
		var c, d string
		switch m.Error {
		case "org.varlink.service.InterfaceNotFound":
			if e, ok := o.Err.(*varlink.InterfaceNotFound); ok {
				c, d = typed("interface", e.Interface)
			} else {
				c = "?"
			}
		case "org.varlink.service.MethodNotFound":
			if e, ok := o.Err.(*varlink.MethodNotFound); ok {
				c, d = typed("method", e.Method)
			} else {
				c = "?"
			}
		case "org.varlink.service.MethodNotImplemented":
			if e, ok := o.Err.(*varlink.MethodNotImplemented); ok {
				c, d = typed("method", e.Method)
			} else {
				c = "?"
			}
		case "org.varlink.service.InvalidParameter":
			if e, ok := o.Err.(*varlink.InvalidParameter); ok {
				c, d = typed("parameter", e.Parameter)
			} else {
				c = "?"
			}
		default:
			return generic()
		}
		if c == "?" {
			// parameters that do not decode into the typed error: the typed or the generic error is accepted;
			// parameters that do decode: the typed error is required
			_, isGeneric := o.Err.(*varlink.Error)
			if isGeneric {
				var probe map[string]json.RawMessage
				decodes := m.Params == nil || json.Unmarshal(m.Params, &probe) == nil
				if decodes {
					// object parameters: decodable unless the field has the wrong type
					key := map[string]string{"org.varlink.service.InterfaceNotFound": "interface", "org.varlink.service.MethodNotFound": "method",
						"org.varlink.service.MethodNotImplemented": "method", "org.varlink.service.InvalidParameter": "parameter"}[m.Error]
					if _, ok := field(m.Params, key); ok {
						return "typed-error-expected", fmt.Sprintf("error frame %s: receive returned the generic *varlink.Error, expected the dedicated typed error", clip(string(frame), 200))
					}
				}
				return generic()
			}
			return "wrong-error-type", fmt.Sprintf("error frame %s: receive returned %T %v", clip(string(frame), 200), o.Err, o.Err)
		}
		return c, d
	}
	// plain reply
	if o.Err != nil {
		return "error-on-valid-reply", fmt.Sprintf("receive returned %T %v for the valid reply frame %s", o.Err, o.Err, clip(string(frame), 200))
	}
	if (o.Flags&varlink.Continues != 0) != m.Continues {
		return "wrong-continues", fmt.Sprintf("receive returned flags %d for a frame with continues=%v", o.Flags, m.Continues)
	}
	if o.Flags&^uint64(varlink.Continues) != 0 {
		return "wrong-flags", fmt.Sprintf("receive returned flags %d", o.Flags)
	}
	if o.NoOut {
		return "", ""
	}
	if d := jEqualParams(m.Params, o.Out); d != "" {
		return "wrong-parameters", "parameters differ from the frame's: " + d
	}
	return "", ""
}

// ---- workload ----------------------------------------------------------------------------------

var c11Shapes = []string{`{}`, `null`, `{"parameters":{}}`, `{"parameters":null}`, `{"parameters":{"a":1},"continues":true}`, `{"continues":false,"parameters":{"n":9007199254740993}}`,
	`{"error":"com.example.Failed","parameters":{"why":"x","n":1e400}}`, `{"error":"com.example.Failed"}`, `{"error":"NoDots"}`, `{"error":""}`, `{"error":"","parameters":{"a":1}}`,
	`{"error":"org.varlink.service.InterfaceNotFound","parameters":{"interface":"a.b"}}`, `{"error":"org.varlink.service.MethodNotFound","parameters":{"method":"Mé\u0000"}}`,
	`{"error":"org.varlink.service.MethodNotImplemented","parameters":{"method":""}}`, `{"error":"org.varlink.service.InvalidParameter","parameters":{"parameter":"p"}}`,
	`{"error":"org.varlink.service.InvalidParameter"}`, `{"error":"org.varlink.service.InvalidParameter","parameters":{"parameter":5}}`, `{"error":"org.varlink.service.InvalidParameter","parameters":[1]}`,
	`{"error":"org.varlink.service.InvalidParameter","parameters":{"other":"x"}}`, `{"error":"org.varlink.service.Unknown","parameters":{"a":1}}`, `{"error":"org.varlink.service.invalidparameter","parameters":{"parameter":"p"}}`,
	`[]`, `5`, `"x"`, `true`, `{"continues":"yes"}`, `{"continues":1}`, `{"error":5}`, `{"error":{"a":1}}`, `{"error":["x"]}`, `{"parameters":5}`, `{"parameters":"str"}`, `{"parameters":[1,2,3]}`,
	`{"parameters":{"a":1}`, `{"parameters":{"a":1}}}`, ``, ` `, `{"parameters":{"a":1}} `, ` {"parameters" : {"a" : 1} , "continues" : true }`, `{"Parameters":{"a":1}}`, `{"parameters":{"a":1},"parameters":{"b":2}}`,
	`{"CONTINUES":true}`, `{"unknown":1,"parameters":{"a":[1,2,{"b":null}]},"x":{}}`, `{"error":null,"continues":null,"parameters":null}`, `nul`, `{"parameters":{"s":"\ud800"}}`,
	"{\"parameters\":{\"s\":\"\xff\"}}", `{"error":"com.example.E","continues":true}`, `{"parameters":{"big":123456789012345678901234567890,"f":1.0e+2,"z":-0}}`}

func c11Streams(rng *rand.Rand, jg *JGen, n, maxLen int) (streams [][]byte, whats []string) {
	add := func(w string, b []byte) {
		if len(b) > maxLen {
			b = b[:maxLen]
		}
		streams = append(streams, b)
		whats = append(whats, w)
	}
	validFrame := func() []byte {
		switch rng.Intn(6) {
		case 0:
			return []byte(`{"parameters":` + jg.Object(2, 0) + `,"continues":true}`)
		case 1:
			return []byte(`{"error":"com.example.` + []string{"Failed", "X", "é"}[rng.Intn(3)] + `","parameters":` + jg.Object(1, 0) + `}`)
		case 2:
			return []byte(c11Shapes[rng.Intn(21)])
		}
		return []byte(`{"parameters":` + jg.Object(2, 0) + `}`)
	}
	for len(streams) < n {
		var b []byte
		switch k := len(streams) % 6; k {
		case 0, 1:
			for i := 0; i < 1+rng.Intn(4); i++ {
				b = append(append(b, validFrame()...), 0)
			}
			add("valid", b)
		case 2:
			for i := 0; i < 1+rng.Intn(3); i++ {
				if rng.Intn(2) == 0 {
					b = append(append(b, validFrame()...), 0)
				}
				b = append(append(b, c11Shapes[rng.Intn(len(c11Shapes))]...), 0)
			}
			b = append(append(b, validFrame()...), 0)
			add("shapes", b)
		case 3:
			for i := 0; i < 1+rng.Intn(3); i++ {
				b = append(append(b, validFrame()...), 0)
			}
			for m := 0; m < 1+rng.Intn(3) && len(b) > 2; m++ {
				p := rng.Intn(len(b))
				switch rng.Intn(5) {
				case 0:
					b[p] ^= 1 << uint(rng.Intn(8))
				case 1:
					b = append(b[:p], b[p+1:]...)
				case 2:
					b = append(b[:p], append([]byte{0}, b[p:]...)...)
				case 3:
					if i := bytes.IndexByte(b, 0); i >= 0 {
						b = append(b[:i], b[i+1:]...)
					}
				case 4:
					b[p] = "\"{}[]:,\\ \x00"[rng.Intn(10)]
				}
			}
			add("mutated", b)
		case 4:
			b = make([]byte, 1+rng.Intn(150))
			rng.Read(b)
			add("random", b)
		case 5:
			b = append(append(b, validFrame()...), 0)
			b = append(b, validFrame()...)
			add("valid+tail-without-nul", b)
		}
	}
	return
}

type c11Case struct {
	Stream []byte `json:"stream"`
	DieAt  int    `json:"die_at"`
	Seg    Seg    `json:"seg"`
	What   string `json:"what,omitempty"`
	// Bridge: the client reaches the scripted server through a bridge subprocess (NewBridge) instead of dialling it
	Bridge bool `json:"bridge,omitempty"`
}

// c11One plays one (stream, death offset, segmentation) and judges every receive.
func c11One(r *fw.Run, srv *RawServer, c *c11Case) {
	play := &rawPlay{Reply: c.Stream, Seg: c.Seg, DieAt: c.DieAt}
	srv.Expect(play)
	ctx, cancel := context.WithTimeout(context.Background(), 60*time.Second)
	defer cancel()
	var conn *varlink.Connection
	var err error
	if c.Bridge {
		exe, _ := os.Executable()
		conn, err = varlink.NewBridgeWithStderr(fmt.Sprintf("exec '%s' --helper bridge unix '%s'", exe, strings.TrimPrefix(srv.Addr, "unix:")), io.Discard)
	} else {
		conn, err = varlink.NewConnection(ctx, srv.Addr)
	}
	if err != nil {
		r.Inconclusive("client could not connect to the scripted server: %v", err)
		// unblock the queued play
		if d, e := net.Dial("unix", strings.TrimPrefix(srv.Addr, "unix:")); e == nil {
			d.Close()
		}
		return
	}
	defer conn.Close()
	var recv func(context.Context, interface{}) (uint64, error)
	var serr error
	if p := catch(func() {
		recv, serr = conn.Send(ctx, "org.example.M", map[string]interface{}{"x": 1}, varlink.More)
	}); p != "" {
		r.Violation("C11 panic-in-send", p, c)
		return
	}
	if serr != nil {
		r.Violation("C11 send-failed", fmt.Sprintf("Send on a fresh connection failed: %v", serr), c)
		return
	}
	data := c.Stream
	ended := false
	if c.DieAt >= 0 && c.DieAt <= len(data) {
		data = data[:c.DieAt]
		ended = true
	}
	frames, _ := splitFrames(data)
	for i := 0; ; i++ {
		var frame []byte
		if i < len(frames) {
			frame = frames[i]
		} else if !ended {
			break // the stream stays open: a further receive would (correctly) block
		}
		var o recvObs
		// one receive in five is made by a caller that does not want the values (nil out parameter, as the generated
		// stubs of methods without output pass it)
		o.NoOut = (i+len(c.Stream))%5 == 4
		o.Panic = catch(func() {
			if o.NoOut {
				o.Flags, o.Err = recv(ctx, nil)
				return
			}
			var out json.RawMessage
			o.Flags, o.Err = recv(ctx, &out)
			o.Out = out
		})
		r.Count("receive_calls", 1)
		if o.NoOut {
			r.Count("receive_calls_with_nil_out", 1)
		}
		if frame != nil {
			m := classifyReply(frame)
			r.Distinct("frame_classes", fmt.Sprintf("%d/%v/%v/%v", m.Kind, m.Error != "", m.Continues, m.Params != nil))
		}
		if o.Err != nil {
			r.Distinct("error_kinds_seen", fmt.Sprintf("%T", o.Err))
		}
		if class, detail := judgeReceive(frame, ended, o); class != "" {
			r.Violation("C11 "+class, fmt.Sprintf("receive #%d of stream %q (die_at=%d): %s", i, clip(string(c.Stream), 300), c.DieAt, detail), c)
			break
		}
		if frame == nil {
			break
		}
	}
	conn.Close()
	<-play.done
}

// c11Flags: all 16 values of the flag word.
func c11Flags(r *fw.Run, srv *RawServer) {
	for fl := uint64(0); fl < 16; fl++ {
		for variant := 0; variant < 3; variant++ {
			play := &rawPlay{Reply: []byte("{}\x00{}\x00"), DieAt: -1, NoWait: true}
			srv.Expect(play)
			ctx, cancel := context.WithTimeout(context.Background(), 30*time.Second)
			conn, err := varlink.NewConnection(ctx, srv.Addr)
			if err != nil {
				cancel()
				r.Inconclusive("flags: connect: %v", err)
				continue
			}
			var params interface{}
			switch variant {
			case 1:
				params = map[string]interface{}{"a": 1}
			case 2:
				params = json.RawMessage(`{"id":"x"}`)
			}
			method := fmt.Sprintf("org.example.Flags%d", fl)
			var serr error
			p := catch(func() { _, serr = conn.Send(ctx, method, params, fl) })
			forbidden := (fl&varlink.More != 0 && fl&varlink.Oneway != 0) || (fl&varlink.More != 0 && fl&varlink.Upgrade != 0)
			// barrier: a second, legal call on the same connection; everything the server has received before
			// its frame is what the first Send wrote
			_, berr := conn.Send(ctx, "org.example.Barrier", nil, 0)
			conn.Close()
			cancel()
			got := play.Received()
			c := map[string]interface{}{"flags": fl, "variant": variant}
			r.Case(fw.Hash("flags", fmt.Sprint(fl, variant)), fl != 0)
			r.Count("flag_words", 1)
			if p != "" {
				r.Violation("C11 panic-in-send", p, c)
				continue
			}
			if berr != nil {
				r.Inconclusive("flags: barrier call failed: %v", berr)
				continue
			}
			frames, _ := splitFrames(got)
			if forbidden {
				if serr == nil {
					r.Violation("C11 forbidden-flags-accepted", fmt.Sprintf("Send with flags %d (more with oneway/upgrade) returned no error", fl), c)
					continue
				}
				if len(frames) != 1 || !bytes.Contains(frames[0], []byte("org.example.Barrier")) {
					r.Violation("C11 forbidden-flags-wrote-bytes", fmt.Sprintf("Send with flags %d was refused but the server received %q", fl, clip(string(got), 300)), c)
				}
				continue
			}
			if serr != nil {
				r.Violation("C11 legal-flags-refused", fmt.Sprintf("Send with flags %d failed: %v", fl, serr), c)
				continue
			}
			if len(frames) != 2 {
				r.Violation("C11 send-frame-count", fmt.Sprintf("after Send(flags %d) + barrier the server received %d frames: %q", fl, len(frames), clip(string(got), 300)), c)
				continue
			}
			keys, vals, ok := topLevel(frames[0])
			if !ok {
				r.Violation("C11 send-not-an-object", fmt.Sprintf("Send(flags %d) wrote %q", fl, clip(string(frames[0]), 300)), c)
				continue
			}
			seen := map[string]string{}
			for i, k := range keys {
				if _, dup := seen[k]; dup {
					r.Violation("C11 send-duplicate-member", fmt.Sprintf("member %q twice in %q", k, frames[0]), c)
				}
				seen[k] = string(bytes.TrimSpace(vals[i]))
			}
			want := map[string]bool{"more": fl&varlink.More != 0, "oneway": fl&varlink.Oneway != 0, "upgrade": fl&varlink.Upgrade != 0}
			bad := ""
			for k, w := range want {
				v, present := seen[k]
				if w && v != "true" {
					bad = fmt.Sprintf("flag %s requested but frame has %q", k, v)
				}
				if !w && present && v != "false" && v != "null" {
					bad = fmt.Sprintf("flag %s not requested but frame has %q", k, v)
				}
			}
			if _, has := seen["continues"]; has {
				bad = "frame carries a continues member"
			}
			var m string
			if json.Unmarshal([]byte(seen["method"]), &m) != nil || m != method {
				bad = fmt.Sprintf("method member is %s, expected %q", seen["method"], method)
			}
			for k := range seen {
				switch k {
				case "method", "parameters", "more", "oneway", "upgrade":
				default:
					bad = fmt.Sprintf("unexpected member %q", k)
				}
			}
			if bad != "" {
				r.Violation("C11 wrong-flags-on-wire", fmt.Sprintf("Send(flags %d) wrote %q: %s", fl, clip(string(frames[0]), 300), bad), c)
			}
		}
	}
}

func runC11(r *fw.Run) {
	rng := rand.New(rand.NewSource(r.Seed*101 + 11))
	jg := &JGen{R: rng}
	streams, whats := c11Streams(rng, jg, r.Pick(600, 30000), r.Pick(500, 1500))
	workers := 16
	srvs := make([]*RawServer, workers)
	for i := range srvs {
		s, err := newRawServer(r.WorkDir)
		if err != nil {
			r.Inconclusive("scripted server: %v", err)
			return
		}
		srvs[i] = s
		defer s.Close()
	}
	c11Flags(r, srvs[0])
	var cases []*c11Case
	for i, S := range streams {
		lrng := rand.New(rand.NewSource(int64(i) + r.Seed))
		var bounds []int
		fr, _ := splitFrames(S)
		n := 0
		for _, f := range fr {
			n += len(f) + 1
			bounds = append(bounds, n)
		}
		// no death: 3 partitions
		for k := 0; k < 3; k++ {
			cases = append(cases, &c11Case{Stream: S, DieAt: -1, Seg: segFor(lrng, []int{0, 1, 2}[k], len(S), bounds), What: whats[i]})
		}
		// death at every offset
		for k := 0; k <= len(S); k++ {
			cases = append(cases, &c11Case{Stream: S, DieAt: k, Seg: segFor(lrng, []int{0, 0, 2, 3}[lrng.Intn(4)], k, bounds), What: whats[i]})
		}
		// the same stream through a bridge subprocess: whole, and cut at three places
		if i%r.Pick(15, 40) == 0 {
			for _, k := range []int{-1, 0, len(S) / 2, len(S)} {
				cases = append(cases, &c11Case{Stream: S, DieAt: k, Seg: Seg{}, What: whats[i], Bridge: true})
			}
		}
		r.Distinct("stream_kinds", whats[i])
		if i%20 == 0 {
			r.Sample(map[string]interface{}{"kind": whats[i], "stream": string(S), "death_offsets": len(S) + 1})
		}
	}
	r.Count("streams", int64(len(streams)))
	fw.Parallel(workers, len(cases), func(w, i int) {
		c := cases[i]
		r.Journal(w, c)
		c11One(r, srvs[w], c)
		r.Done(w)
		r.Case(fw.HashBytes(c.Stream)^uint64(c.DieAt+2)*0x9e3779b97f4a7c15^uint64(len(c.Seg.Cuts)), len(c.Stream) > 1)
		if c.DieAt >= 0 {
			r.Count("death_offsets", 1)
		}
		if c.Bridge {
			r.Count("streams_played_through_a_bridge", 1)
		}
	})
	// receive into other kinds of out-parameters: a struct and a map (values must be what the frame says)
	c11Typed(r, srvs[0])
	for k := 0; k < r.Pick(4, 40) && r.ViolationCount() <= 12; k++ {
		r.Journal(0, map[string]interface{}{"what": "polling receive", "k": k})
		c11Polling(r, r.Pick(300, 1500), []string{"whole", "partial-first"}[k%2])
		r.Done(0)
	}
}

// c11Typed: decoding into the caller's typed value.
func c11Typed(r *fw.Run, srv *RawServer) {
	play := &rawPlay{Reply: []byte(`{"parameters":{"s":"a\u0000b😀","n":-9223372036854775808,"f":0.1,"l":[1,2],"m":{"k":true}},"continues":true}` + "\x00" + `{"parameters":{"s":"second"}}` + "\x00"), DieAt: -1}
	srv.Expect(play)
	ctx, cancel := context.WithTimeout(context.Background(), 30*time.Second)
	defer cancel()
	conn, err := varlink.NewConnection(ctx, srv.Addr)
	if err != nil {
		r.Inconclusive("typed: %v", err)
		return
	}
	defer conn.Close()
	recv, err := conn.Send(ctx, "org.example.Typed", nil, varlink.More)
	if err != nil {
		r.Violation("C11 send-failed", err.Error(), "typed")
		return
	}
	var out struct {
		S string          `json:"s"`
		N int64           `json:"n"`
		F float64         `json:"f"`
		L []int           `json:"l"`
		M map[string]bool `json:"m"`
	}
	fl, err := recv(ctx, &out)
	if err != nil || fl != varlink.Continues || out.S != "a\x00b😀" || out.N != -9223372036854775808 || out.F != 0.1 || len(out.L) != 2 || !out.M["k"] {
		r.Violation("C11 typed-decode", fmt.Sprintf("receive into a struct: flags=%d err=%v out=%+v", fl, err, out), "typed")
	}
	var m map[string]interface{}
	fl, err = recv(ctx, &m)
	if err != nil || fl != 0 || m["s"] != "second" {
		r.Violation("C11 typed-decode", fmt.Sprintf("receive into a map: flags=%d err=%v out=%+v", fl, err, m), "typed")
	}
	r.Count("typed_receives", 2)
}

// c11Polling: a caller that polls for a reply with very short deadlines while the peer stays silent. Every poll fails
// with a context / timeout error - none "succeeds" with a reply that was never sent - and when the reply finally comes the
// next receive yields exactly it.
func c11Polling(r *fw.Run, polls int, mode string) {
	cse := map[string]interface{}{"what": "polling receive", "polls": polls, "mode": mode}
	path := filepath.Join(r.WorkDir, fmt.Sprintf("poll%d", r.Seq()))
	l, err := net.Listen("unix", path)
	if err != nil {
		r.Inconclusive("polling: %v", err)
		return
	}
	defer l.Close()
	release := make(chan struct{})
	reply := []byte(`{"parameters":{"answer":42,"s":"after the polls"}}` + "\x00")
	go func() {
		c, err := l.Accept()
		if err != nil {
			return
		}
		defer c.Close()
		buf := make([]byte, 4096)
		for {
			n, err := c.Read(buf)
			if err != nil || (n > 0 && buf[n-1] == 0) {
				break
			}
		}
		<-release
		if mode == "partial-first" {
			c.Write(reply[:20])
			time.Sleep(3 * time.Millisecond)
			c.Write(reply[20:])
		} else {
			c.Write(reply)
		}
		time.Sleep(50 * time.Millisecond)
	}()
	ctx, cancel := context.WithTimeout(context.Background(), 60*time.Second)
	defer cancel()
	conn, err := varlink.NewConnection(ctx, "unix:"+path)
	if err != nil {
		close(release)
		r.Inconclusive("polling: connect: %v", err)
		return
	}
	defer conn.Close()
	recv, err := conn.Send(ctx, "org.example.Poll", nil, 0)
	if err != nil {
		close(release)
		r.Violation("C11 send-failed", err.Error(), cse)
		return
	}
	bad := 0
	for i := 0; i < polls; i++ {
		pctx, pcancel := context.WithTimeout(ctx, time.Duration(200+i%7*100)*time.Microsecond)
		var out json.RawMessage
		fl, err := recv(pctx, &out)
		pcancel()
		if err == nil {
			bad++
			if bad <= 3 {
				r.Violation("C11 success-without-reply", fmt.Sprintf("poll %d of %d (deadline %d us) on a connection whose peer has sent nothing returned success (flags %d, out %q)", i, polls, 200+i%7*100, fl, clip(string(out), 60)), cse)
			}
		}
		r.Count("polls_on_a_silent_peer", 1)
	}
	close(release)
	var out json.RawMessage
	_, err = recv(ctx, &out)
	if bad == 0 && (err != nil || jEqual([]byte(`{"answer":42,"s":"after the polls"}`), out) != "") {
		r.Violation("C11 reply-lost-after-polls", fmt.Sprintf("after %d polls that timed out the peer sent its reply; receive returned %q, %v", polls, clip(string(out), 100), err), cse)
	}
	r.Case(fw.Hash("polling", mode, fmt.Sprint(polls)), true)
}

func replayC11(r *fw.Run, raw json.RawMessage) {
	var c c11Case
	if json.Unmarshal(raw, &c) != nil || c.Stream == nil {
		srv, err := newRawServer(r.WorkDir)
		if err == nil {
			c11Flags(r, srv)
			srv.Close()
		}
		return
	}
	srv, err := newRawServer(r.WorkDir)
	if err != nil {
		r.Inconclusive("scripted server: %v", err)
		return
	}
	defer srv.Close()
	for k := 0; k < 5; k++ {
		c11One(r, srv, &c)
	}
	r.Case(1, true)
	r.Case(2, true)
}

func init() {
	fw.Register(&fw.Engine{
		ID: "C11", Level: "fault_enumeration",
		Rule: "reply streams = sequences of valid reply / continues / error frames with generated parameters (number spellings beyond 2^53 and 2^64, exponents, unicode), 50 shape cases (null, {}, non-object values, non-boolean continues, non-string error, the four org.varlink.service errors with good / missing / ill-typed / non-object parameters, case-variant and duplicate members, trailing garbage, invalid UTF-8), byte-level mutants (flips, deleted/inserted bytes and NULs), random bytes, a valid frame followed by a tail without NUL. A case = (stream, server death offset k, segmentation): EVERY k in 0..len(stream) plus 3 partitions of the complete stream (one write, byte-wise, random with pauses). The real Connection calls Send once and receive until the stream ends. Oracle per receive call (model A.3): valid reply => parameters number-exact and Continues iff set; error frame => the dedicated typed error with the right field for the four reserved names, else *varlink.Error with exactly that name and JSON-equal parameters; invalid JSON / wrong shape => some error; stream ended before the NUL => io.ErrUnexpectedEOF; never a panic. Plus all 16 flag words x 3 parameter kinds: forbidden combinations are refused with zero bytes on the wire (barrier call on the same connection), legal ones put exactly the requested members on the wire and never continues. non-trivial = stream longer than one byte / non-zero flag word; distinct by (stream hash, offset, partition). One receive in five passes nil as out parameter (values not wanted): same flags, same errors. A sample of the streams is also played to a client that reaches the scripted server through a bridge subprocess. Polling: 300 (thorough 1500) receives with deadlines of 0.2-0.8 ms on a peer that stays silent all fail; the reply sent afterwards is received intact.",
		Assumptions: []string{"the scripted server reads the complete request frame before it dies, so the client sees an orderly end of stream, not a reset", "frames with case-variant or duplicate members are judged for panics only"},
		Run:         runC11, Replay: replayC11, CrashIsViolation: true, MinEvals: 1000,
		QuickTimeout: 15 * time.Minute, ThoroughTimeout: 60 * time.Minute,
	})
}
