package eng

// C17 - context cancellation and deadlines unblock every I/O operation (engine e-ctx).

import (
	"bytes"
	"context"
	"encoding/json"
	"errors"
	"fmt"
	"io"
	"math/rand"
	"net"
	"os"
	"runtime"
	"strings"
	"sync"
	"sync/atomic"
	"time"

	"github.com/varlink/go/varlink"

	"verif/harness/internal/fw"
)

type c17Case struct {
	Transport string `json:"transport"`
	Op        string `json:"op"`      // read | readbytes | write | receive | call | send
	Mode      string `json:"mode"`    // cancel | deadline | cancel-far (explicit cancel of a context that also has a distant deadline)
	Instant   string `json:"instant"` // before | idle | partial | partial-buffered | after | idle-close (cancel, then the connection is closed at once)
	DelayUS   int    `json:"delay_us"`
}

func ctxErrClass(err error) bool {
	if err == nil {
		return false
	}
	if errors.Is(err, context.Canceled) || errors.Is(err, context.DeadlineExceeded) || errors.Is(err, os.ErrDeadlineExceeded) {
		return true
	}
	var ne net.Error
	if errors.As(err, &ne) && ne.Timeout() {
		return true
	}
	return false
}

// ctxioGoroutines counts goroutines that are inside the library's context aware connection.
func ctxioGoroutines() (int, string) {
	buf := make([]byte, 1<<20)
	n := runtime.Stack(buf, true)
	cnt := 0
	var sample string
	for _, g := range strings.Split(string(buf[:n]), "\n\n") {
		if strings.Contains(g, "internal/ctxio.(*Conn)") {
			cnt++
			if sample == "" {
				sample = g
			}
		}
	}
	return cnt, sample
}

func waitNoCtxio(bound time.Duration) (int, string) {
	deadline := time.Now().Add(bound)
	for {
		n, s := ctxioGoroutines()
		if n == 0 || time.Now().After(deadline) {
			return n, s
		}
		time.Sleep(200 * time.Microsecond)
	}
}

// bigPattern: position dependent content so that a prefix check is meaningful.
func bigPattern(n int) []byte {
	b := make([]byte, n)
	for i := range b {
		b[i] = byte('A' + (i/7+i%13)%26)
	}
	return b
}

const c17Partial = `{"parameters":{"in-flight":"before the cancellation`

func c17One(r *fw.Run, c *c17Case, idx int) {
	report := func(class, format string, a ...interface{}) {
		r.Violation("C17 "+class, fmt.Sprintf("%s on %s, %s at instant '%s': ", c.Op, c.Transport, c.Mode, c.Instant)+fmt.Sprintf(format, a...), c)
	}
	e, err := newCtxEnd(r, c.Transport)
	if err != nil {
		r.Inconclusive("transport %s: %v", c.Transport, err)
		return
	}
	defer e.Close()
	r.Distinct("matrix_cells", fmt.Sprintf("%s/%s/%s/%s", c.Transport, c.Op, c.Mode, c.Instant))

	// peer side helpers
	peerBuf := &bytes.Buffer{}
	var pmu sync.Mutex
	readerStop := make(chan struct{})
	startPeerReader := func() {
		go func() {
			buf := make([]byte, 65536)
			for {
				e.peer.SetReadDeadline(time.Now().Add(50 * time.Millisecond))
				n, err := e.peer.Read(buf)
				pmu.Lock()
				peerBuf.Write(buf[:n])
				pmu.Unlock()
				select {
				case <-readerStop:
					return
				default:
				}
				if err != nil {
					if ne, ok := err.(net.Error); ok && ne.Timeout() {
						continue
					}
					return
				}
			}
		}()
	}
	defer close(readerStop)
	peerGot := func() []byte {
		pmu.Lock()
		defer pmu.Unlock()
		return append([]byte{}, peerBuf.Bytes()...)
	}
	waitPeer := func(bound time.Duration, pred func([]byte) bool) bool {
		dl := time.Now().Add(bound)
		for {
			if pred(peerGot()) {
				return true
			}
			if time.Now().After(dl) {
				return false
			}
			time.Sleep(100 * time.Microsecond)
		}
	}

	isWrite := c.Op == "write" || c.Op == "send"
	isClientOp := c.Op == "receive" || c.Op == "call" || c.Op == "send"
	if isClientOp && e.conn == nil {
		return
	}
	// context
	var ctx context.Context
	var cancel context.CancelFunc
	switch {
	case c.Mode == "cancel-far":
		ctx, cancel = context.WithTimeout(context.Background(), time.Hour)
		if c.Instant == "before" {
			cancel()
		}
	case c.Mode == "cancel":
		ctx, cancel = context.WithCancel(context.Background())
		if c.Instant == "before" {
			cancel()
		}
	case c.Instant == "before":
		ctx, cancel = context.WithDeadline(context.Background(), time.Now().Add(-time.Second))
	case c.Instant == "after":
		ctx, cancel = context.WithTimeout(context.Background(), 150*time.Millisecond)
	default:
		ctx, cancel = context.WithTimeout(context.Background(), 12*time.Millisecond+time.Duration(c.DelayUS)*time.Microsecond)
	}
	defer cancel()
	started := time.Now()

	// receive needs a Send first (with a live context); the peer must read the request
	var recv func(context.Context, interface{}) (uint64, error)
	if c.Op == "receive" {
		startPeerReader()
		var serr error
		recv, serr = e.conn.Send(context.Background(), "org.example.M", map[string]int{"n": idx}, 0)
		if serr != nil {
			r.Inconclusive("preparatory Send: %v", serr)
			return
		}
		waitPeer(10*time.Second, func(b []byte) bool { return bytes.IndexByte(b, 0) >= 0 })
	}
	if c.Op == "call" || (c.Instant == "after" && isWrite) {
		startPeerReader()
	}
	if c.Instant == "partial-buffered" {
		// the start of the next frame arrives in the same segment as a complete frame; reading that complete frame
		// (live context) leaves the partial one in the library's buffer before the operation under test begins
		pre := append([]byte(fmt.Sprintf(`{"parameters":{"pre":%d}}`, idx)), 0)
		e.peer.SetWriteDeadline(time.Now().Add(10 * time.Second))
		go e.peer.Write(append(append([]byte{}, pre...), c17Partial...))
		// a context without deadline (so that nothing is armed on the connection), given up after 10 s by a timer
		pctx, pcancel := context.WithCancel(context.Background())
		ptimer := time.AfterFunc(10*time.Second, pcancel)
		defer ptimer.Stop()
		if c.Op == "receive" {
			var out json.RawMessage
			_, perr := recv(pctx, &out)
			pcancel()
			if perr != nil {
				report("live-operation-failed", "preparatory receive of a complete reply (live context) returned %T %v", perr, perr)
				return
			}
			pmu.Lock()
			peerBuf.Reset()
			pmu.Unlock()
			var serr error
			recv, serr = e.conn.Send(context.Background(), "org.example.M", map[string]int{"n": idx + 1}, 0)
			if serr != nil {
				r.Inconclusive("second preparatory Send: %v", serr)
				return
			}
			waitPeer(10*time.Second, func(b []byte) bool { return bytes.IndexByte(b, 0) >= 0 })
		} else {
			got, perr := e.rw.ReadBytes(pctx, 0)
			pcancel()
			if perr != nil || !bytes.Equal(got, pre) {
				report("live-operation-failed", "preparatory ReadBytes (live context) of a complete frame returned %q, %v", clip(string(got), 80), perr)
				return
			}
		}
		r.Count("operations_started_with_a_partial_frame_buffered", 1)
	}
	if c.Instant == "partial" {
		e.peer.SetWriteDeadline(time.Now().Add(10 * time.Second))
		go e.peer.Write([]byte(c17Partial))
		if c.Transport == "pipe" {
			time.Sleep(100 * time.Microsecond)
		}
	}
	big := bigPattern(8 << 20)
	full := append([]byte(`{"parameters":{"done":`+fmt.Sprint(idx)+`}}`), 0)
	if c.Instant == "after" && !isWrite {
		// the data arrives, the operation completes, then the context ends
		go func() {
			if c.Op == "call" {
				waitPeer(10*time.Second, func(b []byte) bool { return bytes.IndexByte(b, 0) >= 0 })
			}
			e.peer.SetWriteDeadline(time.Now().Add(10 * time.Second))
			e.peer.Write(full)
		}()
	}
	type opres struct {
		n    int
		data []byte
		err  error
	}
	resCh := make(chan opres, 1)
	var progress int64
	go func() {
		var o opres
		switch c.Op {
		case "read":
			buf := make([]byte, 256)
			o.n, o.err = e.rw.Read(ctx, buf)
			o.data = buf[:o.n]
		case "readbytes":
			o.data, o.err = e.rw.ReadBytes(ctx, 0)
		case "write":
			if c.Instant == "small-writes" {
				// consecutive 4000-byte pieces, one Write each, to a peer that does not read: one of them blocks
				for off := 0; off+4000 <= len(big); off += 4000 {
					n, err := e.rw.Write(ctx, big[off:off+4000])
					o.n += n
					if err != nil {
						o.err = err
						break
					}
					atomic.AddInt64(&progress, 1)
				}
			} else if c.Instant == "after" {
				o.n, o.err = e.rw.Write(ctx, big[:1000])
			} else {
				o.n, o.err = e.rw.Write(ctx, big)
			}
		case "receive":
			var out json.RawMessage
			_, o.err = recv(ctx, &out)
			o.data = out
		case "call":
			var out json.RawMessage
			o.err = e.conn.Call(ctx, "org.example.M", map[string]int{"n": idx}, &out)
			o.data = out
		case "send":
			if c.Instant == "after" {
				_, o.err = e.conn.Send(ctx, "org.example.M", map[string]int{"n": idx}, 0)
			} else {
				_, o.err = e.conn.Send(ctx, "org.example.M", map[string]string{"big": string(big)}, 0)
			}
		}
		resCh <- o
	}()
	cancelIssued := time.Now()
	if (c.Mode == "cancel" || c.Mode == "cancel-far") && c.Instant != "before" {
		if c.Instant == "after" {
			// wait for completion first
		} else {
			if c.Instant == "small-writes" {
				// cancel only once the writer makes no progress any more (it sits in a Write the peer does not take)
				last, since := int64(-1), time.Now()
				for dl := time.Now().Add(10 * time.Second); time.Now().Before(dl); {
					if p := atomic.LoadInt64(&progress); p != last {
						last, since = p, time.Now()
					} else if time.Since(since) > 20*time.Millisecond {
						break
					}
					time.Sleep(time.Millisecond)
				}
				r.Max("max_small_writes_before_blocking", last)
			}
			time.Sleep(time.Duration(200+c.DelayUS) * time.Microsecond)
			cancel()
			cancelIssued = time.Now()
			if c.Instant == "idle-close" {
				e.libClose() // the caller gives up on the connection right after cancelling
			}
		}
	}
	var res opres
	select {
	case res = <-resCh:
	case <-time.After(10 * time.Second):
		n, sample := ctxioGoroutines()
		if n > 0 {
			report("not-unblocked", "the operation has not returned 10 s after its context ended (%v ago); it is still parked in the library:\n%s", time.Since(cancelIssued).Round(time.Millisecond), clip(sample, 1500))
		} else {
			report("not-unblocked", "the operation has not returned 10 s after its context ended")
		}
		e.peer.Close()
		select {
		case <-resCh:
		case <-time.After(10 * time.Second):
		}
		return
	}
	r.Count("operations", 1)
	if c.Instant == "idle-close" {
		if res.err == nil {
			report("no-error-after-context-end", "cancelled and closed, but the operation returned success")
		}
		if n, sample := waitNoCtxio(3 * time.Second); n > 0 {
			report("goroutine-left-behind", "the context was cancelled and the connection closed right afterwards: %d goroutines are still inside the library's connection:\n%s", n, clip(sample, 1500))
		}
		r.Count("goroutine_checks", 1)
		return
	}
	if c.Instant == "after" {
		if res.err != nil && c.Mode == "deadline" && ctxErrClass(res.err) && time.Since(started) >= 150*time.Millisecond {
			r.Inconclusive("machine too slow: the operation did not complete within its 150 ms deadline")
			return
		}
		if res.err != nil {
			report("live-operation-failed", "the context was still live but the operation returned %T %v", res.err, res.err)
			return
		}
		if c.Op == "read" || c.Op == "readbytes" {
			if !bytes.HasPrefix(full, res.data) || len(res.data) == 0 {
				report("live-operation-wrong-bytes", "returned %q, the peer sent %q", clip(string(res.data), 100), clip(string(full), 100))
			}
			if c.Op == "read" && len(res.data) < len(full) {
				// drain the rest so that the follow-up starts clean
				rest := make([]byte, 0)
				for len(res.data)+len(rest) < len(full) {
					buf := make([]byte, 256)
					n, err := e.rw.Read(context.Background(), buf)
					rest = append(rest, buf[:n]...)
					if err != nil {
						break
					}
				}
			}
		}
		if c.Mode == "deadline" {
			<-ctx.Done()
		}
		cancel()
		time.Sleep(2 * time.Millisecond)
	} else {
		if res.err == nil {
			report("no-error-after-context-end", "the operation could not complete (nothing to read / peer not reading) and its context ended, but it returned success (n=%d, %q)", res.n, clip(string(res.data), 60))
			return
		}
		if !ctxErrClass(res.err) {
			report("wrong-error", "returned %T %v, expected a context or timeout error", res.err, res.err)
		}
		r.Distinct("error_kinds", fmt.Sprintf("%T", res.err))
	}
	// (2) nothing left behind
	if n, sample := waitNoCtxio(3 * time.Second); n > 0 {
		report("goroutine-left-behind", "%d goroutines are still inside the library's connection although no operation is in progress:\n%s", n, clip(sample, 1500))
		return
	}
	r.Count("goroutine_checks", 1)
	// (3) reuse with a live context
	// a live context WITHOUT a deadline of its own (two cases out of three), so that nothing re-arms or clears what the
	// previous operation may have left on the connection; the waits below are bounded by the harness' own timers
	ctx2, cancel2 := context.WithCancel(context.Background())
	if idx%3 == 2 {
		ctx2, cancel2 = context.WithTimeout(context.Background(), 20*time.Second)
	}
	defer cancel2()
	if isWrite {
		select {
		case <-readerStop:
		default:
		}
		if !(c.Instant == "after") {
			startPeerReader()
		}
		marker := []byte(fmt.Sprintf("\x00MARK-%d\x00", idx))
		wd := time.AfterFunc(20*time.Second, cancel2)
		n, werr := e.rw.Write(ctx2, marker)
		wd.Stop()
		if werr != nil || n != len(marker) {
			report("reuse-failed", "a write with a live context after the cancelled one returned n=%d err=%v", n, werr)
			return
		}
		if !waitPeer(20*time.Second, func(b []byte) bool { return bytes.HasSuffix(b, marker) }) {
			report("reuse-bytes-lost", "the follow-up write returned success but the peer did not receive its bytes (peer has %d bytes)", len(peerGot()))
			return
		}
		got := peerGot()
		before := got[:len(got)-len(marker)]
		if c.Op == "write" && c.Instant != "after" {
			if !bytes.HasPrefix(big, before) {
				report("write-stream-corrupted", "what the peer received before the follow-up write is not a prefix of the cancelled write's buffer (%d bytes)", len(before))
			}
		}
		r.Count("reuse_checks", 1)
		return
	}
	frCh := make(chan opres, 1)
	go func() {
		b, err := e.rw.ReadBytes(ctx2, 0)
		frCh <- opres{data: b, err: err}
	}()
	select {
	case fr := <-frCh:
		if fr.err != nil {
			report("reuse-fails-at-once", "a read with a live context after the cancelled operation failed at once with %T %v (stale deadline?) instead of waiting for the peer", fr.err, fr.err)
		} else {
			report("reuse-returned-without-data", "a read with a live context returned %q although the peer has not sent a complete frame", clip(string(fr.data), 100))
		}
		return
	case <-time.After(4 * time.Millisecond):
	}
	f2 := append([]byte(fmt.Sprintf(`{"parameters":{"after-cancel":%d}}`, idx)), 0)
	e.peer.SetWriteDeadline(time.Now().Add(10 * time.Second))
	if _, err := e.peer.Write(f2); err != nil {
		r.Inconclusive("peer write: %v", err)
		return
	}
	select {
	case fr := <-frCh:
		if fr.err != nil {
			report("reuse-failed", "the follow-up read returned %T %v after the peer had sent a frame", fr.err, fr.err)
			return
		}
		if !bytes.HasSuffix(fr.data, f2) {
			report("reuse-bytes-lost", "the peer sent %q after the cancelled operation had returned; the follow-up read returned %q", clip(string(f2), 80), clip(string(fr.data), 120))
			return
		}
		pre := fr.data[:len(fr.data)-len(f2)]
		inflight := []byte{}
		if c.Instant == "partial" || c.Instant == "partial-buffered" {
			inflight = []byte(c17Partial)
		}
		if !bytes.HasSuffix(inflight, pre) {
			report("reuse-stream-corrupted", "the follow-up read returned %q before the new frame; that is not a suffix of what was in flight (%q)", clip(string(pre), 100), clip(string(inflight), 100))
		}
	case <-time.After(10 * time.Second):
		report("reuse-failed", "the follow-up read did not return within 10 s after the peer had sent a frame")
		e.peer.Close()
		<-frCh
		return
	}
	// a third operation: one more frame, read with a fresh context
	{
		f3 := append([]byte(fmt.Sprintf(`{"parameters":{"third-operation":%d}}`, idx)), 0)
		ctx3, cancel3 := context.WithTimeout(context.Background(), 15*time.Second)
		e.peer.SetWriteDeadline(time.Now().Add(10 * time.Second))
		go e.peer.Write(f3)
		b3, err3 := e.rw.ReadBytes(ctx3, 0)
		cancel3()
		if err3 != nil || !bytes.Equal(b3, f3) {
			report("reuse-bytes-lost", "third operation after the cancelled one: the peer sent %q, ReadBytes returned %q, %v", clip(string(f3), 80), clip(string(b3), 80), err3)
			return
		}
	}
	// client level reuse: a complete call on the same Connection
	if e.conn != nil && c.Instant != "partial" && c.Instant != "partial-buffered" {
		pmu.Lock()
		peerBuf.Reset()
		pmu.Unlock()
		select {
		case <-readerStop:
		default:
		}
		if c.Op != "receive" && c.Op != "call" {
			startPeerReader()
		}
		done := make(chan error, 1)
		var out struct {
			V int `json:"v"`
		}
		go func() { done <- e.conn.Call(ctx2, "org.example.Again", map[string]int{"n": idx}, &out) }()
		if !waitPeer(10*time.Second, func(b []byte) bool { return bytes.Contains(b, []byte("org.example.Again")) && b[len(b)-1] == 0 }) {
			report("reuse-failed", "a Call on the same Connection after the cancelled operation did not reach the peer")
			return
		}
		e.peer.Write(append([]byte(fmt.Sprintf(`{"parameters":{"v":%d}}`, idx)), 0))
		select {
		case err := <-done:
			if err != nil || out.V != idx {
				report("reuse-failed", "a Call on the same Connection after the cancelled operation returned err=%v v=%d (expected %d)", err, out.V, idx)
			}
		case <-time.After(10 * time.Second):
			report("reuse-failed", "a Call on the same Connection after the cancelled operation did not return")
			e.peer.Close()
			<-done
		}
	}
	if n, sample := waitNoCtxio(3 * time.Second); n > 0 {
		report("goroutine-left-behind", "after the follow-up operations %d goroutines are still inside the library's connection:\n%s", n, clip(sample, 1500))
	}
	r.Count("reuse_checks", 1)
}

func c17Matrix(rng *rand.Rand, reps int) []*c17Case {
	var out []*c17Case
	for rep := 0; rep < reps; rep++ {
		for _, tr := range ctxTransports {
			for _, op := range []string{"read", "readbytes", "write", "receive", "call", "send"} {
				client := tr == "client-unix" || tr == "bridge"
				if (op == "receive" || op == "call" || op == "send") && !client {
					continue
				}
				for _, mode := range []string{"cancel", "deadline", "cancel-far"} {
					for _, inst := range []string{"before", "idle", "partial", "partial-buffered", "after", "idle-close"} {
						if inst == "partial" && (op == "read" || op == "write" || op == "send") {
							continue
						}
						if inst == "partial-buffered" && op != "readbytes" && op != "receive" {
							continue
						}
						if inst == "after" && op == "write" {
							// writes only: many small writes until the peer's buffers are full, then the context ends
							out = append(out, &c17Case{Transport: tr, Op: op, Mode: mode, Instant: "small-writes", DelayUS: []int{0, 50, 300, 1000, 3000}[rng.Intn(5)]})
						}
						if inst == "idle-close" && (mode == "deadline" || client) {
							continue
						}
						if mode == "cancel-far" && (inst == "after" || inst == "before") {
							continue
						}
						if op == "call" && inst == "before" {
							continue // Send fails first; covered by send/before
						}
						out = append(out, &c17Case{Transport: tr, Op: op, Mode: mode, Instant: inst, DelayUS: []int{0, 50, 300, 1000, 3000}[rng.Intn(5)]})
					}
				}
			}
		}
	}
	return out
}

// blockDisp: the handler blocks in Call.Conn I/O until its context ends.
type blockDisp struct {
	mu      sync.Mutex
	results []string
	entered chan struct{}
}

func (d *blockDisp) VarlinkGetName() string        { return "org.example.block" }
func (d *blockDisp) VarlinkGetDescription() string { return "interface org.example.block\nmethod Read() -> ()\nmethod Write() -> ()\n" }
func (d *blockDisp) VarlinkDispatch(ctx context.Context, c varlink.Call, m string) error {
	d.entered <- struct{}{}
	var err error
	switch m {
	case "Write":
		_, err = c.Conn.Write(ctx, bigPattern(8<<20))
	default:
		buf := make([]byte, 64)
		_, err = c.Conn.Read(ctx, buf)
	}
	d.mu.Lock()
	d.results = append(d.results, fmt.Sprintf("%s:%v:%v", m, ctxErrClass(err), err))
	d.mu.Unlock()
	return err
}

// c17Service: the service's per-connection reads and handler I/O end when the serving context is cancelled.
func c17Service(r *fw.Run, transport string, useListen bool) {
	cs := map[string]interface{}{"service": true, "transport": transport, "listen": useListen}
	report := func(class, format string, a ...interface{}) {
		r.Violation("C17 "+class, fmt.Sprintf("service side (%s, listen=%v): ", transport, useListen)+fmt.Sprintf(format, a...), cs)
	}
	svc, err := varlink.NewService("Verif", "CtxSvc", "1", "u")
	if err != nil {
		return
	}
	d := &blockDisp{entered: make(chan struct{}, 16)}
	svc.RegisterInterface(d)
	g := &Rig{Svc: svc, Log: newEvLog(r), r: r, done: make(chan error, 1), Reg: &MReg{Product: "CtxSvc"}}
	g.ctx, g.cancel = context.WithCancel(context.Background())
	addr := "tcp:127.0.0.1:0"
	g.Net = "tcp"
	if transport == "unix" {
		g.Dial = fmt.Sprintf("%s/cs%d", r.WorkDir, r.Seq())
		addr, g.Net = "unix:"+g.Dial, "unix"
	}
	if useListen {
		go func() { g.done <- svc.Listen(g.ctx, addr, 0) }()
	} else {
		if err := svc.Bind(g.ctx, addr); err != nil {
			r.Inconclusive("bind: %v", err)
			return
		}
		go func() { g.done <- svc.DoListen(g.ctx, 0) }()
	}
	for try := 0; try < 20000; try++ {
		if l, _ := svc.GetListener(); l != nil {
			if transport == "tcp" {
				g.Dial = l.Addr().String()
			}
			break
		}
		time.Sleep(100 * time.Microsecond)
	}
	for try := 0; try < 2000 && g.Probe() != nil; try++ {
		time.Sleep(300 * time.Microsecond)
	}
	var conns []net.Conn
	dial := func() net.Conn {
		c, err := net.DialTimeout(g.Net, g.Dial, 5*time.Second)
		if err != nil {
			return nil
		}
		conns = append(conns, c)
		return c
	}
	idle := dial()
	partial := dial()
	used := dial()
	hread := dial()
	hwrite := dial()
	usedp := dial()
	if idle == nil || partial == nil || used == nil || hread == nil || hwrite == nil || usedp == nil {
		r.Inconclusive("could not open the test connections")
		g.Stop()
		return
	}
	partial.Write([]byte(`{"method":"org.varlink.service.GetI`))
	roundTrip(used, 10*time.Second)
	// a call and the start of the next frame in one segment: answered, then the service waits for the rest
	usedp.SetDeadline(time.Now().Add(10 * time.Second))
	usedp.Write([]byte("{\"method\":\"org.varlink.service.GetInfo\"}\x00{\"method\":\"org.varlink.serv"))
	for tmp := make([]byte, 4096); ; {
		n, err := usedp.Read(tmp)
		if err != nil || bytes.IndexByte(tmp[:n], 0) >= 0 {
			break
		}
	}
	usedp.SetDeadline(time.Time{})
	hread.Write([]byte("{\"method\":\"org.example.block.Read\"}\x00"))
	hwrite.Write([]byte("{\"method\":\"org.example.block.Write\"}\x00"))
	for i := 0; i < 2; i++ {
		select {
		case <-d.entered:
		case <-time.After(10 * time.Second):
			r.Inconclusive("handlers did not start")
			g.Stop()
			return
		}
	}
	time.Sleep(2 * time.Millisecond)
	// cancel the serving context: every per-connection read and the handlers' I/O must end
	g.cancel()
	names := []string{"idle", "mid-frame", "used-then-idle", "handler blocked in Conn.Read", "handler blocked in Conn.Write", "used, start of the next frame arrived with the call"}
	for i, c := range conns {
		c.SetReadDeadline(time.Now().Add(10 * time.Second))
		buf := make([]byte, 1<<16)
		ended := false
		for {
			_, err := c.Read(buf)
			if err != nil {
				if ne, ok := err.(net.Error); ok && ne.Timeout() {
					break
				}
				ended = true
				break
			}
		}
		if !ended {
			report("service-read-not-unblocked", "connection '%s': 10 s after the serving context was cancelled the service has not ended it", names[i])
		}
		c.Close()
	}
	if !g.WaitIdle(10 * time.Second) {
		report("service-read-not-unblocked", "after the serving context was cancelled %d connections are still counted as active", svc.VerifActive())
	}
	d.mu.Lock()
	res := append([]string{}, d.results...)
	d.mu.Unlock()
	if len(res) != 2 {
		report("handler-io-not-unblocked", "handler I/O results: %v (2 handlers were blocked in Call.Conn I/O)", res)
	}
	for _, s := range res {
		if !strings.Contains(s, ":true:") {
			report("wrong-error", "handler I/O returned %s, expected a context error", s)
		}
	}
	if n, sample := waitNoCtxio(3 * time.Second); n > 0 {
		report("goroutine-left-behind", "%d goroutines still inside the library's connection after all connections ended:\n%s", n, clip(sample, 1200))
	}
	if _, ok := g.Stop(); !ok {
		report("no-return-after-shutdown", "serving call did not return")
	}
	r.Count("service_side_runs", 1)
	r.Case(fw.Hash("svc", transport, fmt.Sprint(useListen)), true)
}

// c17BridgeBehaviours: bridge subprocesses that do not behave like a relay - they close their output but stay alive,
// stay silent, exit at once, complain on stderr and exit. Whatever the bridge does, a receive returns within the bound
// once its context has ended (or earlier, with an error of its own), and Close returns.
func c17BridgeBehaviours(r *fw.Run, k int) {
	bridges := []struct{ what, cmd string }{
		{"closes its output, keeps reading its input", "exec 1>&-; exec cat >/dev/null"},
		{"silent: reads its input, never writes", "exec cat >/dev/null"},
		{"exits at once", "exit 0"},
		{"complains on stderr and exits", "echo 'bridge: cannot reach the service' >&2; exit 1"},
		{"complains on stderr, closes its output, lingers", "echo 'bridge: giving up' >&2; exec 1>&-; exec cat >/dev/null"},
	}
	b := bridges[k%len(bridges)]
	cse := map[string]interface{}{"what": "bridge behaviour", "bridge": b.what, "cmd": b.cmd}
	conn, err := varlink.NewBridgeWithStderr(b.cmd, io.Discard)
	if err != nil {
		r.Inconclusive("bridge %q: %v", b.what, err)
		return
	}
	mode := []string{"deadline", "cancel"}[(k/len(bridges))%2]
	ctx, cancel := context.WithTimeout(context.Background(), 60*time.Millisecond)
	if mode == "cancel" {
		ctx, cancel = context.WithCancel(context.Background())
		time.AfterFunc(60*time.Millisecond, cancel)
	}
	defer cancel()
	type res struct{ err error }
	ch := make(chan res, 1)
	go func() {
		recv, err := conn.Send(ctx, "org.example.M", map[string]int{"n": k}, 0)
		if err != nil {
			ch <- res{err}
			return
		}
		var out json.RawMessage
		_, err = recv(ctx, &out)
		ch <- res{err}
	}()
	select {
	case x := <-ch:
		if x.err == nil {
			r.Violation("C17 no-error-after-context-end", fmt.Sprintf("bridge that %s: a call that can never be answered returned success", b.what), cse)
		}
	case <-time.After(10 * time.Second):
		n, sample := ctxioGoroutines()
		r.Violation("C17 not-unblocked", fmt.Sprintf("bridge that %s, context ended by %s after 60 ms: Send+receive has not returned 10 s later (%d goroutines inside the library's connection)\n%s", b.what, mode, n, clip(sample, 1200)), cse)
	}
	closed := make(chan struct{})
	go func() { conn.Close(); close(closed) }()
	select {
	case <-closed:
	case <-time.After(15 * time.Second):
		r.Violation("C17 close-hangs", fmt.Sprintf("bridge that %s: Connection.Close has not returned within 15 s", b.what), cse)
	}
	r.Count("bridge_behaviour_runs", 1)
	r.Case(fw.Hash("bridge-behaviour", b.what, mode), true)
}

// c17StartRace: the context is cancelled at (almost) the same instant the operation starts - a few hundred nanoseconds
// to a few microseconds before or after. Thousands of repetitions on one connection; each operation must return (with a
// context error, or - if it got that far - at least promptly), and the connection must still deliver a frame afterwards.
func c17StartRace(r *fw.Run, transport string, reps int) {
	cse := map[string]interface{}{"what": "cancel racing the start of the operation", "transport": transport}
	e, err := newCtxEnd(r, transport)
	if err != nil {
		r.Inconclusive("transport %s: %v", transport, err)
		return
	}
	defer e.Close()
	var sink int64
	for k := 0; k < reps; k++ {
		ctx, cancel := context.WithCancel(context.Background())
		gate := make(chan struct{})
		spin := k % 97 * 3
		go func() {
			<-gate
			for i := 0; i < spin; i++ {
				atomic.AddInt64(&sink, 1)
			}
			cancel()
		}()
		done := make(chan error, 1)
		go func() {
			<-gate
			var err error
			if k%3 == 2 {
				buf := make([]byte, 64)
				_, err = e.rw.Read(ctx, buf)
			} else {
				_, err = e.rw.ReadBytes(ctx, 0)
			}
			done <- err
		}()
		close(gate)
		select {
		case err := <-done:
			if err == nil {
				r.Violation("C17 no-error-after-context-end", fmt.Sprintf("%s, repetition %d: a read on a silent connection whose context was cancelled as it started returned success", transport, k), cse)
				cancel()
				return
			}
		case <-time.After(10 * time.Second):
			n, sample := ctxioGoroutines()
			r.Violation("C17 not-unblocked", fmt.Sprintf("%s, repetition %d (cancel about %d increments after the start): the read has not returned 10 s after its context was cancelled; %d goroutines inside the library's connection:\n%s", transport, k, spin, n, clip(sample, 1200)), cse)
			cancel()
			e.peer.Close()
			return
		}
		cancel()
		r.Count("operations_cancelled_at_their_start", 1)
	}
	// the connection still works
	f := append([]byte(`{"parameters":{"after-the-races":true}}`), 0)
	e.peer.SetWriteDeadline(time.Now().Add(10 * time.Second))
	go e.peer.Write(f)
	ctx, cancel := context.WithCancel(context.Background())
	t := time.AfterFunc(15*time.Second, cancel)
	b, err := e.rw.ReadBytes(ctx, 0)
	t.Stop()
	cancel()
	if err != nil || !bytes.Equal(b, f) {
		r.Violation("C17 reuse-failed", fmt.Sprintf("%s: after %d reads that were cancelled as they started, a read with a live context returned %q, %v; the peer had sent %q", transport, reps, clip(string(b), 80), err, clip(string(f), 80)), cse)
	}
	r.Case(fw.Hash("start-race", transport), true)
}

func runC17(r *fw.Run) {
	rng := rand.New(rand.NewSource(r.Seed*53 + 17))
	cases := c17Matrix(rng, r.Pick(2, 30))
	for i, c := range cases {
		if r.ViolationCount() > 12 {
			r.Note("stopped after 12 violations: the remaining cases would repeat them slowly")
			break
		}
		r.Journal(0, c)
		if p := catch(func() { c17One(r, c, i) }); p != "" {
			r.Violation("C17 panic", p, c)
		}
		r.Done(0)
		r.Case(fw.Hash(c.Transport, c.Op, c.Mode, c.Instant, fmt.Sprint(c.DelayUS)), c.Instant != "after")
		if i%25 == 0 {
			r.Sample(c)
		}
	}
	for k := 0; k < r.Pick(2, 10); k++ {
		c17Service(r, "unix", k%2 == 0)
		c17Service(r, "tcp", k%2 == 1)
	}
	for _, tr := range []string{"pipe", "unix", "tcp"} {
		if r.ViolationCount() > 12 {
			break
		}
		r.Journal(0, map[string]interface{}{"what": "cancel racing the start of the operation", "transport": tr})
		c17StartRace(r, tr, r.Pick(3000, 40000))
		r.Done(0)
	}
	for k := 0; k < r.Pick(10, 100) && r.ViolationCount() <= 12; k++ {
		r.Journal(0, map[string]interface{}{"what": "bridge behaviour", "k": k})
		c17BridgeBehaviours(r, k)
		r.Done(0)
	}
	_ = io.EOF
}

func replayC17(r *fw.Run, raw json.RawMessage) {
	var c c17Case
	if json.Unmarshal(raw, &c) == nil && c.Op != "" {
		for k := 0; k < 5; k++ {
			c17One(r, &c, 1000+k)
		}
		r.Case(1, true)
		r.Case(2, true)
		return
	}
	var s struct {
		Service   bool   `json:"service"`
		Transport string `json:"transport"`
		Listen    bool   `json:"listen"`
	}
	if json.Unmarshal(raw, &s) == nil && s.Service {
		c17Service(r, s.Transport, s.Listen)
		r.Case(1, true)
		r.Case(2, true)
	}
}

func init() {
	fw.Register(&fw.Engine{
		ID: "C17", Level: "exploration",
		Rule: "the matrix operation in {raw Read, raw ReadBytes, raw Write, client receive, client Call, client Send} x transport in {in-memory pipe, unix socketpair, TCP pair (white-box constructor of the library's connection), real Connection over a unix socket, bridge subprocess} x {cancel, deadline} x instant in {before the call, blocked with nothing in flight, blocked after a partial frame was received, blocked with a partial frame already in the library's buffer (it had arrived in one segment with the previous, complete frame), after completion} (writes: blocked on a peer that does not read, one 8 MiB write, or consecutive 4000-byte writes until one blocks), each cell repeated with seeded cancel offsets 0..3 ms. Oracle per cell: the operation returns within 10 s of the context's end (else the goroutine dump must show it parked in the library) with context.Canceled / DeadlineExceeded / a timeout error - or, for 'after completion', success with the right bytes; then no goroutine remains inside the library's connection; then a read with a live context must BLOCK (not fail at once on a stale deadline) until the peer sends a fresh frame and must return exactly that frame, optionally preceded by a suffix of the partial frame that was in flight; a follow-up write must deliver its bytes intact after a prefix of the cancelled write; on client transports a complete Call on the same Connection must succeed. Plus the service side: idle, mid-frame, used and used-with-the-start-of-the-next-frame-in-the-same-segment connections and handlers blocked in Call.Conn Read/Write all end within 10 s of cancelling the serving context, handlers see a context error, active count returns to 0. non-trivial = any instant other than 'after completion'; distinct by cell + offset. Modes: cancel, deadline, and explicit cancel of a context that also has a distant deadline; further instant: cancel followed at once by Close of the connection (goroutine-leak monitor only). Follow-up operations use a context without deadline in two cases out of three; a third operation follows. 3000 (thorough 40 000) reads per transport whose context is cancelled within microseconds of their start. Bridge subprocesses that close their output but linger, stay silent, exit at once or complain on stderr: Send+receive returns within 10 s of the context's end, Close within 15 s.",
		Assumptions: []string{"bounded progress: 10 s (normal latency: well under a millisecond)", "the 4 ms 'must still block' window is one-sided: a follow-up read that fails or returns inside it is a violation"},
		Run:         runC17, Replay: replayC17, CrashIsViolation: true, MinEvals: 50,
		QuickTimeout: 15 * time.Minute, ThoroughTimeout: 60 * time.Minute,
	})
}
