package eng

// C03 - parameters survive the round trip unchanged on all four transports, and
// C02 - framing: one JSON object + one NUL, independent of segmentation (engine e-pair).

import (
	"context"
	"encoding/json"
	"fmt"
	"math/rand"
	"runtime"
	"strings"
	"sync/atomic"
	"time"

	"github.com/varlink/go/varlink"

	"verif/harness/internal/fw"
)

func jsonValid(b []byte) bool { return json.Valid(b) }

type PairCall struct {
	Style     string   `json:"style"`      // call | send | more
	ParamKind string   `json:"param_kind"` // raw | map | struct | none
	ID        string   `json:"id"`
	Pad       string   `json:"pad,omitempty"`
	Replies   []string `json:"replies,omitempty"` // parameters of each reply, in order (all but the last are sent with continues)
	GapMS     int      `json:"gap_ms,omitempty"` // the handler waits this long between two replies of a sequence
	BigPad    int      `json:"big_pad,omitempty"` // replace Pad by a generated string of this many bytes (kept out of replay files)
	BigReply  int      `json:"big_reply,omitempty"`
	ExactPad  int      `json:"exact_pad,omitempty"` // pad and last reply are strings of exactly this many 'x'
}

type pairCase struct {
	Transport string     `json:"transport"`
	Reseg     int        `json:"reseg"`
	Calls     []PairCall `json:"calls"`
}

func (pc *PairCall) script(jg *JGen) *CallScript {
	cs := &CallScript{ID: pc.ID}
	if pc.ExactPad > 0 {
		cs.Pad = json.RawMessage(`"` + strings.Repeat("x", pc.ExactPad) + `"`)
	} else if pc.BigPad > 0 {
		cs.Pad = json.RawMessage(jg.BigString(pc.BigPad))
	} else if pc.Pad != "" {
		cs.Pad = json.RawMessage(pc.Pad)
	}
	for i, w := range pc.Replies {
		if i > 0 && pc.GapMS > 0 {
			cs.Steps = append(cs.Steps, Step{Op: "sleep", N: pc.GapMS})
		}
		raw := json.RawMessage(w)
		if w == "" {
			cs.Steps = append(cs.Steps, Step{Op: "reply", Cont: i < len(pc.Replies)-1, NoPar: true})
			continue
		}
		if w == "<nil-raw>" || w == "<nilptr-raw>" {
			// the handler passes a nil json.RawMessage / *json.RawMessage (a forwarded reply that had no parameters)
			cs.Steps = append(cs.Steps, Step{Op: "reply", Cont: i < len(pc.Replies)-1, RawKind: map[string]string{"<nil-raw>": "nil", "<nilptr-raw>": "nilptr"}[w]})
			continue
		}
		if pc.ExactPad > 0 && i == len(pc.Replies)-1 {
			raw = json.RawMessage(`{"x":"` + strings.Repeat("x", pc.ExactPad) + `"}`)
		} else if pc.BigReply > 0 && i == len(pc.Replies)-1 {
			raw = json.RawMessage(`{"big":` + jg.BigString(pc.BigReply) + `}`)
		}
		cs.Steps = append(cs.Steps, Step{Op: "reply", Cont: i < len(pc.Replies)-1, Raw: raw})
	}
	return cs
}

const pairMethod = "org.example.script.Echo"

// runPairCase drives the calls over one client connection through the proxy and applies the
// value oracle (C03) and, when framing is set, the wire oracle (C02).
func runPairCase(r *fw.Run, p *Pair, prop string, c *pairCase, framing bool) int {
	viol := 0
	if r.ViolationCount() > 12 {
		return 0 // the tree is broken; the remaining cases would only repeat it slowly
	}
	report := func(class, detail string) {
		viol++
		r.Violation(prop+" "+class, fmt.Sprintf("transport %s, proxy re-segmentation %d: %s", c.Transport, c.Reseg, detail), c)
	}
	p.Proxy.TakeConns()
	p.Rig.Log.Take()
	p.Proxy.Reseg = int32(c.Reseg)
	ctx, cancel := context.WithTimeout(context.Background(), 25*time.Second)
	defer cancel()
	conn, err := p.Connect(ctx)
	if err != nil {
		if prop == "C03" && p.reachable() {
			report("transport-unusable", fmt.Sprintf("a listener accepts raw connections at %s but the client could not connect: %v", p.ClientAddr(), err))
			return viol
		}
		r.Inconclusive("%s: connect: %v", c.Transport, err)
		return 0
	}
	jg := &JGen{R: rand.New(rand.NewSource(int64(fw.Hash(c.Calls[0].ID))))}
	sent, replies := 0, 0
	type expect struct {
		params []byte
		id     string
	}
	var exps []expect
	for ci := range c.Calls {
		pc := &c.Calls[ci]
		if c.Reseg == 1 && pc.Style == "oneway" && pc.BigPad > 70000 {
			pc.BigPad = 0 // byte-wise forwarding of hundreds of KB only costs time
		}
		cs := pc.script(jg)
		text, _ := json.Marshal(cs)
		var params interface{}
		switch pc.ParamKind {
		case "raw":
			params = json.RawMessage(text)
		case "map":
			v, err := jdecode(text)
			if err != nil {
				r.Inconclusive("generator produced undecodable parameters: %v", err)
				conn.Close()
				return viol
			}
			params = v
		case "struct":
			params = cs
		}
		exps = append(exps, expect{text, pc.ID})
		var want [][]byte
		for _, st := range cs.Steps {
			if st.Op == "reply" {
				want = append(want, st.Raw)
			}
		}
		switch pc.Style {
		case "oneway":
			// the caller's per-call context ends as soon as Send has returned (a helper with `defer cancel()`); no reply
			// is expected, the handler must see the call all the same - also when nothing but Close follows
			octx, ocancel := context.WithCancel(ctx)
			var err error
			p, hung := catchBounded(60*time.Second, func() { _, err = conn.Send(octx, pairMethod, params, varlink.Oneway) })
			ocancel()
			if hung {
				report("operation-hangs", fmt.Sprintf("call %s: Send (oneway) has not returned within 60 s", pc.ID))
				go conn.Close()
				return viol
			}
			if p != "" {
				report("panic", p)
				conn.Close()
				return viol
			}
			sent++
			if err != nil {
				report("send-failed", fmt.Sprintf("call %s: Send with the oneway flag returned %T %v", pc.ID, err, err))
				conn.Close()
				return viol
			}
			r.Count("oneway_calls", 1)
		case "call":
			var out json.RawMessage
			var err error
			p, hung := catchBounded(60*time.Second, func() { err = conn.Call(ctx, pairMethod, params, &out) })
			if hung {
				report("operation-hangs", fmt.Sprintf("call %s: Call has not returned 60 s after it began (its context ended after 25 s)", pc.ID))
				go conn.Close()
				return viol
			}
			if p != "" {
				report("panic", p)
				conn.Close()
				return viol
			}
			sent++
			replies += len(want)
			if err != nil {
				report("call-failed", fmt.Sprintf("call %s: Call returned %T %v", pc.ID, err, err))
				conn.Close()
				return viol
			}
			if d := jEqualParams(want[0], out); d != "" {
				report("reply-parameters-changed", fmt.Sprintf("call %s: what Call yielded differs from what the handler replied: %s", pc.ID, d))
			}
			// a one-reply script only (Call reads one reply)
		default:
			flags := uint64(0)
			if pc.Style == "more" {
				flags = varlink.More
			}
			var recv func(context.Context, interface{}) (uint64, error)
			var err error
			p, hung := catchBounded(60*time.Second, func() { recv, err = conn.Send(ctx, pairMethod, params, flags) })
			if hung {
				report("operation-hangs", fmt.Sprintf("call %s: Send has not returned 60 s after it began (its context ended after 25 s)", pc.ID))
				go conn.Close()
				return viol
			}
			if p != "" {
				report("panic", p)
				conn.Close()
				return viol
			}
			sent++
			if err != nil {
				report("send-failed", fmt.Sprintf("call %s: Send returned %T %v", pc.ID, err, err))
				conn.Close()
				return viol
			}
			for i := range want {
				var out json.RawMessage
				var fl uint64
				var err error
				// every receive under a context of its own that ends as soon as the receive has returned
				rctx, rcancel := context.WithCancel(ctx)
				p, hung := catchBounded(60*time.Second, func() { fl, err = recv(rctx, &out) })
				rcancel()
				if hung || p != "" {
					if hung {
						report("operation-hangs", fmt.Sprintf("call %s reply %d of %d: receive has not returned 60 s after it began (its context ended after 25 s)", pc.ID, i, len(want)))
					} else {
						report("panic", p)
					}
					go conn.Close()
					return viol
				}
				replies++
				if err != nil {
					report("receive-failed", fmt.Sprintf("call %s reply %d of %d: receive returned %T %v", pc.ID, i, len(want), err, err))
					conn.Close()
					return viol
				}
				last := i == len(want)-1
				if (fl&varlink.Continues != 0) == last {
					report("continues-indication", fmt.Sprintf("call %s reply %d of %d: receive flags=%d (Continues must be set on all replies but the last)", pc.ID, i, len(want), fl))
				}
				if d := jEqualParams(want[i], out); d != "" {
					report("reply-parameters-changed", fmt.Sprintf("call %s reply %d: what receive yielded differs from what the handler replied: %s", pc.ID, i, d))
				}
				r.Count("replies_compared", 1)
			}
			r.Distinct("more_sequence_lengths", fmt.Sprint(len(want)))
		}
		r.Count("calls", 1)
	}
	if !closeBounded(conn, 15*time.Second) {
		report("close-hangs", "Connection.Close did not return within 15 s")
		return viol
	}
	// what the handler read
	// (a bridge subprocess may still be on its way to the proxy when the client has already closed: it delivers what it was given)
	pcs := p.Proxy.TakeConns()
	for dl := time.Now().Add(10 * time.Second); len(pcs) == 0 && sent > 0 && time.Now().Before(dl); {
		time.Sleep(200 * time.Microsecond)
		pcs = append(pcs, p.Proxy.TakeConns()...)
	}
	settle := func() {
		for _, pc := range pcs {
			pc.Wait(30 * time.Second)
		}
		p.Rig.WaitIdle(20 * time.Second)
		p.Rig.Log.Take()
	}
	if len(pcs) != 1 {
		r.Inconclusive("proxy saw %d connections for one client", len(pcs))
		settle() // nothing of this case may reach the next one
		return viol
	}
	if !pcs[0].Wait(30 * time.Second) {
		r.Inconclusive("proxy connection did not finish")
		settle()
		return viol
	}
	p.Rig.WaitIdle(20 * time.Second)
	evs, _ := p.Rig.Log.Take()
	var starts []Ev
	for _, e := range evs {
		if e.Kind == "start" {
			starts = append(starts, e)
		}
	}
	if len(starts) != len(exps) {
		report("handler-invocations", fmt.Sprintf("%d calls were made, the handler was invoked %d times", len(exps), len(starts)))
	} else {
		for i, e := range starts {
			if e.NoPar {
				report("call-parameters-changed", fmt.Sprintf("call %s: the handler saw no parameters", exps[i].id))
				continue
			}
			if d := jEqual(exps[i].params, []byte(e.Params)); d != "" {
				report("call-parameters-changed", fmt.Sprintf("call %s: what the handler read differs from what the client passed: %s", exps[i].id, d))
			}
			r.Count("handler_reads_compared", 1)
		}
	}
	if framing {
		c2s, s2c := pcs[0].Captured()
		if class, detail, _ := checkFraming("client->service", c2s, sent); class != "" {
			report(class, detail)
		}
		if class, detail, _ := checkFraming("service->client", s2c, replies); class != "" {
			report(class, detail)
		}
		r.Count("frames_captured", int64(sent+replies))
		r.Count("bytes_captured", int64(len(c2s)+len(s2c)))
		r.Max("max_stream_bytes", int64(max(len(c2s), len(s2c))))
	}
	return viol
}

// c02DeadlineThenPause: the meaning of the stream must not depend on pauses between segments - also when an earlier
// call on the same connection ran under a deadline that has meanwhile passed.
func c02DeadlineThenPause(r *fw.Run, p *Pair, tr string, k int) {
	cs := map[string]interface{}{"what": "deadline-then-pause", "transport": tr}
	p.Proxy.TakeConns()
	p.Rig.Log.Take()
	p.Proxy.Reseg = 0
	conn, err := p.Connect(context.Background())
	if err != nil {
		r.Inconclusive("connect: %v", err)
		return
	}
	defer conn.Close()
	script := func(id string) *CallScript {
		return &CallScript{ID: id, Steps: []Step{{Op: "reply", Raw: json.RawMessage(`{"echo":"` + id + `"}`)}}}
	}
	ctxA, cancelA := context.WithTimeout(context.Background(), 300*time.Millisecond)
	var out json.RawMessage
	errA := conn.Call(ctxA, pairMethod, script(fmt.Sprintf("dl%d", k)), &out)
	cancelA()
	if errA != nil {
		r.Inconclusive("deadline-then-pause: the first call did not complete within its 300 ms deadline (%v)", errA)
		return
	}
	atomic.StoreInt32(&p.Proxy.PauseNextMS, 450)
	done := make(chan error, 1)
	var out2 json.RawMessage
	go func() { done <- conn.Call(context.Background(), pairMethod, script(fmt.Sprintf("bg%d", k)), &out2) }()
	select {
	case err := <-done:
		if err != nil {
			r.Violation("C02 pause-inside-message", fmt.Sprintf("transport %s: a reply whose two halves arrived 450 ms apart was not received: Call returned %T %v (an earlier call on the connection had a 300 ms deadline)", tr, err, err), cs)
		} else if d := jEqual([]byte(fmt.Sprintf(`{"echo":"bg%d"}`, k)), out2); d != "" {
			r.Violation("C02 pause-inside-message", "reply changed: "+d, cs)
		}
	case <-time.After(30 * time.Second):
		r.Violation("C02 pause-inside-message", fmt.Sprintf("transport %s: a reply whose two halves arrived 450 ms apart was not received within 30 s", tr), cs)
	}
	atomic.StoreInt32(&p.Proxy.PauseNextMS, 0)
	r.Count("pause_inside_message_cases", 1)
	r.Case(fw.Hash("dlpause", tr, fmt.Sprint(k)), true)
}

// c03Pipelined: two calls are sent before the first reply is read; each receive function yields its own call's replies.
func c03Pipelined(r *fw.Run, p *Pair, jg *JGen, k int) {
	cs := map[string]interface{}{"what": "two calls in flight on one connection (Send, Send, receive..., receive...)", "transport": p.Transport}
	p.Proxy.TakeConns()
	p.Rig.Log.Take()
	p.Proxy.Reseg = int32([]int{0, 2}[k%2])
	ctx, cancel := context.WithTimeout(context.Background(), 25*time.Second)
	defer cancel()
	conn, err := p.Connect(ctx)
	if err != nil {
		r.Inconclusive("connect: %v", err)
		return
	}
	defer closeBounded(conn, 15*time.Second)
	mk := func(id string, n int) (*CallScript, []string) {
		sc := &CallScript{ID: id}
		var want []string
		for i := 0; i < n; i++ {
			w := fmt.Sprintf(`{"call":%q,"i":%d,"v":%s}`, id, i, jg.Value(2))
			want = append(want, w)
			sc.Steps = append(sc.Steps, Step{Op: "reply", Cont: i < n-1, Raw: json.RawMessage(w)})
		}
		return sc, want
	}
	na, nb := 1+k%4, 1+(k/2)%3
	sa, wa := mk(fmt.Sprintf("pa%d", k), na)
	sb, wb := mk(fmt.Sprintf("pb%d", k), nb)
	ra, err := conn.Send(ctx, pairMethod, sa, varlink.More)
	if err != nil {
		r.Violation("C03 send-failed", fmt.Sprintf("transport %s: %v", p.Transport, err), cs)
		return
	}
	rb, err := conn.Send(ctx, pairMethod, sb, varlink.More)
	if err != nil {
		r.Violation("C03 send-failed", fmt.Sprintf("transport %s: second Send while the first call's replies are unread: %v", p.Transport, err), cs)
		return
	}
	for ci, set := range []struct {
		recv func(context.Context, interface{}) (uint64, error)
		want []string
	}{{ra, wa}, {rb, wb}} {
		for i, w := range set.want {
			var out json.RawMessage
			fl, err := set.recv(ctx, &out)
			if err != nil {
				r.Violation("C03 receive-failed", fmt.Sprintf("transport %s: two calls in flight; call %d reply %d of %d: receive returned %T %v", p.Transport, ci, i, len(set.want), err, err), cs)
				return
			}
			if d := jEqualParams([]byte(w), out); d != "" {
				r.Violation("C03 reply-parameters-changed", fmt.Sprintf("transport %s: two calls in flight; call %d reply %d: %s", p.Transport, ci, i, d), cs)
			}
			if (fl&varlink.Continues != 0) == (i == len(set.want)-1) {
				r.Violation("C03 continues-indication", fmt.Sprintf("transport %s: two calls in flight; call %d reply %d of %d: flags %d", p.Transport, ci, i, len(set.want), fl), cs)
			}
		}
	}
	r.Count("pipelined_call_pairs", 1)
	r.Case(fw.Hash("pipelined", p.Transport, fmt.Sprint(k)), true)
}

// pairInterleaved: k calls on one connection whose Sends and receives interleave in a seeded order (replies are always
// taken in call order, each through its own receive function): S0 S1 R0 S2 R1 R2 ... The proxy forwards as read,
// in random pieces, or coalesced (everything the service sends within 3 ms in one segment).
func pairInterleaved(r *fw.Run, p *Pair, prop string, jg *JGen, k int) {
	rng := rand.New(rand.NewSource(r.Seed*131 + int64(k)))
	reseg := []int{3, 0, 3, 2}[k%4]
	cs := map[string]interface{}{"what": "interleaved Sends and receives on one connection", "transport": p.Transport, "reseg": reseg, "k": k}
	p.Proxy.TakeConns()
	p.Rig.Log.Take()
	p.Proxy.Reseg = int32(reseg)
	defer func() { p.Proxy.Reseg = 0 }()
	ctx, cancel := context.WithTimeout(context.Background(), 25*time.Second)
	defer cancel()
	conn, err := p.Connect(ctx)
	if err != nil {
		r.Inconclusive("connect: %v", err)
		return
	}
	defer closeBounded(conn, 15*time.Second)
	ncalls := 2 + rng.Intn(4)
	type pend struct {
		recv func(context.Context, interface{}) (uint64, error)
		want []string
		got  int
	}
	var scripts []*CallScript
	var wants [][]string
	for c := 0; c < ncalls; c++ {
		id := fmt.Sprintf("il%d.%d", k, c)
		sc := &CallScript{ID: id}
		var want []string
		n := 1 + rng.Intn(3)
		for i := 0; i < n; i++ {
			w := fmt.Sprintf(`{"call":%q,"i":%d,"v":%s}`, id, i, jg.Value(1))
			want = append(want, w)
			sc.Steps = append(sc.Steps, Step{Op: "reply", Cont: i < n-1, Raw: json.RawMessage(w)})
		}
		scripts = append(scripts, sc)
		wants = append(wants, want)
	}
	var queue []*pend
	sent := 0
	order := ""
	for sent < ncalls || len(queue) > 0 {
		doSend := sent < ncalls && (len(queue) == 0 || rng.Intn(2) == 0)
		if doSend {
			recv, err := conn.Send(ctx, pairMethod, scripts[sent], varlink.More)
			if err != nil {
				r.Violation(prop+" send-failed", fmt.Sprintf("transport %s, order %s: Send #%d with %d earlier calls unanswered: %v", p.Transport, order, sent, len(queue), err), cs)
				return
			}
			queue = append(queue, &pend{recv: recv, want: wants[sent]})
			order += fmt.Sprintf("S%d ", sent)
			sent++
			continue
		}
		q := queue[0]
		ci := sent - len(queue)
		order += fmt.Sprintf("R%d ", ci)
		var out json.RawMessage
		fl, err := q.recv(ctx, &out)
		if err != nil {
			r.Violation(prop+" receive-failed", fmt.Sprintf("transport %s, proxy mode %d, order %s: call %d reply %d of %d: receive returned %T %v", p.Transport, reseg, order, ci, q.got, len(q.want), err, err), cs)
			return
		}
		if d := jEqualParams([]byte(q.want[q.got]), out); d != "" {
			r.Violation(prop+" reply-parameters-changed", fmt.Sprintf("transport %s, proxy mode %d, order %s: call %d reply %d: %s", p.Transport, reseg, order, ci, q.got, d), cs)
			return
		}
		if (fl&varlink.Continues != 0) == (q.got == len(q.want)-1) {
			r.Violation(prop+" continues-indication", fmt.Sprintf("transport %s, order %s: call %d reply %d of %d: flags %d", p.Transport, order, ci, q.got, len(q.want), fl), cs)
		}
		q.got++
		if q.got == len(q.want) {
			queue = queue[1:]
		}
	}
	r.Distinct("interleaving_orders", order)
	r.Count("interleaved_connections", 1)
	r.Case(fw.Hash("interleaved", p.Transport, fmt.Sprint(k)), true)
}

// c03Monitor: a handler that sends a continues-reply and then waits for an event; the client must receive that reply
// while the handler is still waiting.
func c03Monitor(r *fw.Run, p *Pair, k int) {
	cs := map[string]interface{}{"what": "continues-reply, then the handler waits", "transport": p.Transport}
	p.Proxy.TakeConns()
	p.Rig.Log.Take()
	p.Proxy.Reseg = 0
	ctx, cancel := context.WithTimeout(context.Background(), 25*time.Second)
	defer cancel()
	conn, err := p.Connect(ctx)
	if err != nil {
		r.Inconclusive("connect: %v", err)
		return
	}
	defer closeBounded(conn, 15*time.Second)
	wname := fmt.Sprintf("wait:%s:%d:%d", p.Transport, k, r.Seq())
	defer p.Rig.Release(wname)
	nfirst := 1 + k%3
	sc := &CallScript{ID: fmt.Sprintf("mon%d", k)}
	for i := 0; i < nfirst; i++ {
		sc.Steps = append(sc.Steps, Step{Op: "reply", Cont: true, Raw: json.RawMessage(fmt.Sprintf(`{"event":%d}`, i))})
	}
	sc.Steps = append(sc.Steps, Step{Op: "hook", Name: wname}, Step{Op: "reply", Raw: json.RawMessage(`{"event":"last"}`)})
	recv, err := conn.Send(ctx, pairMethod, sc, varlink.More)
	if err != nil {
		r.Violation("C03 send-failed", fmt.Sprintf("transport %s: %v", p.Transport, err), cs)
		return
	}
	for i := 0; i < nfirst; i++ {
		rctx, rcancel := context.WithTimeout(ctx, 10*time.Second)
		var out json.RawMessage
		fl, err := recv(rctx, &out)
		rcancel()
		if err != nil {
			r.Violation("C03 reply-withheld", fmt.Sprintf("transport %s: the handler sent %d continues-replies and is now waiting for an event; receive #%d did not yield within 10 s: %v", p.Transport, nfirst, i, err), cs)
			return
		}
		if d := jEqualParams([]byte(fmt.Sprintf(`{"event":%d}`, i)), out); d != "" || fl&varlink.Continues == 0 {
			r.Violation("C03 reply-parameters-changed", fmt.Sprintf("transport %s: monitor reply %d: %s flags=%d", p.Transport, i, d, fl), cs)
		}
	}
	p.Rig.Release(wname)
	var out json.RawMessage
	fl, err := recv(ctx, &out)
	if err != nil || fl&varlink.Continues != 0 || jEqualParams([]byte(`{"event":"last"}`), out) != "" {
		r.Violation("C03 reply-parameters-changed", fmt.Sprintf("transport %s: last monitor reply: err=%v flags=%d out=%s", p.Transport, err, fl, clip(string(out), 80)), cs)
	}
	r.Count("monitor_style_calls", 1)
	r.Case(fw.Hash("monitor", p.Transport, fmt.Sprint(k)), true)
}

// closeBounded closes a client connection; false if Close did not return within the bound.
func closeBounded(conn *varlink.Connection, bound time.Duration) bool {
	ch := make(chan struct{})
	// closed twice, as by a caller that defers Close and also closes explicitly (the second call may return an error)
	go func() { conn.Close(); conn.Close(); close(ch) }()
	select {
	case <-ch:
		return true
	case <-time.After(bound):
		return false
	}
}

// c03LateRead: the service replies and then ends the connection (its handler returns an error); a client that reads
// a little late must still get the reply - on every transport, also when the bridge process has already exited.
func c03LateRead(r *fw.Run, p *Pair, k int) {
	cs := map[string]interface{}{"what": "reply, then the service closes; the client reads late", "transport": p.Transport}
	p.Proxy.TakeConns()
	p.Rig.Log.Take()
	p.Proxy.Reseg = 0
	ctx, cancel := context.WithTimeout(context.Background(), 20*time.Second)
	defer cancel()
	conn, err := p.Connect(ctx)
	if err != nil {
		r.Inconclusive("connect: %v", err)
		return
	}
	want := fmt.Sprintf(`{"last":"words %d","n":12345678901234567890}`, k)
	sc := &CallScript{ID: fmt.Sprintf("late%d", k), Fail: true, Steps: []Step{{Op: "reply", Cont: true, Raw: json.RawMessage(`{"i":0}`)}, {Op: "reply", Raw: json.RawMessage(want)}}}
	recv, err := conn.Send(ctx, pairMethod, sc, varlink.More)
	if err != nil {
		r.Violation("C03 send-failed", fmt.Sprintf("transport %s: %v", p.Transport, err), cs)
		closeBounded(conn, 15*time.Second)
		return
	}
	time.Sleep(time.Duration(20+10*(k%4)) * time.Millisecond)
	for i, w := range []string{`{"i":0}`, want} {
		var out json.RawMessage
		fl, err := recv(ctx, &out)
		if err != nil {
			r.Violation("C03 reply-lost-when-peer-closed", fmt.Sprintf("transport %s: the handler sent 2 replies and then ended the connection; the client read %d ms later and reply %d failed with %T %v", p.Transport, 20+10*(k%4), i, err, err), cs)
			break
		}
		if d := jEqualParams([]byte(w), out); d != "" {
			r.Violation("C03 reply-parameters-changed", fmt.Sprintf("transport %s: late read, reply %d: %s", p.Transport, i, d), cs)
		}
		if (fl&varlink.Continues != 0) != (i == 0) {
			r.Violation("C03 continues-indication", fmt.Sprintf("transport %s: late read, reply %d: flags %d", p.Transport, i, fl), cs)
		}
	}
	if !closeBounded(conn, 15*time.Second) {
		r.Violation("C03 close-hangs", fmt.Sprintf("transport %s: Connection.Close did not return within 15 s", p.Transport), cs)
	}
	r.Count("late_reads_after_service_close", 1)
	r.Case(fw.Hash("late", p.Transport, fmt.Sprint(k)), true)
}

func genPairCalls(rng *rand.Rand, jg *JGen, tag string, n int, depth int) []PairCall {
	var out []PairCall
	for i := 0; i < n; i++ {
		pc := PairCall{ID: fmt.Sprintf("%s.%d", tag, i), ParamKind: []string{"raw", "raw", "map", "struct"}[rng.Intn(4)]}
		switch rng.Intn(5) {
		case 0:
			pc.Pad = jg.Object(depth, 0)
		case 1:
			pc.Pad = jg.Value(depth)
		case 2:
			pc.Pad = "{}"
		case 3:
			pc.Pad = `{"n":` + jg.Number() + `,"m":null,"s":` + jg.StringLit() + `}`
		}
		switch rng.Intn(4) {
		case 3:
			if rng.Intn(2) == 0 {
				pc.Style = "oneway"
				if rng.Intn(3) == 0 {
					pc.BigPad = 150000 + rng.Intn(400000) // larger than a socket or pipe buffer: the write takes a moment
				}
				break
			}
			fallthrough
		case 0:
			pc.Style = "call"
			pc.Replies = []string{jg.Object(depth, 0)}
		case 1:
			pc.Style = "send"
			pc.Replies = []string{[]string{"{}", jg.Object(depth, 1), `{"a":null}`}[rng.Intn(3)]}
		default:
			pc.Style = "more"
			k := []int{1, 1, 2, 3, 5, 9, 17}[rng.Intn(7)]
			if k > 1 && k <= 5 && rng.Intn(6) == 0 {
				pc.GapMS = 6 + rng.Intn(20)
			}
			for j := 0; j < k; j++ {
				pc.Replies = append(pc.Replies, fmt.Sprintf(`{"i":%d,"v":%s}`, j, jg.Value(depth-1)))
			}
		}
		// now and then a reply without a parameters member at all (what Reply(ctx, nil) puts on the wire), at any place of a sequence
		for j := range pc.Replies {
			switch rng.Intn(16) {
			case 0, 1:
				pc.Replies[j] = ""
			case 2:
				pc.Replies[j] = "<nil-raw>"
			case 3:
				pc.Replies[j] = "<nilptr-raw>"
			}
		}
		out = append(out, pc)
	}
	return out
}

func runC03(r *fw.Run) {
	rng := rand.New(rand.NewSource(r.Seed*17 + 3))
	jg := &JGen{R: rng}
	ncases := r.Pick(400, 12000)
	for ti, tr := range pairTransports {
		p, err := newPair(r, tr, RigOpt{Ifaces: c01Ifaces, UseListen: ti%2 == 1})
		if err != nil {
			rigFailure(r, "C03", err, tr)
			continue
		}
		for k := 0; k < ncases; k++ {
			c := &pairCase{Transport: tr, Reseg: []int{0, 0, 2, 1}[k%4], Calls: genPairCalls(rng, jg, fmt.Sprintf("%s%d", tr[:1], k), 1+rng.Intn(5), 3)}
			r.Journal(0, c)
			runPairCase(r, p, "C03", c, false)
			r.Done(0)
			b, _ := json.Marshal(c.Calls)
			r.Case(fw.Hash(tr, string(b)), true)
			if k%50 == 0 {
				r.Sample(c)
			}
		}
		for k := 0; k < r.Pick(12, 100) && r.ViolationCount() <= 12; k++ {
			c03LateRead(r, p, k)
			c03Pipelined(r, p, jg, k)
			c03Monitor(r, p, k)
			pairInterleaved(r, p, "C03", jg, 4*k)
			pairInterleaved(r, p, "C03", jg, 4*k+1)
		}
		r.Distinct("transports", tr)
		if err, ok := p.Close(); !ok {
			r.Violation("C03 no-return-after-shutdown", "serving call did not return after Shutdown", tr)
		} else if err != nil {
			r.Note("serving call returned %v", err)
		}
	}
	// numbers beyond 2^53 seen?
	r.Count("number_spellings_in_pool", int64(len(jNumbers)))
}

func replayPair(prop string, framing bool) func(r *fw.Run, raw json.RawMessage) {
	return func(r *fw.Run, raw json.RawMessage) {
		var c pairCase
		if json.Unmarshal(raw, &c) != nil || len(c.Calls) == 0 {
			// one of the side workloads (recorded as {"what": ..., "transport": ..., "k": ...}): run them again on that transport
			var side struct {
				What      string `json:"what"`
				Transport string `json:"transport"`
				K         int    `json:"k"`
			}
			if json.Unmarshal(raw, &side) != nil || side.What == "" || side.Transport == "" {
				r.Note("replay: case not understood")
				return
			}
			p, err := newPair(r, side.Transport, RigOpt{Ifaces: c01Ifaces})
			if err != nil {
				rigFailure(r, prop, err, side.Transport)
				return
			}
			jg := &JGen{R: rand.New(rand.NewSource(r.Seed))}
			for k := side.K; k < side.K+8 && r.ViolationCount() == 0; k++ {
				pairInterleaved(r, p, prop, jg, k)
				if prop == "C03" {
					c03LateRead(r, p, k)
					c03Pipelined(r, p, jg, k)
					c03Monitor(r, p, k)
				} else {
					c02DeadlineThenPause(r, p, side.Transport, k)
				}
			}
			r.Case(1, true)
			r.Case(2, true)
			p.Close()
			return
		}
		p, err := newPair(r, c.Transport, RigOpt{Ifaces: c01Ifaces})
		if err != nil {
			rigFailure(r, prop, err, c.Transport)
			return
		}
		for k := 0; k < 3; k++ {
			if runPairCase(r, p, prop, &c, framing) > 0 {
				break
			}
		}
		r.Case(1, true)
		r.Case(2, true)
		p.Close()
	}
}

// ---- C02 ------------------------------------------------------------------------------------

func runC02(r *fw.Run) {
	rng := rand.New(rand.NewSource(r.Seed*19 + 2))
	jg := &JGen{R: rng}
	// Part A: emission and reception through the recording / re-segmenting proxy
	sizes := []int{0, 1, 100, 4000, 4090, 4096, 4100, 8192, 65536, 200000}
	if r.Thorough {
		sizes = append(sizes, 1<<20, 3<<20, 8<<20)
	} else {
		sizes = append(sizes, 1<<20)
	}
	for _, tr := range []string{"unix", "tcp"} {
		p, err := newPair(r, tr, RigOpt{Ifaces: c01Ifaces})
		if err != nil {
			rigFailure(r, "C02", err, tr)
			continue
		}
		n := r.Pick(40, 600)
		for k := 0; k < n; k++ {
			calls := genPairCalls(rng, jg, fmt.Sprintf("f%s%d", tr[:1], k), 1+rng.Intn(6), 4)
			for reseg := 0; reseg < 3; reseg++ {
				c := &pairCase{Transport: tr, Reseg: reseg, Calls: calls}
				r.Journal(0, c)
				runPairCase(r, p, "C02", c, true)
				r.Done(0)
				b, _ := json.Marshal(calls)
				r.Case(fw.Hash(tr, fmt.Sprint(reseg), string(b)), true)
			}
			if k%40 == 0 {
				r.Sample(map[string]interface{}{"transport": tr, "calls": calls})
			}
		}
		// sizes around and far above the 4 KiB reader buffer, deep nesting, in both directions
		for si, sz := range sizes {
			for reseg := 0; reseg < 3; reseg++ {
				if reseg == 1 && sz > 70000 {
					continue // byte-wise forwarding of megabytes only costs time
				}
				calls := []PairCall{
					{Style: "call", ParamKind: "raw", ID: fmt.Sprintf("big%d", si), BigPad: sz, Replies: []string{`{"ok":true}`}},
					{Style: "more", ParamKind: "raw", ID: fmt.Sprintf("bigr%d", si), Replies: []string{`{"i":0}`, `{"i":1}`, `{}`}, BigReply: sz},
					{Style: "send", ParamKind: "map", ID: fmt.Sprintf("nest%d", si), Pad: jg.Nested(1 + si*150), Replies: []string{jg.Nested(1 + si*170)}},
					{Style: "call", ParamKind: "raw", ID: fmt.Sprintf("after%d", si), Replies: []string{`{"after":1}`}},
				}
				c := &pairCase{Transport: tr, Reseg: reseg, Calls: calls}
				r.Journal(0, map[string]interface{}{"what": "big", "size": sz, "reseg": reseg})
				runPairCase(r, p, "C02", c, true)
				r.Done(0)
				r.Case(fw.Hash("big", tr, fmt.Sprint(sz, reseg)), true)
				r.Max("max_frame_bytes", int64(sz))
			}
		}
		// a pause in the middle of a reply that outlasts the deadline of an EARLIER, completed call on the same connection
		for k := 0; k < r.Pick(2, 8); k++ {
			c02DeadlineThenPause(r, p, tr, k)
		}
		// Sends and receives interleaved on one connection, replies coalesced / as read / in random pieces
		for k := 0; k < r.Pick(24, 200) && r.ViolationCount() <= 12; k++ {
			pairInterleaved(r, p, "C02", jg, k)
		}
		// every message length in a window around each multiple of the reader buffer size, both directions
		for _, centre := range []int{4096, 8192, 65536} {
			lo := centre - 110
			if centre > 8192 && !r.Thorough {
				lo = centre - 100
			}
			var calls []PairCall
			for n := lo; n <= centre+10; n++ {
				if centre > 8192 && !r.Thorough && n < centre-75 && n%5 != 0 {
					continue
				}
				calls = append(calls, PairCall{Style: "call", ParamKind: "raw", ID: fmt.Sprintf("x%d", n), ExactPad: n, Replies: []string{"{}"}})
			}
			for reseg := 0; reseg < 3; reseg += 2 {
				c := &pairCase{Transport: tr, Reseg: reseg, Calls: calls}
				r.Journal(0, map[string]interface{}{"what": "exact sizes", "centre": centre, "reseg": reseg})
				runPairCase(r, p, "C02", c, true)
				r.Done(0)
				r.Case(fw.Hash("exact", tr, fmt.Sprint(centre, reseg)), true)
				r.Count("exact_length_messages", int64(2*len(calls)))
			}
		}
		if _, ok := p.Close(); !ok {
			r.Violation("C02 no-return-after-shutdown", "serving call did not return after Shutdown", tr)
		}
	}
	// Part B: reception by the service under exact partitions (raw client, model of C01)
	g, err := newRig(r, RigOpt{Transport: "unix", Ifaces: c01Ifaces})
	if err != nil {
		rigFailure(r, "C02", err, "unix")
		return
	}
	padSizes := []int{0, 3900, 4000, 4050, 4096, 4200, 8100, 8192, 8300, 70000, 300000, 1 << 20}
	nb := r.Pick(30, 300)
	tag := 0
	for k := 0; k < nb; k++ {
		// three connections with different big payloads run concurrently: a reply that is still being written
		// (the reader has not drained it yet) must not be disturbed by another connection's reply
		var bases []*ConnScript
		total := 0
		for c := 0; c < 3; c++ {
			tag++
			base := genConnScript(rng, jg, fmt.Sprintf("b%d", tag), 4, false)
			for i := range base.Calls {
				if base.Calls[i].Script != nil && rng.Intn(2) == 0 {
					base.Calls[i].Script.Pad = json.RawMessage(jg.BigString(padSizes[rng.Intn(len(padSizes))] + rng.Intn(8)))
					total += len(base.Calls[i].Script.Pad)
				}
			}
			bases = append(bases, base)
		}
		for seg := 0; seg < 5; seg++ {
			if seg == 1 && total > 20000 {
				continue
			}
			cc := &c01Case{Transport: "unix", Ifaces: c01Ifaces}
			for _, base := range bases {
				cs := *base
				cs.Seg, cs.SegS = seg, rng.Int63()
				cc.Conns = append(cc.Conns, &cs)
			}
			if k%3 == 1 && (seg == 0 || seg == 2) {
				// other clients die inside a message that is already larger than any internal buffer: what the three judged
				// streams mean must depend on their own bytes only (seeded change C02-O)
				for j := 0; j < 10; j++ {
					half := &CallScript{ID: fmt.Sprintf("half%d.%d.%d", k, seg, j), Pad: json.RawMessage(jg.BigString(9000 + j*7000)), Steps: []Step{{Op: "reply", NoPar: true}}}
					data, _, _ := streamOf([]GenCall{{Method: "org.example.script.Half", Script: half}}, 0)
					cc.Conns = append(cc.Conns, &ConnScript{Stream: data, Cut: 4200 + rng.Intn(len(data)-4300), Hard: j%2 == 0, Seg: []int{0, 2}[j%2], SegS: rng.Int63(), What: "abort-inside-a-large-message"})
				}
				r.Count("aborts_inside_a_large_message", 10)
			}
			r.Journal(0, map[string]interface{}{"what": "service reception, 3 concurrent connections", "seg": seg})
			c01Round(r, g, "C02", cc, true)
			r.Done(0)
			b, _ := json.Marshal(bases[0].Calls)
			r.Case(fw.Hash("recv", fmt.Sprint(seg), fmt.Sprint(fw.HashBytes(b))), true)
			r.Count("service_reception_partitions", 1)
		}
	}
	// many connections whose replies (larger than the socket buffer) are in flight at the same time, read slowly by
	// the clients, on two processors only, so that handlers constantly take over each other's processor while a
	// write is pending
	prevProcs := runtime.GOMAXPROCS(2)
	for k := 0; k < r.Pick(6, 40); k++ {
		cc := &c01Case{Transport: "unix", Ifaces: c01Ifaces}
		for c := 0; c < 12; c++ {
			tag++
			cs := &ConnScript{Seg: 0, SegS: rng.Int63(), SlowUS: 100 + rng.Intn(400)}
			for j := 0; j < 3; j++ {
				sc := &CallScript{ID: fmt.Sprintf("big%d.%d", tag, j), Pad: json.RawMessage(jg.BigString(150000 + rng.Intn(250000))),
					Steps: []Step{{Op: "reply", Cont: true}, {Op: "reply"}}}
				cs.Calls = append(cs.Calls, GenCall{Method: "org.example.script.Big", Flags: "m", Script: sc})
			}
			cc.Conns = append(cc.Conns, cs)
		}
		r.Journal(0, map[string]interface{}{"what": "12 connections with concurrent big replies, slow readers"})
		c01Round(r, g, "C02", cc, true)
		r.Done(0)
		r.Case(fw.Hash("bigconc", fmt.Sprint(k)), true)
		r.Count("concurrent_big_reply_rounds", 1)
	}
	runtime.GOMAXPROCS(prevProcs)
	g.Stop()
	// pauses of 400 ms inside and between frames while the service runs with a 150 ms idle timeout: the pauses must not
	// change the meaning of the stream (an open connection keeps the service from timing out)
	for k := 0; k < r.Pick(1, 4); k++ {
		gt, err := newRig(r, RigOpt{Transport: "unix", Ifaces: c01Ifaces, UseListen: k%2 == 0, Timeout: 150 * time.Millisecond})
		if err != nil {
			r.Inconclusive("rig with idle timeout: %v", err)
			break
		}
		cc := &c01Case{Transport: "unix", UseListen: k%2 == 0, Ifaces: c01Ifaces, AllOpenFirst: true}
		for j := 0; j < 3; j++ {
			tag++
			cs := genConnScript(rng, jg, fmt.Sprintf("p%d", tag), 3, false)
			cs.Seg = 5
			cc.Conns = append(cc.Conns, cs)
		}
		r.Journal(0, map[string]interface{}{"what": "long pauses, service with idle timeout"})
		// no barrier probe afterwards: the service is allowed to time out as soon as the round is over
		c01RoundOpt(r, gt, "C02", cc, true, false)
		r.Done(0)
		r.Count("long_pause_rounds", 1)
		r.Case(fw.Hash("pauses", fmt.Sprint(k)), true)
		select {
		case <-gt.done:
		case <-time.After(20 * time.Second):
			gt.Stop()
		}
		gt.cancel()
	}
	// Part C: reception by the client under exact partitions (scripted raw server, model of C11)
	srv, err := newRawServer(r.WorkDir)
	if err != nil {
		r.Inconclusive("scripted server: %v", err)
		return
	}
	defer srv.Close()
	nc := r.Pick(30, 300)
	for k := 0; k < nc; k++ {
		var S []byte
		var bounds []int
		for i := 0; i < 1+rng.Intn(5); i++ {
			var f string
			switch rng.Intn(4) {
			case 0:
				f = `{"parameters":{"pad":` + jg.BigString(padSizes[rng.Intn(len(padSizes))]+rng.Intn(8)) + `},"continues":true}`
			case 1:
				f = `{"error":"com.example.E","parameters":` + jg.Object(2, 0) + `}`
			default:
				f = `{"parameters":` + jg.Object(3, 0) + `}`
			}
			S = append(append(S, f...), 0)
			bounds = append(bounds, len(S))
		}
		for seg := 0; seg < 5; seg++ {
			if seg == 1 && len(S) > 20000 {
				continue
			}
			c := &c11Case{Stream: S, DieAt: -1, Seg: segFor(rng, seg, len(S), bounds), What: "client reception"}
			r.Journal(0, map[string]interface{}{"what": "client reception", "seg": seg, "len": len(S)})
			before := r.ViolationCount()
			c11One(r, srv, c)
			if r.ViolationCount() > before {
				r.Note("client reception violations are reported with the C11 oracle's signature")
			}
			r.Done(0)
			r.Case(fw.Hash("crecv", fmt.Sprint(seg), fmt.Sprint(fw.HashBytes(S))), true)
			r.Count("client_reception_partitions", 1)
		}
	}
}

func init() {
	fw.Register(&fw.Engine{
		ID: "C03", Level: "exploration",
		Rule: "a case = one client connection making 1..5 calls through a recording proxy to a real Service on one of the four transports (filesystem unix socket, abstract unix socket, TCP, bridge subprocess via NewBridge) in one of four call styles (Call; Send+receive; Send with more + a sequence of 1,2,3,5,9 or 17 replies; Send with oneway under a context that ends as soon as Send has returned, also as the last thing before Close, some with 150-550 KB of parameters). Every receive runs under a context of its own that ends when the receive has returned; some handlers wait 6-25 ms between the replies of a sequence. Parameters are generated JSON objects (integers beyond 2^53 and 2^64, exponents, -0, 1.0e+2, empty objects/arrays, null members, unicode incl. NUL escapes, surrogate pairs, U+2028) passed as json.RawMessage, as map[string]interface{} with json.Number, or as a typed struct; each reply's parameters are generated the same way; one reply in eight has no parameters member at all (Reply(ctx, nil)) and one in eight is a nil json.RawMessage or *json.RawMessage, at any place of a sequence. Oracle: what the handler read (GetParameters into json.RawMessage) is number-exactly JSON-equal to what the client passed; what receive/Call yielded (into *json.RawMessage) is number-exactly JSON-equal to what the handler replied, for every reply of a more-sequence, with Continues set on all but the last. The proxy forwards unchanged, byte-wise, or in random pieces. distinct by hash of transport + calls; all cases non-trivial (>= 1 generated document each way). Also per transport: a reply followed by the service closing the connection, read late by the client; two calls in flight (Send, Send, receive..., receive...); 2-5 calls whose Sends and receives interleave in seeded orders (S0 S1 R0 S2 R1 ...) while the proxy coalesces everything the service sends within 3 ms into one segment; a monitor-style handler that sends continues-replies and then waits for an event (the client must get them while it waits); Connection.Close bounded at 15 s.",
		Assumptions: []string{"number fidelity is asserted for callers that receive into json.RawMessage (decoding into interface{} is the caller's own loss)", "an absent parameters member equals {}"},
		Run:         runC03, Replay: replayPair("C03", false), CrashIsViolation: true, MinEvals: 50,
		QuickTimeout: 15 * time.Minute, ThoroughTimeout: 60 * time.Minute,
	})
	fw.Register(&fw.Engine{
		ID: "C02", Level: "exploration",
		Rule: "Part A (emission + reception through a recording proxy, unix and TCP): generated call lists as in C03 plus message sizes 0..1 MiB (thorough: 8 MiB) placed around the 4096-byte reader buffer, nesting depth up to 2000, strings with escaped NUL, quotes, every C0 control, U+2028/9, non-BMP; each list is run under 3 proxy re-segmentations (as read, one byte per write, random pieces incl. 4095/4096/4097). Wire oracle on both captured directions: the stream ends with NUL, splitting at NUL yields exactly as many chunks as messages were sent, every chunk is valid JSON whose first non-blank byte is '{'; value oracle as in C03, identical under all re-segmentations. Part B (service reception): raw client writes call sequences with pads around 4096/8192/70000 bytes under 5 exact partitions (one write, byte-wise, random cuts with pauses, one write per frame, cuts at 4095/4096/4097/8191/8192/8193); handler log and replies must equal the sequential model. Part C (client reception): scripted raw server plays reply streams under the same 5 partitions; every receive must yield exactly the next frame. distinct by hash of (part, partition, content). Part B runs three connections at a time; Part B2: twelve connections whose replies are larger than the socket buffer, slow readers, GOMAXPROCS(2); a reply whose halves arrive 450 ms apart after an earlier call with a 300 ms deadline; 400 ms pauses inside and between frames against a service with a 150 ms idle timeout. Part A also runs 2-5 calls whose Sends and receives interleave in seeded orders with the replies coalesced into one segment, as read, or in random pieces: each receive must yield the next message of its own call.",
		Assumptions: []string{"callers pass valid UTF-8 (invalid UTF-8 cannot be represented in a Go string that encoding/json round-trips)"},
		Run:         runC02, Replay: replayPair("C02", true), CrashIsViolation: true, MinEvals: 50,
		QuickTimeout: 15 * time.Minute, ThoroughTimeout: 60 * time.Minute,
	})
	_ = strings.TrimSpace
}
