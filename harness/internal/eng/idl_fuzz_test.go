package eng

// Coverage-guided fuzz targets for the IDL parser (thorough tier of C06 and C09; driven by
// runIDLFuzz through `go test -fuzz`). Crashers are written by the Go fuzzer below this
// package's testdata/ directory; the engine reads, reports and removes them.

import (
	"strings"
	"testing"

	"github.com/varlink/go/varlink/idl"
)

func fuzzSeeds(f *testing.F) {
	for i, d := range coreDescs() {
		if i%23 == 0 {
			t, _ := Render(d, i%5, i%numFinalStyles, int64(i), nil)
			f.Add(t)
		}
	}
	for _, s := range c06Sentinels {
		f.Add(s)
	}
	f.Add("interface a.b\nmethod F() -> ()\n#")
	f.Add("#")
	f.Add("interface a.b\ntype T (a: ?[string][](b: int, c: (x, y)))\nmethod M(t: T) -> (r: ?T)\nerror E (why: string)\n")
}

// FuzzIDLTotal: C09 - every input yields a tree or an error (a panic or a hang is a crasher).
func FuzzIDLTotal(f *testing.F) {
	fuzzSeeds(f)
	f.Fuzz(func(t *testing.T, s string) {
		if len(s) > 65536 {
			return
		}
		tree, err := idl.New(s)
		if (tree == nil) == (err == nil) {
			t.Fatalf("C09 result is not exactly one of tree / error (tree=%v err=%v)", tree != nil, err)
		}
	})
}

// FuzzIDLOracle: C06 - whatever is accepted re-prints to the input and satisfies the invariants.
func FuzzIDLOracle(f *testing.F) {
	fuzzSeeds(f)
	f.Fuzz(func(t *testing.T, s string) {
		if len(s) > 65536 {
			return
		}
		tree, err := idl.New(s)
		if class, detail := c06Oracle(s, tree, err); class != "" {
			t.Fatalf("C06 %s: %s", class, strings.SplitN(detail, "\n", 2)[0])
		}
	})
}
