package eng

// C12 - error replies keep their name and parameters end to end (engine e-pair).

import (
	"sync/atomic"
	"sync"
	"bytes"
	"context"
	"encoding/json"
	"fmt"
	"math/rand"
	"strings"
	"time"

	"github.com/varlink/go/varlink"

	"verif/harness/internal/fw"
)

var c12Parts = []string{"a", "b", "com", "example", "org", "varlink", "service", "service2", "servic", "Org", "X", "Failed", "é", "日本", "😀", "", " ", "x y", "\u0000", "A-b", "1", "InvalidParameter", "MethodNotFound"}

var c12Fixed = []string{"org.varlink.service.X", "org.varlink.service.InvalidParameter", "org.varlink.service.", "org.varlink.servic.X", "org.varlink.service2.X", "org.varlink.service.a.X",
	"Org.varlink.service.X", "xorg.varlink.service.X", "org.varlink.service", "org.varlink.serviceX", ".org.varlink.service.X", "org.varlink.service..X", "org.varlink.Service.X", "ORG.VARLINK.SERVICE.X",
	"NoDots", "", ".", "..", ".X", "X.", "a.", "a.b.", "a..b", "a.b", "com.example.Failed", "com.example.é.Ü", "a.b.c.d.e.f.g.h.i.j", " . ", "a. b", "\u0000.\u0000", "com.example." + strings.Repeat("N", 5000)}

func genErrName(rng *rand.Rand) string {
	if rng.Intn(3) == 0 {
		return c12Fixed[rng.Intn(len(c12Fixed))]
	}
	n := 1 + rng.Intn(5)
	parts := make([]string, n)
	for i := range parts {
		parts[i] = c12Parts[rng.Intn(len(c12Parts))]
	}
	s := strings.Join(parts, ".")
	if rng.Intn(6) == 0 {
		s = "org.varlink.service." + s
	}
	return s
}

type c12Case struct {
	Transport string `json:"transport"`
	Name      string `json:"name,omitempty"`
	Params    string `json:"params,omitempty"` // "" = none
	Builtin   string `json:"builtin,omitempty"`
	Arg       string `json:"arg,omitempty"`
	// Flags: "" | m (the call sets more) | o (the call is oneway: nothing may come back, the refusal of a bad name still reaches the handler)
	Flags string `json:"flags,omitempty"`
}

// c12Model: DESIGN A.4. refused / accepted / unspecified (empty member part).
func c12Model(name string) string {
	r := strings.LastIndex(name, ".")
	if r <= 0 {
		return "refused"
	}
	if name[:r] == "org.varlink.service" {
		return "refused"
	}
	if name[r+1:] == "" {
		return "unspecified"
	}
	return "accepted"
}

// c12Oneway: the same handler behaviour under a oneway call. Nothing comes back for the call; a following GetInfo gets its
// own reply; a name that must be refused is refused (the handler sees the error), one that is accepted returns nil.
func c12Oneway(r *fw.Run, p *Pair, c *c12Case) {
	report := func(class, detail string) {
		r.Violation("C12 "+class, fmt.Sprintf("transport %s, oneway call: %s", c.Transport, detail), c)
	}
	p.Proxy.TakeConns()
	p.Rig.Log.Take()
	ctx, cancel := context.WithTimeout(context.Background(), 60*time.Second)
	defer cancel()
	conn, err := p.Connect(ctx)
	if err != nil {
		r.Inconclusive("connect: %v", err)
		return
	}
	st := Step{Op: "error", Name: c.Name, NoPar: c.Params == "", Raw: json.RawMessage(c.Params)}
	cs := &CallScript{ID: "e", Steps: []Step{st, {Op: "reply", Raw: json.RawMessage(`{"final":true}`)}}}
	if _, err := conn.Send(ctx, "org.example.script.Fail", cs, varlink.Oneway); err != nil {
		report("send-failed", err.Error())
		conn.Close()
		return
	}
	var vendor string
	berr := conn.GetInfo(ctx, &vendor, nil, nil, nil, nil)
	conn.Close()
	pcs := p.Proxy.TakeConns()
	if len(pcs) != 1 || !pcs[0].Wait(30*time.Second) {
		r.Inconclusive("proxy capture incomplete")
		return
	}
	p.Rig.WaitIdle(20 * time.Second)
	evs, _ := p.Rig.Log.Take()
	stepRes := ""
	for _, e := range evs {
		if e.Kind == "step" && e.Step == 0 && e.CallID == "e" {
			stepRes = e.Res
		}
	}
	_, s2c := pcs[0].Captured()
	frames, _ := splitFrames(s2c)
	if berr != nil || len(frames) != 1 {
		report("oneway-answered", fmt.Sprintf("ReplyError(%q) under a oneway call: the following GetInfo returned %v and %d frames came back (expected its single reply): %q", c.Name, berr, len(frames), clip(string(s2c), 300)))
		return
	}
	want := c12Model(c.Name)
	switch {
	case want == "refused" && stepRes != "err":
		report("refused-name-not-refused", fmt.Sprintf("error name %q must be refused: ReplyError returned %q to the handler", c.Name, stepRes))
	case want == "accepted" && stepRes != "nil":
		report("valid-name-refused", fmt.Sprintf("error name %q is of the form <interface>.<Name> outside org.varlink.service but ReplyError returned an error", c.Name))
	}
	r.Count("oneway_error_replies", 1)
}

func c12One(r *fw.Run, p *Pair, c *c12Case) {
	report := func(class, detail string) {
		r.Violation("C12 "+class, fmt.Sprintf("transport %s: %s", c.Transport, detail), c)
	}
	if c.Flags == "o" {
		c12Oneway(r, p, c)
		return
	}
	p.Proxy.TakeConns()
	p.Rig.Log.Take()
	ctx, cancel := context.WithTimeout(context.Background(), 60*time.Second)
	defer cancel()
	conn, err := p.Connect(ctx)
	if err != nil {
		r.Inconclusive("connect: %v", err)
		return
	}
	var st Step
	if c.Builtin != "" {
		st = Step{Op: "builtin", Name: c.Builtin, Arg: c.Arg}
	} else {
		st = Step{Op: "error", Name: c.Name, NoPar: c.Params == "", Raw: json.RawMessage(c.Params)}
	}
	cs := &CallScript{ID: "e", Steps: []Step{st, {Op: "reply", Raw: json.RawMessage(`{"final":true}`)}}}
	var sendFlags uint64
	if c.Flags == "m" {
		sendFlags = varlink.More
		// a continues reply first, then a pause, then the error: the error ends a sequence that was under way
		cs.Steps = append([]Step{{Op: "reply", Cont: true, Raw: json.RawMessage(`{"first":true}`)}, {Op: "sleep", N: 8}}, cs.Steps...)
	}
	recv, err := conn.Send(ctx, "org.example.script.Fail", cs, sendFlags)
	if err != nil {
		report("send-failed", err.Error())
		conn.Close()
		return
	}
	if c.Flags == "m" {
		// every receive of the sequence runs under a context of its own that ends when the receive has returned
		var out0 json.RawMessage
		c0, cancel0 := context.WithCancel(ctx)
		fl0, err0 := recv(c0, &out0)
		cancel0()
		if err0 != nil || fl0&varlink.Continues == 0 || jEqual([]byte(`{"first":true}`), out0) != "" {
			report("stream-out-of-step", fmt.Sprintf("the continues reply in front of the error was received as flags=%d out=%s err=%v", fl0, clip(string(out0), 80), err0))
			conn.Close()
			return
		}
	}
	var out1 json.RawMessage
	var err1 error
	c1, cancel1 := context.WithCancel(ctx)
	defer cancel1()
	if pn := catch(func() { _, err1 = recv(c1, &out1); cancel1() }); pn != "" {
		report("panic", pn)
		conn.Close()
		return
	}
	var err2 error
	var out2 json.RawMessage
	if err1 != nil {
		// the error was delivered; the final reply follows
		if pn := catch(func() { _, err2 = recv(ctx, &out2) }); pn != "" {
			report("panic", pn)
			conn.Close()
			return
		}
		if err2 != nil || jEqual([]byte(`{"final":true}`), out2) != "" {
			report("stream-out-of-step", fmt.Sprintf("after the error reply the final reply did not arrive intact: err=%v out=%s", err2, clip(string(out2), 100)))
		}
	} else if jEqual([]byte(`{"final":true}`), out1) != "" {
		report("stream-out-of-step", fmt.Sprintf("first receive succeeded with %s, which is not the final reply", clip(string(out1), 200)))
	}
	conn.Close()
	pcs := p.Proxy.TakeConns()
	if len(pcs) != 1 || !pcs[0].Wait(30*time.Second) {
		r.Inconclusive("proxy capture incomplete")
		return
	}
	p.Rig.WaitIdle(20 * time.Second)
	evs, _ := p.Rig.Log.Take()
	// under a call with more the error is preceded by a continues reply and a pause: step 2, one more frame on the wire
	stepOff, frameOff := 0, 0
	if c.Flags == "m" {
		stepOff, frameOff = 2, 1
	}
	stepRes := ""
	for _, e := range evs {
		if e.Kind == "step" && e.Step == stepOff {
			stepRes = e.Res
		}
	}
	_, s2c := pcs[0].Captured()
	frames, _ := splitFrames(s2c)
	delivered := err1 != nil

	if c.Builtin != "" {
		if stepRes != "nil" || !delivered {
			report("builtin-error-not-sent", fmt.Sprintf("Reply%s(%q): handler saw %q, client got err=%v", c.Builtin, c.Arg, stepRes, err1))
			return
		}
		got, ok := "", false
		switch e := err1.(type) {
		case *varlink.InterfaceNotFound:
			got, ok = e.Interface, c.Builtin == "InterfaceNotFound"
		case *varlink.MethodNotFound:
			got, ok = e.Method, c.Builtin == "MethodNotFound"
		case *varlink.MethodNotImplemented:
			got, ok = e.Method, c.Builtin == "MethodNotImplemented"
		case *varlink.InvalidParameter:
			got, ok = e.Parameter, c.Builtin == "InvalidParameter"
		}
		if !ok {
			report("wrong-typed-error", fmt.Sprintf("Reply%s(%q): the client got %T %v", c.Builtin, c.Arg, err1, err1))
		} else if got != c.Arg {
			report("typed-error-field-changed", fmt.Sprintf("Reply%s(%q): the client's typed error carries %q", c.Builtin, c.Arg, got))
		}
		r.Distinct("builtin_kinds", c.Builtin)
		return
	}

	want := c12Model(c.Name)
	r.Count(want, 1)
	switch {
	case want == "refused" && (stepRes != "err" || delivered || len(frames) != 1+frameOff):
		report("refused-name-not-refused", fmt.Sprintf("error name %q must be refused without anything written: handler saw %q, client got err=%v, %d frames on the wire: %q", c.Name, stepRes, err1, len(frames), clip(string(s2c), 300)))
		return
	case want == "accepted" && stepRes != "nil":
		report("valid-name-refused", fmt.Sprintf("error name %q is of the form <interface>.<Name> outside org.varlink.service but ReplyError returned an error", c.Name))
		return
	}
	if stepRes == "err" {
		// refused (by the model or, for the unspecified class, by the library): nothing may have been written
		if delivered || len(frames) != 1+frameOff {
			report("refused-but-written", fmt.Sprintf("ReplyError(%q) returned an error to the handler but the client got err=%v and %d frames were written", c.Name, err1, len(frames)))
		}
		return
	}
	// accepted: delivered unchanged
	if !delivered || len(frames) != 2+frameOff {
		report("accepted-but-not-delivered", fmt.Sprintf("ReplyError(%q) returned nil but the client got err=%v (%d frames on the wire)", c.Name, err1, len(frames)))
		return
	}
	e, ok := err1.(*varlink.Error)
	if !ok {
		report("wrong-error-type", fmt.Sprintf("error name %q: the client got %T %v, expected *varlink.Error", c.Name, err1, err1))
		return
	}
	if e.Name != c.Name {
		report("error-name-changed", fmt.Sprintf("sent %q, the client got %q", c.Name, e.Name))
	}
	if e.Error() != c.Name {
		report("error-name-changed", fmt.Sprintf("sent %q, Error() says %q", c.Name, e.Error()))
	}
	rp, _ := e.Parameters.(*json.RawMessage)
	if c.Params == "" {
		if rp != nil && len(bytes.TrimSpace(*rp)) > 0 && string(bytes.TrimSpace(*rp)) != "null" {
			report("error-parameters-appeared", fmt.Sprintf("error %q sent without parameters, the client got %s", c.Name, clip(string(*rp), 200)))
		}
	} else {
		if rp == nil {
			report("error-parameters-lost", fmt.Sprintf("error %q sent with parameters %s, the client got none", c.Name, clip(c.Params, 200)))
		} else if d := jEqual([]byte(c.Params), *rp); d != "" {
			report("error-parameters-changed", fmt.Sprintf("error %q: %s", c.Name, d))
		}
	}
	// and the name on the wire
	var wire struct {
		Error string `json:"error"`
	}
	if json.Unmarshal(frames[frameOff], &wire) != nil || wire.Error != c.Name {
		report("error-name-on-wire", fmt.Sprintf("sent %q, wire frame is %s", c.Name, clip(string(frames[frameOff]), 300)))
	}
}

// c12Hangup: a client (straight to the service, not through the proxy) sends a call and hangs up at once; the handler
// pauses and then sends an error reply with a recognisable payload into the dead connection, so that reply's write fails.
// Nothing of it may surface in what the next clients receive (seeded change C12-O: a pooled encode buffer that keeps the
// unsent message when the write fails). The case that follows is judged as always.
func c12Hangup(r *fw.Run, p *Pair, k int) {
	cs := &CallScript{ID: fmt.Sprintf("hung%d", k), Steps: []Step{{Op: "sleep", N: 12},
		{Op: "error", Name: "org.example.script.HungUp", Raw: json.RawMessage(fmt.Sprintf(`{"stale":"reply %d for a client that has gone"}`, k))}}}
	data, _, _ := streamOf([]GenCall{{Method: "org.example.script.Fail", Script: cs}}, 0)
	c, _, err := dialRaw(p.Rig.Net, p.Rig.Dial)
	if err != nil {
		return
	}
	c.SetWriteDeadline(time.Now().Add(5 * time.Second))
	c.Write(data)
	dl := time.Now().Add(5 * time.Second)
	for !p.Rig.Log.hasStart(cs.ID) && time.Now().Before(dl) {
		time.Sleep(200 * time.Microsecond)
	}
	c.Close()
	time.Sleep(15 * time.Millisecond)
	p.Rig.WaitIdle(10 * time.Second)
	r.Count("replies_into_a_connection_the_client_had_closed", 1)
}

// c12Concurrent: eight clients on eight connections of one service, each calling 250 (thorough 2 500) times a method whose
// handler sends an error reply with one of five names (each client follows its own sequence; with and without parameters): every Call must return
// exactly its own name and parameters, whatever the other connections are sending at that moment (seeded change C12-P: a
// process-wide cache of the last encoded error frame, read in two steps).
func c12Concurrent(r *fw.Run, p *Pair) {
	const clients = 8
	n := r.Pick(250, 2500)
	var wg sync.WaitGroup
	var calls int64
	for w := 0; w < clients; w++ {
		wg.Add(1)
		go func(w int) {
			defer wg.Done()
			ctx, cancel := context.WithTimeout(context.Background(), 120*time.Second)
			defer cancel()
			conn, err := varlink.NewConnection(ctx, p.Rig.Addr)
			if err != nil {
				r.Inconclusive("concurrent error replies: connect: %v", err)
				return
			}
			defer conn.Close()
			for k := 0; k < n; k++ {
				// five names shared by all clients; a client repeats a name four times before it moves on, so the same name is
				// often sent twice in a row process-wide while other connections send other names in between
				name := fmt.Sprintf("org.example.conc.E%d", (w+k/4)%5)
				par := ""
				if k%4 == 3 {
					par = fmt.Sprintf(`{"who":%d,"k":%d}`, w, k)
				}
				cs := &CallScript{ID: fmt.Sprintf("cc%d.%d", w, k), Steps: []Step{{Op: "error", Name: name, NoPar: par == "", Raw: json.RawMessage(par)}}}
				var out json.RawMessage
				err := conn.Call(ctx, "org.example.script.Fail", cs, &out)
				atomic.AddInt64(&calls, 1)
				e, ok := err.(*varlink.Error)
				cse := map[string]interface{}{"what": "concurrent error replies", "client": w, "call": k, "name": name, "params": par}
				if !ok {
					r.Violation("C12 wrong-error-type", fmt.Sprintf("client %d of %d concurrent ones, call %d: handler sent error %q, Call returned %T %v", w, clients, k, name, err, err), cse)
					return
				}
				if e.Name != name {
					r.Violation("C12 error-name-changed", fmt.Sprintf("client %d of %d concurrent ones, call %d: handler sent error %q, the client got %q", w, clients, k, name, e.Name), cse)
					return
				}
				rp, _ := e.Parameters.(*json.RawMessage)
				if par == "" {
					if rp != nil && len(bytes.TrimSpace(*rp)) > 0 && string(bytes.TrimSpace(*rp)) != "null" {
						r.Violation("C12 error-parameters-appeared", fmt.Sprintf("client %d, call %d: error %q sent without parameters, the client got %s", w, k, name, clip(string(*rp), 200)), cse)
						return
					}
				} else if rp == nil || jEqual([]byte(par), *rp) != "" {
					r.Violation("C12 error-parameters-changed", fmt.Sprintf("client %d, call %d: error %q sent with %s, the client got %v", w, k, name, par, rp), cse)
					return
				}
			}
		}(w)
	}
	wg.Wait()
	p.Rig.WaitIdle(20 * time.Second)
	p.Rig.Log.Take()
	r.Count("concurrent_error_replies", calls)
	r.Case(fw.Hash("concurrent-errors"), true)
}

func runC12(r *fw.Run) {
	rng := rand.New(rand.NewSource(r.Seed*23 + 12))
	jg := &JGen{R: rng}
	n := r.Pick(4000, 100000)
	transports := []string{"unix", "tcp"}
	if r.Thorough {
		transports = pairTransports
	}
	var pairs []*Pair
	for _, tr := range transports {
		p, err := newPair(r, tr, RigOpt{Ifaces: c01Ifaces})
		if err != nil {
			rigFailure(r, "C12", err, tr)
			return
		}
		pairs = append(pairs, p)
	}
	args := []string{"", "a.b", "Méthod", "日本語😀", "x\u0000y", "with \"quotes\" and \\", "<&> ", strings.Repeat("long", 3000), " ", "org.varlink.service"}
	for k := 0; k < n; k++ {
		p := pairs[k%len(pairs)]
		c := &c12Case{Transport: p.Transport}
		if k < len(c12Fixed)*2 {
			c.Name = c12Fixed[k/2]
		} else if k%7 == 0 {
			c.Builtin = []string{"InterfaceNotFound", "MethodNotFound", "MethodNotImplemented", "InvalidParameter"}[rng.Intn(4)]
			c.Arg = args[rng.Intn(len(args))]
			if rng.Intn(3) == 0 {
				var s string
				json.Unmarshal([]byte(jg.StringLit()), &s)
				if validUTF8(s) {
					c.Arg = s
				}
			}
		} else {
			c.Name = genErrName(rng)
		}
		if c.Builtin == "" && k%3 != 0 {
			c.Params = jg.Object(2, 0)
			switch k % 23 {
			case 1:
				c.Params = `[1,"two",{"three":3}]`
			case 2:
				c.Params = `"a string as parameters"`
			case 4:
				c.Params = `12345678901234567890`
			case 5:
				c.Params = `{"big":` + jg.BigString(200000) + `}`
			case 7:
				c.Params = `{}`
			}
		}
		if !validUTF8(c.Name) {
			continue
		}
		if r.ViolationCount() > 12 {
			break
		}
		switch {
		case k%5 == 3 && c.Builtin == "":
			c.Flags = "o"
		case k%5 == 4:
			c.Flags = "m"
		}
		if k%5 == 1 { // alternates between the transports
			c12Hangup(r, p, k)
		}
		r.Journal(0, c)
		c12One(r, p, c)
		r.Done(0)
		r.Case(fw.Hash(c.Name, c.Params, c.Builtin, c.Arg, c.Flags), true)
		if c.Builtin == "" {
			r.Distinct("error_names", c.Name)
		}
		if k%150 == 0 {
			r.Sample(c)
		}
	}
	if r.ViolationCount() <= 12 {
		c12Concurrent(r, pairs[0])
	}
	for _, p := range pairs {
		if _, ok := p.Close(); !ok {
			r.Violation("C12 no-return-after-shutdown", "serving call did not return after Shutdown", p.Transport)
		}
	}
}

func replayC12(r *fw.Run, raw json.RawMessage) {
	var c c12Case
	if json.Unmarshal(raw, &c) != nil || c.Transport == "" {
		return
	}
	p, err := newPair(r, c.Transport, RigOpt{Ifaces: c01Ifaces})
	if err != nil {
		rigFailure(r, "C12", err, c.Transport)
		return
	}
	c12One(r, p, &c)
	r.Case(1, true)
	r.Case(2, true)
	p.Close()
}

func init() {
	fw.Register(&fw.Engine{
		ID: "C12", Level: "exploration",
		Rule: "a case = (error name, parameters or none) sent by a scripted handler with Call.ReplyError, followed by a final plain reply, observed by a real Connection (Send + receive) through a recording proxy; names: 31 fixed ones (the reserved namespace and its near-misses in both directions, dot-less, empty, leading/trailing/doubled dots, unicode, NUL, 5000 characters) and random joins of 1..5 parts from a pool incl. empty parts, optionally prefixed with org.varlink.service; parameters: generated JSON objects (hostile strings, big numbers) or none. Oracle from the statement (A.4): name with a last dot at index > 0 whose prefix is not org.varlink.service => ReplyError returns nil, the client's error is *varlink.Error with exactly that name (also on the wire) and number-exact JSON-equal parameters (none stays none); dot-less names and org.varlink.service.<Name> => ReplyError returns an error, the proxy saw no frame for that step and the client's first receive is the final reply; empty member part: consistency only. Every 7th case: one of the four built-in helpers with a Unicode argument => the client gets the dedicated typed error carrying exactly that string. distinct by hash of the case. A fifth of the cases are sent under a call that sets more, a fifth under a oneway call (nothing may come back, a following GetInfo gets its own reply, the refusal of a bad name still reaches the handler).",
		Assumptions: []string{"names with an empty part after the last dot are outside what the statement fixes"},
		Run:         runC12, Replay: replayC12, CrashIsViolation: true, MinEvals: 100,
		QuickTimeout: 15 * time.Minute, ThoroughTimeout: 60 * time.Minute,
	})
}
