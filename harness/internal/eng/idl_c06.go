package eng

// C06 — nothing ill-formed accepted, nothing silently ignored.
// C09 — the parser is total.

import (
	"encoding/json"
	"fmt"
	"math/rand"
	"os"
	"path/filepath"
	"regexp"
	"runtime"
	"strconv"
	"strings"
	"sync/atomic"
	"time"

	"github.com/varlink/go/varlink/idl"

	"verif/harness/internal/fw"
)

// My own reading of the name grammar (liberal: union of the published grammar and what the
// repository's tests demand), written independently of the parser.
var (
	rxInterfaceName = regexp.MustCompile(`^[A-Za-z]([-]*[A-Za-z0-9])*(\.[A-Za-z0-9]([-]*[A-Za-z0-9])*)+$`)
	rxFieldName     = regexp.MustCompile(`^[A-Za-z][A-Za-z0-9_]*$`)
	rxMemberName    = regexp.MustCompile(`^[A-Za-z0-9]+$`)
)

func checkParsedTy(t *idl.Type, path string) string {
	if t == nil {
		return path + ": nil type"
	}
	switch t.Kind {
	case idl.TypeMaybe:
		if t.ElementType == nil {
			return path + ": optional without element"
		}
		if t.ElementType.Kind == idl.TypeMaybe {
			return path + ": optional directly wraps an optional"
		}
		return checkParsedTy(t.ElementType, path+"?")
	case idl.TypeArray, idl.TypeMap:
		return checkParsedTy(t.ElementType, path+"[]")
	case idl.TypeStruct:
		for _, f := range t.Fields {
			if !rxFieldName.MatchString(f.Name) {
				return fmt.Sprintf("%s: malformed field name %q", path, f.Name)
			}
			if f.Type == nil {
				return fmt.Sprintf("%s: mixed field/enum list: struct with a bare name %q", path, f.Name)
			}
			if d := checkParsedTy(f.Type, path+"."+f.Name); d != "" {
				return d
			}
		}
	case idl.TypeEnum:
		if len(t.Fields) == 0 {
			return path + ": enum without names"
		}
		for _, f := range t.Fields {
			if !rxFieldName.MatchString(f.Name) {
				return fmt.Sprintf("%s: malformed enum name %q", path, f.Name)
			}
			if f.Type != nil {
				return fmt.Sprintf("%s: mixed field/enum list: enum entry %q carries a type", path, f.Name)
			}
		}
	case idl.TypeAlias:
		if !rxMemberName.MatchString(t.Alias) {
			return fmt.Sprintf("%s: malformed type reference %q", path, t.Alias)
		}
	case idl.TypeBool, idl.TypeInt, idl.TypeFloat, idl.TypeString, idl.TypeObject:
	default:
		return fmt.Sprintf("%s: unknown kind %d", path, t.Kind)
	}
	return ""
}

// c06Oracle judges one (input, tree, err) triple. class "" = held.
func c06Oracle(text string, tree *idl.IDL, err error) (class, detail string) {
	if err != nil {
		if tree != nil {
			return "error-and-tree", "an error was returned together with a tree"
		}
		return "", ""
	}
	if tree == nil {
		return "no-error-no-tree", "neither tree nor error"
	}
	printed, perr := printParsed(tree)
	if perr != nil {
		return "malformed-tree", perr.Error()
	}
	want := stripLayout(text)
	if printed != want {
		return "text-unaccounted " + diffClass(printed, want), fmt.Sprintf("accepted, but re-printing the tree does not reproduce the input\n printed: %s\n input  : %s", clip(printed, 400), clip(want, 400))
	}
	if !rxInterfaceName.MatchString(tree.Name) || len(tree.Name) > 255 {
		return "bad-interface-name", fmt.Sprintf("accepted interface name %q", tree.Name)
	}
	if len(tree.Methods) == 0 {
		return "no-method", "accepted without any method"
	}
	if tree.Description != text {
		return "description-not-verbatim", "Description differs from the input"
	}
	seen := map[string]bool{}
	for i, m := range tree.Members {
		var name string
		var types []*idl.Type
		switch x := m.(type) {
		case *idl.Alias:
			name, types = x.Name, []*idl.Type{x.Type}
		case *idl.Method:
			name, types = x.Name, []*idl.Type{x.In, x.Out}
		case *idl.Error:
			name = x.Name
			if x.Type != nil {
				types = []*idl.Type{x.Type}
			}
		}
		if !rxMemberName.MatchString(name) {
			return "bad-member-name", fmt.Sprintf("member %d has malformed name %q", i, name)
		}
		if seen[name] {
			return "duplicate-member", fmt.Sprintf("member name %q defined twice", name)
		}
		seen[name] = true
		for _, t := range types {
			if d := checkParsedTy(t, name); d != "" {
				return "bad-type " + firstWord(d), d
			}
		}
	}
	if len(tree.Aliases)+len(tree.Methods)+len(tree.Errors) != len(tree.Members) {
		return "lists-disagree", "per-kind lists and combined list have different sizes"
	}
	return "", ""
}

func firstWord(s string) string {
	if i := strings.Index(s, ": "); i >= 0 {
		s = s[i+2:]
	}
	if i := strings.Index(s, ":"); i >= 0 {
		s = s[:i]
	}
	return strings.Join(strings.Fields(s), "-")
}

// diffClass says what follows the common prefix of printed tree and stripped input: names the
// construct whose text went missing.
func diffClass(printed, want string) string {
	i := 0
	for i < len(printed) && i < len(want) && printed[i] == want[i] {
		i++
	}
	// keyword of the member in which the difference starts
	kw := "header"
	for _, k := range []string{"type", "method", "error"} {
		if j := strings.LastIndex(want[:i], k); j >= 0 {
			if kw == "header" || j > strings.LastIndex(want[:i], kw) {
				kw = k
			}
		}
	}
	rest := want[i:]
	if len(rest) > 0 {
		c := rest[0]
		switch {
		case c >= 'a' && c <= 'z' || c >= 'A' && c <= 'Z' || c >= '0' && c <= '9':
			return "in " + kw + " at a name"
		default:
			return "in " + kw + " at '" + string(c) + "'"
		}
	}
	return "in " + kw + " at end (tree has more than the input)"
}

func clip(s string, n int) string {
	if len(s) > n {
		return s[:n] + "…"
	}
	return s
}

// ---- tokens ---------------------------------------------------------------------------

func isWordByte(c byte) bool {
	return c >= 'a' && c <= 'z' || c >= 'A' && c <= 'Z' || c >= '0' && c <= '9' || c == '_' || c == '.'
}

// lexCanonical splits a canonical rendering into tokens ("\n" is a token).
func lexCanonical(s string) []string {
	var out []string
	for i := 0; i < len(s); {
		c := s[i]
		switch {
		case c == ' ':
			i++
		case c == '\n':
			out = append(out, "\n")
			i++
		case isWordByte(c):
			j := i
			for j < len(s) && (isWordByte(s[j]) || s[j] == '-' && j+1 < len(s) && s[j+1] != '>') {
				j++
			}
			out = append(out, s[i:j])
			i = j
		case strings.HasPrefix(s[i:], "->"):
			out = append(out, "->")
			i += 2
		case strings.HasPrefix(s[i:], "[]"):
			out = append(out, "[]")
			i += 2
		case strings.HasPrefix(s[i:], "[string]"):
			out = append(out, "[string]")
			i += 8
		default:
			out = append(out, string(c))
			i++
		}
	}
	return out
}

func joinTokens(t []string) string {
	var b strings.Builder
	for i, x := range t {
		if i > 0 && x != "" && t[i-1] != "" && isWordByte(x[0]) && isWordByte(t[i-1][len(t[i-1])-1]) {
			b.WriteByte(' ')
		}
		b.WriteString(x)
	}
	return b.String()
}

var mutAlphabet = []string{"interface", "type", "method", "error", "bool", "int", "float", "string", "object", "T", "a", "b", "Zz",
	"(", ")", ":", ",", "->", "?", "[]", "[string]", "[", "]", "[int]", "#", "\n", "x.y", "-", ">", "_", "9", "()", "#\n", " ", "\t", "\u00a0", "\u2028", "\u3000", "\u0085", "\u200b", "\ufeff", "\u2003", "\v", "\f"}

type idlInput struct {
	Text string `json:"text"`
	Op   string `json:"op,omitempty"`
}

// mutants calls emit for every single-token deletion / insertion / substitution / transposition.
func mutants(toks []string, emit func(op string, t []string)) {
	n := len(toks)
	buf := make([]string, 0, n+1)
	for i := 0; i < n; i++ {
		buf = append(buf[:0], toks[:i]...)
		buf = append(buf, toks[i+1:]...)
		emit("delete:"+toks[i], buf)
	}
	for i := 0; i <= n; i++ {
		for _, a := range mutAlphabet {
			buf = append(buf[:0], toks[:i]...)
			buf = append(buf, a)
			buf = append(buf, toks[i:]...)
			prev := "<start>"
			if i > 0 {
				prev = toks[i-1]
			}
			emit("insert:"+a+" after "+tokClass(prev), buf)
		}
	}
	for i := 0; i < n; i++ {
		for _, a := range mutAlphabet {
			if a == toks[i] {
				continue
			}
			buf = append(buf[:0], toks...)
			buf[i] = a
			emit("subst:"+tokClass(toks[i])+"->"+a, buf)
		}
	}
	for i := 0; i+1 < n; i++ {
		if toks[i] == toks[i+1] {
			continue
		}
		buf = append(buf[:0], toks...)
		buf[i], buf[i+1] = buf[i+1], buf[i]
		emit("swap:"+tokClass(toks[i])+","+tokClass(toks[i+1]), buf)
	}
}

func tokClass(t string) string {
	switch t {
	case "interface", "type", "method", "error", "bool", "int", "float", "string", "object", "(", ")", ":", ",", "->", "?", "[]", "[string]", "\n":
		if t == "\n" {
			return "NL"
		}
		return t
	}
	if strings.Contains(t, ".") {
		return "IFACE"
	}
	if t != "" && t[0] >= 'A' && t[0] <= 'Z' {
		return "Name"
	}
	return "name"
}

var seqAlphabet = []string{"method", "type", "error", "N", "a", "(", ")", ":", ",", "->", "?", "[]", "int"}

// sentinel inputs: specific shapes named in the property text
var c06Sentinels = []string{
	"interface a.b\nmethod F()->()\nerror Foo (a: int",
	"interface a.b\nmethod F()->()\nerror Foo bar\n",
	"interface a.b\nmethod F()->()\nerror Foo ?\n",
	"interface a.b\nmethod F()->()\nerror E [\n",
	"interface a.b\nmethod F()->()\nerror E (a: int, b)\n",
	"interface a.b\nmethod F()->()\nerror E ()x\n",
	"interface a.b\nmethod F()->()\ntype T (a: int, b)",
	"interface a.b\nmethod F()->()\ntype T (a, b: int)",
	"interface a.b\nmethod F()->()\ntype T (a, b, c: int, d)",
	"interface a.b\n#\nmethod G()->()\nmethod F()->()",
	"interface a.b\nmethod F()->()\ntype T [int]string",
	"interface a.b\nmethod F()->()\ntype T ??int",
	"interface a.b\nmethod F()->()\ntype T ?[]??int",
	"interface a.b\nmethod F()->()\nmethod F()->()",
	"interface a.b\nmethod F()->()\ntype F ()",
	"interface a.b\nmethod F()->()\nerror F",
	"interface a.b\ntype F ()",
	"interface a.b\nmethod F()->() garbage",
	"interface a.b\nmethod F()->()\n)",
	"interface a.b\nmethod F() ()",
	"interface a.b\nmethod F() - > ()",
	"interface a.b\nmethod F(a int)->()",
	"interface a.b\nmethod F(a:)->()",
	"interface a.b\nmethod F(a: int,)->()",
	"interface a.b\nmethod F(,)->()",
	"interface a.b\nmethod F((a: int))->()",
	"interface a.b.\nmethod F()->()",
	"interface a..b\nmethod F()->()",
	"interface a\nmethod F()->()",
	"interface .a.b\nmethod F()->()",
	"interface a.b-\nmethod F()->()",
	"interface a.-b\nmethod F()->()",
	"interface a.b\nmethod F(A: int)->()",
	"interface a.b\nmethod F(_a: int)->()",
	"interface a.b\nmethod F(a: int # c\n)->()",
	"interface a.b method F()->()",
	"interfacea.b\nmethod F()->()",
	"interface a.b\nmethod F()->()\nerror E\n(a: int)",
	"interface a.b\nmethod F()->()\nerror E # c\n",
	"interface a.b\nmethod F()->()\nerror E\t(a: int)",
}

func c06One(r *fw.Run, w int, text, op string) {
	var tree *idl.IDL
	var err error
	pan := catch(func() { tree, err = idl.New(text) })
	if pan != "" {
		// panics belong to C09; here they only mean "not accepted"
		r.Count("panicked", 1)
		return
	}
	if err != nil {
		r.Count("rejected", 1)
	} else {
		r.Count("accepted", 1)
	}
	class, detail := c06Oracle(text, tree, err)
	if class == "" {
		if err == nil {
			r.Count("accepted_and_printed_equal", 1)
		}
		return
	}
	r.Violation(class, detail+"\ninput:\n"+clip(text, 1500), idlInput{Text: text, Op: op})
}

func coreTokenLists() [][]string {
	var out [][]string
	for _, d := range coreDescs() {
		t, _ := Render(d, 0, 0, 0, nil)
		out = append(out, lexCanonical(t))
	}
	return out
}

func enumSeqs(maxLen int, emit func(seq []string)) {
	var rec func(cur []string)
	rec = func(cur []string) {
		if len(cur) > 0 {
			emit(cur)
		}
		if len(cur) == maxLen {
			return
		}
		for _, a := range seqAlphabet {
			rec(append(cur, a))
		}
	}
	rec(nil)
}

func byteMutants(rng *rand.Rand, s string, n int, emit func(string)) {
	for i := 0; i < n && len(s) > 0; i++ {
		p := rng.Intn(len(s))
		switch rng.Intn(5) {
		case 0:
			emit(s[:p] + s[p+1:])
		case 1:
			emit(s[:p] + s[p:p+1] + s[p:])
		case 2:
			emit(s[:p] + string([]byte{s[p] ^ byte(1<<uint(rng.Intn(8)))}) + s[p+1:])
		case 3:
			emit(s[:p])
		case 4:
			q := rng.Intn(len(s))
			if q < p {
				p, q = q, p
			}
			emit(s[:p] + s[q:])
		}
	}
}

func runC06(r *fw.Run) {
	workers := runtime.NumCPU()
	lists := coreTokenLists()
	step := r.Pick(5, 1)
	type job struct {
		toks []string
		idx  int
	}
	var jobs []job
	for i := int(r.Seed) % step; i < len(lists); i += step {
		jobs = append(jobs, job{lists[i], i})
	}
	if step > 1 {
		// the member-sequence descriptions (tail of the core list) always take part
		for i := len(lists) - 60; i < len(lists); i++ {
			if i >= 0 && i%step != int(r.Seed)%step {
				jobs = append(jobs, job{lists[i], i})
			}
		}
	}
	r.Count("descriptions_mutated", int64(len(jobs)))
	if step == 1 {
		r.Count("exhaustive_core_complete", 1)
	}
	fw.Parallel(workers, len(jobs), func(w, i int) {
		ops := map[string]bool{}
		mutants(jobs[i].toks, func(op string, t []string) {
			text := joinTokens(t)
			r.Case(fw.Hash(text), len(t) > 1)
			c06One(r, w, text, op)
			ops[op] = true
		})
		for op := range ops {
			r.Distinct("mutation_operator_x_token", op)
		}
		if i%97 == 0 {
			r.Sample(map[string]interface{}{"mutants_of": joinTokens(jobs[i].toks)})
		}
	})
	// token sequences after the header
	maxLen := r.Pick(5, 6)
	var seqs []string
	enumSeqs(maxLen, func(seq []string) {
		seqs = append(seqs, joinTokens(append([]string{"interface", "a.b", "\n"}, seq...)))
	})
	r.Count("token_sequences", int64(len(seqs)))
	r.Count("token_sequence_max_len", int64(maxLen))
	fw.Parallel(workers, len(seqs), func(w, i int) {
		r.Case(fw.Hash(seqs[i]), true)
		c06One(r, w, seqs[i], "sequence")
	})
	r.Sample(map[string]interface{}{"token_sequence": seqs[len(seqs)/2]})
	// byte-level mutants of random valid renderings, and sentinels
	g := &IDLGen{R: rand.New(rand.NewSource(r.Seed + 77))}
	rng := rand.New(rand.NewSource(r.Seed + 78))
	var texts []string
	for i := 0; i < r.Pick(300, 6000); i++ {
		d := g.Desc(6, 3)
		t, _ := Render(d, 4, rng.Intn(numFinalStyles), rng.Int63(), nil)
		texts = append(texts, t)
		byteMutants(rng, t, 40, func(m string) { texts = append(texts, m) })
	}
	texts = append(texts, c06Sentinels...)
	fw.Parallel(workers, len(texts), func(w, i int) {
		r.Case(fw.Hash(texts[i]), true)
		c06One(r, w, texts[i], "bytes")
	})
	r.Count("byte_level_inputs", int64(len(texts)))
	if r.Thorough {
		runIDLFuzz(r, "C06", "FuzzIDLOracle", 12000000)
	}
}

func replayC06(r *fw.Run, raw json.RawMessage) {
	var in idlInput
	if json.Unmarshal(raw, &in) != nil || in.Text == "" {
		json.Unmarshal(raw, &in.Text)
	}
	r.Case(fw.Hash(in.Text), true)
	c06One(r, 0, in.Text, in.Op)
}

// ---- C09 ------------------------------------------------------------------------------

type c09Guard struct {
	stamps []int64 // unix nanos when the worker started its current input (0 = idle)
}

func c09One(r *fw.Run, g *c09Guard, w int, text string) {
	r.JournalRaw(w, []byte(text))
	atomic.StoreInt64(&g.stamps[w], time.Now().UnixNano())
	var tree *idl.IDL
	var err error
	pan := catch(func() { tree, err = idl.New(text) })
	atomic.StoreInt64(&g.stamps[w], 0)
	r.Done(w)
	switch {
	case pan != "":
		r.Violation("panic "+panicSite(pan), "idl.New panicked: "+pan+"\ninput: "+fmt.Sprintf("%q", clip(text, 600)), idlInput{Text: text})
	case (tree == nil) == (err == nil):
		r.Violation("tree-xor-error", fmt.Sprintf("tree=%v err=%v for %q", tree != nil, err, clip(text, 600)), idlInput{Text: text})
	case err != nil:
		r.Count("errors", 1)
	default:
		r.Count("trees", 1)
	}
}

var rxSite = regexp.MustCompile(`idl\.go:\d+`)

func panicSite(p string) string {
	first := strings.SplitN(p, "\n", 2)[0]
	if len(first) > 60 {
		first = first[:60]
	}
	// strip numbers so that one site is one signature
	first = regexp.MustCompile(`\d+`).ReplaceAllString(first, "N")
	return first + " @" + rxSite.FindString(p)
}

func runC09(r *fw.Run) {
	workers := runtime.NumCPU()
	g := &c09Guard{stamps: make([]int64, workers)}
	stop := make(chan struct{})
	// hang monitor: bounded progress. The bound is deliberately huge compared with a parse (µs).
	go func() {
		for {
			select {
			case <-stop:
				return
			case <-time.After(500 * time.Millisecond):
			}
			now := time.Now().UnixNano()
			for w := range g.stamps {
				s := atomic.LoadInt64(&g.stamps[w])
				if s != 0 && now-s > int64(20*time.Second) {
					buf := make([]byte, 1<<20)
					n := runtime.Stack(buf, true)
					dump := string(buf[:n])
					if strings.Contains(dump, "idl.(*parser)") || strings.Contains(dump, "idl.New") {
						// the journal names the input; die so that the parent reports it
						fmt.Println("fatal error: HANG in idl.New (20 s, parser frames on the stack)")
						fmt.Println(clip(dump, 8000))
						// leave cur.<w> in place
						panic("hang")
					}
				}
			}
		}
	}()
	defer close(stop)

	run := func(name string, inputs []string) {
		fw.Parallel(workers, len(inputs), func(w, i int) {
			t := inputs[i]
			if len(t) > 65536 {
				t = t[:65536] // the property's size bound
			}
			r.Case(fw.Hash(t), len(t) > 0)
			c09One(r, g, w, t)
			r.Max("max_input_bytes", int64(len(t)))
		})
		r.Count("inputs_"+name, int64(len(inputs)))
		if len(inputs) > 0 {
			r.Sample(map[string]interface{}{"class": name, "input": clip(inputs[len(inputs)/3], 300)})
		}
	}

	// 1. every truncation of every core description in three layouts
	core := coreDescs()
	step := r.Pick(4, 1)
	var in []string
	rng := rand.New(rand.NewSource(r.Seed + 9))
	for i := int(r.Seed) % step; i < len(core); i += step {
		for _, st := range []int{0, 2, 4} {
			t, _ := Render(core[i], st, rng.Intn(numFinalStyles), rng.Int63(), nil)
			for k := 0; k <= len(t); k++ {
				in = append(in, t[:k])
			}
			r.Count("truncation_offsets", int64(len(t)+1))
		}
	}
	run("truncations", in)

	// 2. endings in each token class and in comment forms
	in = nil
	heads := []string{"", "interface", "interface ", "interface a.b", "interface a.b\n", "interface a.b\nmethod F()->()", "interface a.b\nmethod F()->()\n",
		"interface a.b\nmethod F()->()\ntype", "interface a.b\nmethod F()->()\ntype ", "interface a.b\nmethod F()->()\ntype T", "interface a.b\nmethod F()->()\ntype T ",
		"interface a.b\nmethod F()->()\nerror", "interface a.b\nmethod F()->()\nerror E", "interface a.b\nmethod F()->()\nerror E ",
		"interface a.b\nmethod F(", "interface a.b\nmethod F(a", "interface a.b\nmethod F(a:", "interface a.b\nmethod F(a: ", "interface a.b\nmethod F(a: int", "interface a.b\nmethod F(a: int,",
		"interface a.b\nmethod F()", "interface a.b\nmethod F()-", "interface a.b\nmethod F()->", "interface a.b\nmethod F()->(", "interface a.b\nmethod F()->(a: ?", "interface a.b\nmethod F()->(a: [", "interface a.b\nmethod F()->(a: [string", "interface a.b\nmethod F()->(a: []"}
	tails := []string{"", "#", "# x", "#\r", "#\n", "# x\n", "#\r\n", " #", "\t#", "\n#", "##", "# #", "#\x00", "\x00", "\xff", "\r", "\t", " ", "?", "[", "(", ")", ":", ",", "-", "->", "\n\n#"}
	for _, h := range heads {
		for _, t := range tails {
			in = append(in, h+t)
			in = append(in, h+t+t)
		}
	}
	run("endings", in)

	// 3. token sequences (shared with C06)
	in = nil
	enumSeqs(r.Pick(5, 6), func(seq []string) {
		in = append(in, joinTokens(append([]string{"interface", "a.b", "\n"}, seq...)))
	})
	run("token_sequences", in)

	// 4. NUL / high bytes / invalid UTF-8 at every position of sample descriptions
	in = nil
	g2 := &IDLGen{R: rand.New(rand.NewSource(r.Seed + 10))}
	for i := 0; i < r.Pick(12, 120); i++ {
		t, _ := Render(g2.Desc(4, 3), 4, rng.Intn(numFinalStyles), rng.Int63(), nil)
		for k := 0; k <= len(t); k++ {
			for _, b := range []string{"\x00", "\x80", "\xff", "\xc3", "\xe2\x82", "#", "\r"} {
				in = append(in, t[:k]+b+t[k:])
				if k < len(t) {
					in = append(in, t[:k]+b+t[k+1:])
				}
			}
		}
	}
	run("byte_injections", in)

	// 5. nesting bombs up to the 64 KiB bound
	in = nil
	for _, unit := range []string{"?", "[]", "[string]", "(a:", "(", "?[]", "[", "(a", "(a,", "#", "\n#", "#\n", "->", "a.", "a-", " ", "\t", "\r", "()"} {
		for _, n := range []int{1, 2, 3, 100, 4095, 4096, 4097, 65536 / len(unit)} {
			if n*len(unit) > 65536 {
				n = 65536 / len(unit)
			}
			rep := strings.Repeat(unit, n)
			in = append(in, "interface a.b\nmethod F(a: "+rep, "interface a.b\nmethod F(a: "+rep+"int)->()", "interface a.b\ntype T "+rep+"int\nmethod F()->()", rep,
				"interface a.b\nmethod F()->()\n"+rep, "interface "+rep+"\nmethod F()->()", "interface a.b\nmethod F()->()\nerror E "+rep)
			if unit == "(a:" {
				in = append(in, "interface a.b\ntype T "+rep+"int"+strings.Repeat(")", n)+"\nmethod F()->()")
			}
		}
	}
	in = append(in, "interface a."+strings.Repeat("b", 65000)+"\nmethod F()->()", "interface a.b\nmethod "+strings.Repeat("F", 65000)+"()->()")
	// long lists (struct fields, enum names, members), complete and cut short
	for _, n := range []int{15, 16, 17, 31, 32, 33, 63, 64, 65, 66, 127, 128, 129, 255, 256, 257, 1000, 5000} {
		var fl, en, ms strings.Builder
		for i := 0; i < n; i++ {
			if i > 0 {
				fl.WriteString(", ")
				en.WriteString(", ")
			}
			fmt.Fprintf(&fl, "f%d: int", i)
			fmt.Fprintf(&en, "e%d", i)
			fmt.Fprintf(&ms, "method M%d() -> ()\n", i)
		}
		full := []string{"interface a.b\ntype T (" + fl.String() + ")\nmethod F()->()", "interface a.b\ntype T (" + en.String() + ")\nmethod F()->()",
			"interface a.b\nmethod F(" + fl.String() + ")->(" + fl.String() + ")", "interface a.b\nmethod F()->()\nerror E (" + fl.String() + ")", "interface a.b\n" + ms.String()}
		for _, f := range full {
			if len(f) <= 65536 {
				in = append(in, f, f[:len(f)-1], f[:len(f)*3/4])
			}
		}
	}
	run("nesting_bombs", in)

	// 6. random bytes and random token soup
	in = nil
	alpha := append([]string{}, mutAlphabet...)
	for i := 0; i < r.Pick(20000, 1200000); i++ {
		n := rng.Intn(40)
		if i%50 == 0 {
			n = rng.Intn(65536)
		}
		if i%2 == 0 {
			b := make([]byte, n)
			rng.Read(b)
			in = append(in, string(b))
		} else {
			var sb strings.Builder
			sb.WriteString("interface a.b\n")
			for k := 0; k < n%60; k++ {
				sb.WriteString(alpha[rng.Intn(len(alpha))])
				if rng.Intn(3) == 0 {
					sb.WriteByte(' ')
				}
			}
			in = append(in, sb.String())
		}
	}
	run("random", in)
	if r.Thorough {
		runIDLFuzz(r, "C09", "FuzzIDLTotal", 12000000)
	}
}

// runIDLFuzz drives one native fuzz target (`go test -fuzz`) for n executions and turns crashers into violations.
func runIDLFuzz(r *fw.Run, prop, target string, n int) {
	root := os.Getenv("VERIF_ROOT")
	if root == "" {
		root = "/verif"
	}
	pkgDir := filepath.Join(root, "harness", "internal", "eng")
	crashDir := filepath.Join(pkgDir, "testdata", "fuzz", target)
	os.RemoveAll(crashDir)
	args := []string{"test", "-vet=off", "-tags", "verif"}
	if mf := os.Getenv("VERIF_MODFILE"); mf != "" {
		args = append(args, "-modfile="+mf)
	}
	if ov := os.Getenv("VERIF_OVERLAY"); ov != "" {
		args = append(args, "-overlay", ov)
	}
	args = append(args, "-run", "^$", "-fuzz", "^"+target+"$", fmt.Sprintf("-fuzztime=%dx", n), "./internal/eng",
		"-test.fuzzcachedir="+filepath.Join(r.WorkDir, "fuzzcache"))
	out, err := goRun(filepath.Join(root, "harness"), 40*time.Minute, "go", args...)
	execs := int64(0)
	for _, m := range regexp.MustCompile(`execs: (\d+)`).FindAllStringSubmatch(out, -1) {
		if v, e := strconv.ParseInt(m[1], 10, 64); e == nil && v > execs {
			execs = v
		}
	}
	r.Count("fuzz_executions", execs)
	files, _ := filepath.Glob(filepath.Join(crashDir, "*"))
	for _, f := range files {
		b, _ := os.ReadFile(f)
		input := string(b)
		if m := regexp.MustCompile(`(?s)string\((".*")\)`).FindStringSubmatch(input); m != nil {
			if u, e := strconv.Unquote(m[1]); e == nil {
				input = u
			}
		}
		class := "fuzz-crasher"
		if m := regexp.MustCompile(`(C0[69] [a-z-]+[^:\n]*)`).FindStringSubmatch(out); m != nil {
			class = "fuzz " + m[1]
		} else if strings.Contains(out, "panic:") {
			class = "fuzz panic"
		}
		r.Violation(class, "coverage-guided fuzzing ("+target+") found an input:\n"+clip(out, 1500), idlInput{Text: input, Op: "fuzz"})
		os.Remove(f)
	}
	os.RemoveAll(filepath.Join(pkgDir, "testdata"))
	if err != nil && len(files) == 0 {
		if strings.Contains(out, "FAIL") {
			r.Violation("fuzz-failure-without-crasher", "go test -fuzz failed without leaving a crasher file:\n"+clip(out, 2000), idlInput{Op: "fuzz"})
		} else {
			r.Inconclusive("go test -fuzz %s: %v: %s", target, err, clip(out, 300))
		}
	}
}

func replayC09(r *fw.Run, raw json.RawMessage) {
	var in idlInput
	if json.Unmarshal(raw, &in) != nil || in.Text == "" {
		json.Unmarshal(raw, &in.Text)
	}
	g := &c09Guard{stamps: make([]int64, 1)}
	r.Case(fw.Hash(in.Text), true)
	c09One(r, g, 0, in.Text)
}

func init() {
	fw.Register(&fw.Engine{
		ID: "C06", Level: "exploration",
		Rule: "inputs = every single-token deletion, insertion (35-token alphabet), substitution and adjacent transposition of the canonical rendering of core descriptions (quick: every 5th core description chosen by seed plus all member-sequence descriptions; thorough: all 1130), every token sequence over a 13-token alphabet up to length 5 (quick) / 6 (thorough) after a valid header, byte-level mutants of seeded random renderings, and sentinel inputs. Oracle on every ACCEPTED input: printing the returned tree equals the input with comments and layout removed; member names unique; >= 1 method; no optional directly inside an optional; every list all-typed or all-bare; names match an independently written grammar; never error and tree together. distinct = hash of the text; non-trivial = more than one token.",
		Assumptions: []string{"'most liberal reading': a keyword run together with the following name (typeFoo) and lower-case member names are not flagged", "the rejects-everything-ill-formed half follows from the print-equality oracle: an accepted text equals, up to layout, the print of a tree satisfying the invariants"},
		Run:         runC06, Replay: replayC06, CrashIsViolation: false, MinEvals: 10000,
	})
	fw.Register(&fw.Engine{
		ID: "C09", Level: "exploration",
		Rule: "byte strings up to 64 KiB: every truncation (each byte offset) of core descriptions in 3 layouts, inputs ending in each token class and in '#', '# x', '#\\r' etc., all token sequences up to the C06 bound, NUL / 0x80 / 0xff / broken UTF-8 inserted and substituted at every position of seeded sample descriptions, nesting bombs of every prefix/bracket unit up to 64 KiB, seeded random bytes and token soup. Monitor: recover() around idl.New in a child process whose death is attributed through a per-worker journal; hang monitor (20 s with parser frames on the stack); result must be exactly one of tree / error. distinct = hash of input; non-trivial = non-empty.",
		Assumptions: []string{"a hang is decided as bounded progress: 20 s for one parse (normal: microseconds)"},
		Run:         runC09, Replay: replayC09, CrashIsViolation: true, MinEvals: 10000,
	})
}
