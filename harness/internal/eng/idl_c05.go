package eng

// C05 — grammar-conformant descriptions parse to the tree they denote, whatever the layout.

import (
	"encoding/json"
	"fmt"
	"math/rand"
	"runtime"
	"strings"

	"github.com/varlink/go/varlink/idl"

	"verif/harness/internal/fw"
)

var idlKind = map[int]idl.TypeKind{kBool: idl.TypeBool, kInt: idl.TypeInt, kFloat: idl.TypeFloat, kString: idl.TypeString,
	kObject: idl.TypeObject, kArray: idl.TypeArray, kMaybe: idl.TypeMaybe, kMap: idl.TypeMap, kStruct: idl.TypeStruct,
	kEnum: idl.TypeEnum, kAlias: idl.TypeAlias}

func cmpTy(path string, exp *Ty, got *idl.Type) string {
	if got == nil {
		return path + ": type missing in tree"
	}
	if got.Kind != idlKind[exp.K] {
		return fmt.Sprintf("%s: kind %d, expected %s", path, got.Kind, kindName[exp.K])
	}
	switch exp.K {
	case kAlias:
		if got.Alias != exp.Alias {
			return fmt.Sprintf("%s: alias %q, expected %q", path, got.Alias, exp.Alias)
		}
	case kArray, kMaybe, kMap:
		return cmpTy(path+"/elem", exp.Elem, got.ElementType)
	case kStruct, kEnum:
		if len(got.Fields) != len(exp.Fields) {
			return fmt.Sprintf("%s: %d fields, expected %d", path, len(got.Fields), len(exp.Fields))
		}
		for i, f := range exp.Fields {
			g := got.Fields[i]
			if g.Name != f.Name {
				return fmt.Sprintf("%s: field %d named %q, expected %q", path, i, g.Name, f.Name)
			}
			if f.T == nil {
				if g.Type != nil {
					return fmt.Sprintf("%s: enum entry %q has a type", path, f.Name)
				}
				continue
			}
			if d := cmpTy(path+"/"+f.Name, f.T, g.Type); d != "" {
				return d
			}
		}
	}
	if exp.K != kAlias && got.Alias != "" {
		return path + ": unexpected alias name on a non-reference type"
	}
	return ""
}

func normDoc(s string) string {
	lines := strings.Split(s, "\n")
	for i := range lines {
		lines[i] = strings.TrimRight(lines[i], "\r")
	}
	for len(lines) > 0 && lines[0] == "" {
		lines = lines[1:]
	}
	return strings.Join(lines, "\n")
}

func cmpDoc(what string, exp []string, got string) string {
	if exp == nil {
		return "" // nothing rendered directly above: not asserted
	}
	e := normDoc(strings.Join(exp, "\n"))
	if g := normDoc(got); g != e {
		return fmt.Sprintf("%s: documentation %q, expected %q", what, g, e)
	}
	return ""
}

// cmpDesc compares the parsed tree with the generated one. tainted: docs not to assert.
// Returns (difference, signature class).
func cmpDesc(exp *Desc, got *idl.IDL, text string, tainted map[int]bool) (string, string) {
	if got.Name != exp.Name {
		return fmt.Sprintf("interface name %q, expected %q", got.Name, exp.Name), "tree:name"
	}
	if got.Description != text {
		return "Description is not the input text", "tree:description"
	}
	if len(got.Members) != len(exp.Mems) {
		return fmt.Sprintf("%d members, expected %d", len(got.Members), len(exp.Mems)), "tree:member-count"
	}
	ai, mi, ei := 0, 0, 0
	for i, m := range exp.Mems {
		path := fmt.Sprintf("member %d (%c %s)", i, m.Kind, m.Name)
		var doc string
		switch m.Kind {
		case 't':
			a, ok := got.Members[i].(*idl.Alias)
			if !ok {
				return path + ": combined list has another kind here", "tree:member-kind"
			}
			if ai >= len(got.Aliases) || got.Aliases[ai] != a {
				return path + ": Aliases list disagrees with Members", "tree:lists"
			}
			ai++
			if a.Name != m.Name {
				return fmt.Sprintf("%s: name %q", path, a.Name), "tree:member-name"
			}
			if d := cmpTy(path, m.T, a.Type); d != "" {
				return d, "tree:type"
			}
			doc = a.Doc
		case 'm':
			x, ok := got.Members[i].(*idl.Method)
			if !ok {
				return path + ": combined list has another kind here", "tree:member-kind"
			}
			if mi >= len(got.Methods) || got.Methods[mi] != x {
				return path + ": Methods list disagrees with Members", "tree:lists"
			}
			mi++
			if x.Name != m.Name {
				return fmt.Sprintf("%s: name %q", path, x.Name), "tree:member-name"
			}
			if d := cmpTy(path+"/in", m.In, x.In); d != "" {
				return d, "tree:type"
			}
			if d := cmpTy(path+"/out", m.Out, x.Out); d != "" {
				return d, "tree:type"
			}
			doc = x.Doc
		case 'e':
			x, ok := got.Members[i].(*idl.Error)
			if !ok {
				return path + ": combined list has another kind here", "tree:member-kind"
			}
			if ei >= len(got.Errors) || got.Errors[ei] != x {
				return path + ": Errors list disagrees with Members", "tree:lists"
			}
			ei++
			if x.Name != m.Name {
				return fmt.Sprintf("%s: name %q", path, x.Name), "tree:member-name"
			}
			if m.T == nil {
				if x.Type != nil {
					return path + ": typeless error got a type", "tree:type"
				}
			} else if d := cmpTy(path, m.T, x.Type); d != "" {
				return d, "tree:type"
			}
			doc = x.Doc
		}
		if !tainted[i] {
			if d := cmpDoc(path, m.Doc, doc); d != "" {
				return d, "doc:member"
			}
		}
	}
	if ai != len(got.Aliases) || mi != len(got.Methods) || ei != len(got.Errors) {
		return "per-kind lists are longer than the combined list", "tree:lists"
	}
	if !tainted[-1] {
		if d := cmpDoc("interface", exp.Doc, got.Doc); d != "" {
			return d, "doc:interface"
		}
	}
	return "", ""
}

type c05Case struct {
	Desc   *Desc  `json:"desc"`
	Style  int    `json:"style"`
	Final  int    `json:"final"`
	LSeed  int64  `json:"layout_seed"`
	Text   string `json:"text,omitempty"`
	Source string `json:"source"`
}

func nontrivialDesc(d *Desc) bool {
	if len(d.Mems) >= 2 {
		return true
	}
	for _, m := range d.Mems {
		for _, t := range []*Ty{m.T, m.In, m.Out} {
			if t != nil && (t.K >= kArray) && (t.K != kStruct || len(t.Fields) > 0) {
				return true
			}
		}
	}
	return false
}

func coverTy(r *fw.Run, pos string, t *Ty) {
	if t == nil {
		return
	}
	r.Distinct("constructor_position_pairs", kindName[t.K]+"@"+pos)
	if t.Elem != nil {
		coverTy(r, pos+">"+kindName[t.K], t.Elem)
	}
	for _, f := range t.Fields {
		if f.T != nil {
			coverTy(r, pos+">field", f.T)
		}
	}
}

func minInt(a, b int) int {
	if a < b {
		return a
	}
	return b
}

// c05Eval parses text and compares with the tree; class "" = held.
func c05Eval(d *Desc, text string, tainted map[int]bool) (class, detail string) {
	var tree *idl.IDL
	var err error
	pan := catch(func() { tree, err = idl.New(text) })
	switch {
	case pan != "":
		return "panic", "idl.New panicked on a conformant description: " + pan
	case err != nil:
		return "rejected (" + err.Error() + ")", fmt.Sprintf("conformant description rejected: %v", err)
	case tree == nil:
		return "nil-tree", "no error and no tree"
	}
	if d, sig := cmpDesc(d, tree, text, tainted); d != "" {
		return sig, d
	}
	return "", ""
}

// minimiseLayout replaces gaps by their canonical form as long as the failure class stays the
// same; what remains non-canonical names the layout feature the failure needs.
func minimiseLayout(c *c05Case, class string, tainted map[int]bool) (string, string) {
	toks, gaps := RenderGaps(c.Desc, c.Style, c.Final, c.LSeed)
	_, canon := RenderGaps(c.Desc, 0, 0, 0)
	if len(canon) != len(gaps) {
		return joinToks(toks, gaps), "?"
	}
	// canonical gaps drop doc blocks; keep docs out of the comparison when they are dropped
	noDoc := map[int]bool{-1: true}
	for i := range c.Desc.Mems {
		noDoc[i] = true
	}
	for i := range gaps {
		if gaps[i] == canon[i] {
			continue
		}
		old := gaps[i]
		gaps[i] = canon[i]
		cl, _ := c05Eval(c.Desc, joinToks(toks, gaps), noDoc)
		if cl != class {
			gaps[i] = old
		}
	}
	var feats []string
	for i := range gaps {
		if gaps[i] != canon[i] {
			next := toks[i].text
			if toks[i].gap == gLast {
				next = "<eof>"
			} else if toks[i].kw {
				next = "<name>"
			}
			feats = append(feats, gapClass(gaps[i])+" before "+next)
		}
	}
	if len(feats) > 3 {
		feats = feats[:3]
	}
	return joinToks(toks, gaps), strings.Join(feats, "; ")
}

func gapClass(g string) string {
	switch {
	case g == "":
		return "nothing"
	case strings.HasSuffix(g, "#") || strings.Contains(g, "#\n") || strings.Contains(g, "#\r\n"):
		return "empty-comment"
	case strings.Contains(g, "#"):
		return "comment"
	case strings.Contains(g, "\n"):
		return "newline"
	case strings.Contains(g, "\t") && !strings.ContainsAny(g, " \r"):
		return "tab"
	}
	return "blank"
}

func c05One(r *fw.Run, w int, c *c05Case, kinds map[string]bool) {
	text, tainted := c.Text, map[int]bool{}
	replay := text != ""
	if !replay {
		text, tainted = Render(c.Desc, c.Style, c.Final, c.LSeed, kinds)
	}
	b, _ := json.Marshal(c.Desc)
	r.Case(fw.Hash(string(b), text), nontrivialDesc(c.Desc))
	r.JournalRaw(w, []byte(text))
	class, detail := c05Eval(c.Desc, text, tainted)
	r.Done(w)
	if class == "" {
		r.Count("accepted", 1)
		for _, m := range c.Desc.Mems {
			if m.Doc != nil {
				r.Count("docs_asserted", 1)
			}
		}
		return
	}
	cc := *c
	cc.Text = text
	sig := class
	if !replay && !strings.HasPrefix(class, "doc:") {
		min, feats := minimiseLayout(c, class, tainted)
		sig = class + " needs " + feats
		detail += "\nminimised input:\n" + min
	}
	r.Violation(sig, detail+"\noriginal input:\n"+text, cc)
}

func catch(f func()) (p string) {
	defer func() {
		if x := recover(); x != nil {
			buf := make([]byte, 4096)
			n := runtime.Stack(buf, false)
			p = fmt.Sprintf("%v\n%s", x, buf[:n])
		}
	}()
	f()
	return ""
}

func runC05(r *fw.Run) {
	core := coreDescs()
	var cases []*c05Case
	layouts := r.Pick(3, 10)
	rng := rand.New(rand.NewSource(r.Seed*7919 + 5))
	for i, d := range core {
		for _, p := range d.Mems {
			coverTy(r, string(p.Kind), p.T)
			coverTy(r, "in", p.In)
			coverTy(r, "out", p.Out)
		}
		// fixed styles 0..3 on the core, then random ones
		for s := 0; s < 4; s++ {
			cases = append(cases, &c05Case{Desc: d, Style: s, Final: (i + s) % numFinalStyles, LSeed: int64(i), Source: "core"})
		}
		for k := 0; k < layouts; k++ {
			cases = append(cases, &c05Case{Desc: d, Style: 4, Final: rng.Intn(numFinalStyles), LSeed: rng.Int63(), Source: "core"})
		}
	}
	r.Count("core_trees", int64(len(core)))
	r.Count("exhaustive_core_complete", 1)
	g := &IDLGen{R: rand.New(rand.NewSource(r.Seed))}
	nrand := r.Pick(500, 150000)
	for i := 0; i < nrand; i++ {
		var d *Desc
		if i%10 == 0 {
			d = g.Desc(40, 8)
		} else {
			d = g.Desc(8, 4)
		}
		// docs on some members
		for k := 0; k < r.Pick(5, 10); k++ {
			st := 4
			if k < 4 {
				st = k
			}
			cases = append(cases, &c05Case{Desc: d, Style: st, Final: rng.Intn(numFinalStyles), LSeed: rng.Int63(), Source: "random"})
		}
	}
	// large shapes: many members, wide structs, deep nesting, long names, long enums
	for bi, d := range bigDescs() {
		for st := 0; st < 5; st++ {
			cases = append(cases, &c05Case{Desc: d, Style: st, Final: (bi + st) % numFinalStyles, LSeed: int64(bi*7 + st), Source: "big"})
		}
	}
	// doc blocks on the core shapes: every final style x doc forms
	docd := &Desc{Name: "com.example.docs", Doc: []string{"The interface", "", "second paragraph"}, Mems: []Mem{
		{Kind: 't', Name: "T", T: enum("a", "b"), Doc: []string{"one line"}},
		{Kind: 'm', Name: "M", In: strct(), Out: strct(Fld{"r", alias("T")}), Doc: []string{"first", "", "third after an empty comment line"}},
		{Kind: 'e', Name: "E", Doc: []string{"typeless error"}},
		{Kind: 'e', Name: "F", T: strct(Fld{"why", base(kString)}), Doc: []string{"", "leading empty comment line"}},
		{Kind: 'm', Name: "N", In: strct(Fld{"x", base(kInt)}), Out: strct()},
	}}
	for st := 0; st < 4; st++ {
		for f := 0; f < numFinalStyles; f++ {
			cases = append(cases, &c05Case{Desc: docd, Style: st, Final: f, LSeed: 1, Source: "docs"})
		}
	}
	for k := 0; k < r.Pick(200, 20000); k++ {
		cases = append(cases, &c05Case{Desc: docd, Style: 4, Final: rng.Intn(numFinalStyles), LSeed: rng.Int63(), Source: "docs"})
	}

	workers := runtime.NumCPU()
	kindSets := make([]map[string]bool, workers)
	for i := range kindSets {
		kindSets[i] = map[string]bool{}
	}
	fw.Parallel(workers, len(cases), func(w, i int) {
		c05One(r, w, cases[i], kindSets[w])
		if i%211 == 0 {
			t, _ := Render(cases[i].Desc, cases[i].Style, cases[i].Final, cases[i].LSeed, nil)
			r.Sample(map[string]interface{}{"source": cases[i].Source, "style": cases[i].Style, "text": t})
		}
	})
	for _, ks := range kindSets {
		for k := range ks {
			r.Distinct("layout_gap_kinds", k)
		}
	}
	r.Count("renderings", int64(len(cases)))
}

// bigDescs: descriptions whose size, width or depth is far beyond what the random generator draws.
func bigDescs() []*Desc {
	long := func(prefix string, n int) string {
		s := prefix
		for len(s) < n {
			s += "aB3"
		}
		return s
	}
	var out []*Desc
	// 90 members of all kinds
	d := &Desc{Name: "org.example.many-members.x1"}
	for i := 0; i < 30; i++ {
		d.Mems = append(d.Mems, Mem{Kind: 't', Name: fmt.Sprintf("T%d", i), T: strct(Fld{"v", base(kInt)})},
			Mem{Kind: 'm', Name: fmt.Sprintf("M%d", i), In: strct(Fld{"t", alias(fmt.Sprintf("T%d", (i+7)%30))}), Out: strct(Fld{"r", wrap(kArray, alias(fmt.Sprintf("T%d", i)))})},
			Mem{Kind: 'e', Name: fmt.Sprintf("E%d", i), T: strct(Fld{"why", base(kString)})})
	}
	out = append(out, d)
	// wide structs and long enums
	w := strct()
	var names []string
	for i := 0; i < 48; i++ {
		w.Fields = append(w.Fields, Fld{fmt.Sprintf("f%d_g%d", i, i), []*Ty{base(kInt), base(kString), wrap(kMaybe, base(kBool)), wrap(kArray, base(kFloat)), wrap(kMap, base(kObject))}[i%5]})
		names = append(names, fmt.Sprintf("n%d", i))
	}
	out = append(out, &Desc{Name: "a.b", Mems: []Mem{{Kind: 't', Name: "Wide", T: w}, {Kind: 't', Name: "LongEnum", T: enum(names...)}, {Kind: 't', Name: "One", T: enum("single")},
		{Kind: 'm', Name: "M", In: w, Out: strct(Fld{"e", enum(names...)}, Fld{"o", enum("single")})}, {Kind: 'e', Name: "E", T: w}}})
	// user types whose names are builtin type names or keywords with an upper-case initial, referenced everywhere
	{
		var mems []Mem
		fs := strct()
		for _, n := range []string{"String", "Int", "Bool", "Float", "Object", "STRING", "Integer", "Type", "Method", "Error", "Interface", "Stringx"} {
			mems = append(mems, Mem{Kind: 't', Name: n, T: strct(Fld{"v", base(kInt)})})
			fs.Fields = append(fs.Fields, Fld{strings.ToLower(n) + "_f", alias(n)}, Fld{"m" + strings.ToLower(n), wrap(kMaybe, wrap(kArray, alias(n)))})
		}
		mems = append(mems, Mem{Kind: 'm', Name: "Use", In: fs, Out: fs}, Mem{Kind: 'e', Name: "Bad", T: fs})
		out = append(out, &Desc{Name: "org.example.builtinlike", Mems: mems})
	}
	// very long lists
	for _, n := range []int{63, 64, 65, 66, 129, 300} {
		ws := strct()
		var en []string
		for i := 0; i < n; i++ {
			ws.Fields = append(ws.Fields, Fld{fmt.Sprintf("f%d", i), base(kInt)})
			en = append(en, fmt.Sprintf("e%d", i))
		}
		out = append(out, &Desc{Name: "org.example.lists", Mems: []Mem{{Kind: 't', Name: "S", T: ws}, {Kind: 't', Name: "En", T: enum(en...)}, {Kind: 'm', Name: "M", In: ws, Out: strct(Fld{"e", enum(en...)})}}})
	}
	// deep nesting
	deep := base(kString)
	for i := 0; i < 30; i++ {
		switch i % 4 {
		case 0:
			deep = wrap(kArray, deep)
		case 1:
			deep = wrap(kMap, deep)
		case 2:
			deep = strct(Fld{"inner", deep}, Fld{"n", base(kInt)})
		case 3:
			deep = wrap(kMaybe, deep)
		}
	}
	out = append(out, &Desc{Name: "deep.nesting", Mems: []Mem{{Kind: 't', Name: "Deep", T: strct(Fld{"d", deep})}, {Kind: 'm', Name: "M", In: strct(Fld{"d", deep}), Out: strct(Fld{"d", wrap(kMaybe, alias("Deep"))})}}})
	// counts beyond any plausible internal limit: hundreds of typeless errors before the typed members, thousands of
	// members, nesting depth in the hundreds
	{
		d := &Desc{Name: "org.example.counts"}
		for i := 0; i < 700; i++ {
			d.Mems = append(d.Mems, Mem{Kind: 'e', Name: fmt.Sprintf("Bare%d", i)})
		}
		d.Mems = append(d.Mems, Mem{Kind: 't', Name: "After", T: strct(Fld{"d", deep})}, Mem{Kind: 'm', Name: "M", In: strct(Fld{"a", alias("After")}), Out: strct()})
		out = append(out, d)
		d = &Desc{Name: "org.example.thousands"}
		for i := 0; i < 1100; i++ {
			d.Mems = append(d.Mems, Mem{Kind: 'e', Name: fmt.Sprintf("E%d", i)}, Mem{Kind: 't', Name: fmt.Sprintf("T%d", i), T: enum("a", "b")},
				Mem{Kind: 'm', Name: fmt.Sprintf("M%d", i), In: strct(), Out: strct(Fld{"r", wrap(kMaybe, alias(fmt.Sprintf("T%d", i)))})})
		}
		out = append(out, d)
		for _, depth := range []int{100, 520, 1500} {
			dd := base(kInt)
			for i := 0; i < depth; i++ {
				switch i % 4 {
				case 0:
					dd = wrap(kArray, dd)
				case 1:
					dd = wrap(kMap, dd)
				case 2:
					dd = strct(Fld{"i", dd})
				case 3:
					dd = wrap(kMaybe, dd)
				}
			}
			out = append(out, &Desc{Name: "deep.er", Mems: []Mem{{Kind: 'm', Name: "M", In: strct(Fld{"d", dd}), Out: strct()}}})
		}
	}
	// long names
	out = append(out, &Desc{Name: strings.Repeat("xY", 30) + "." + long("y", 60) + "." + long("z", 60), Mems: []Mem{{Kind: 't', Name: long("T", 130), T: strct(Fld{long("f", 130), alias(long("T", 130))}.maybe())},
		{Kind: 'm', Name: long("M", 200), In: strct(Fld{long("a", 90), base(kInt)}), Out: strct(Fld{long("b_", 90), wrap(kArray, alias(long("T", 130)))})}, {Kind: 'e', Name: long("E", 64), T: strct()}}})
	return out
}

func (f Fld) maybe() Fld { return Fld{f.Name, wrap(kMaybe, f.T)} }

func replayC05(r *fw.Run, raw json.RawMessage) {
	var c c05Case
	if err := json.Unmarshal(raw, &c); err != nil {
		// crash journal entries are the raw text
		var s string
		if json.Unmarshal(raw, &s) == nil {
			c = c05Case{Text: s, Desc: &Desc{}}
		}
	}
	if c.Desc == nil {
		c.Desc = &Desc{}
	}
	c05One(r, 0, &c, nil)
}

func init() {
	fw.Register(&fw.Engine{
		ID: "C05", Level: "exploration",
		Rule: "syntax trees of the varlink grammar: a bounded-exhaustive core (every type of nesting depth <= 2 over {5 builtins, alias, ?, [], [string], struct <= 2 fields, enum <= 2 names} at each of 5 positions; every member-kind sequence of length <= 3 containing a method, typeless and typed errors) rendered in 4 fixed layouts (canonical, tightest, CRLF, tabs) and N seeded random layouts (gaps drawn from {none, space, tab, CR, LF, CRLF, comment-to-end-of-line}, doc blocks, detached comments, 8 end-of-file forms), plus seeded random trees (<= 40 members, depth <= 8). A case = (tree, rendering); non-trivial = the tree has >= 2 members or a composite type; distinct by hash of (tree, text). Oracle: idl.New succeeds and the tree equals the generated one (names, member order in all four lists, every type nested as written, Description verbatim, documentation of comment blocks directly above a member). Plus large shapes: 90 members, 48-field structs and enums, lists of 63..300 entries, nesting depth 30, names of 130..200 characters, 700 typeless errors in front of typed members, 3300 members, nesting depth 100/520/1500, user types named like builtin types and keywords.",
		Assumptions: []string{"documentation is asserted only for a block of comment-only lines directly above a member whose keyword and name are on one line", "whitespace between a prefix (?, [], [string]) and its element type is not generated", "error parameter lists start on the line of the error name"},
		Run:         runC05, Replay: replayC05, CrashIsViolation: true, MinEvals: 1000,
	})
}
