package eng

// C19 - address strings are handled totally and consistently (engine e-addr).

import (
	"context"
	"encoding/json"
	"fmt"
	"math/rand"
	"net"
	"os"
	"path/filepath"
	"regexp"
	"strings"
	"time"

	"github.com/varlink/go/varlink"

	"verif/harness/internal/fw"
)

type c19Case struct {
	Addr   string `json:"addr"`
	Entry  string `json:"entry"`  // bind | listen
	Before string `json:"before"` // none | bound (a valid Bind that was not served) | served (a valid serve + shutdown)
	Pre    string `json:"pre"`    // none | stale-socket | regular-file
	Class  string `json:"class"`  // must-error | valid | total (only totality and consistency asserted)
	Path   string `json:"path,omitempty"`
	What   string `json:"what,omitempty"`
}

// c19Classify: what the statement fixes about a string, independent of the implementation.
func c19Classify(addr string) (class, proto, body string) {
	i := strings.Index(addr, ":")
	if i < 0 {
		return "must-error", "", ""
	}
	proto, body = addr[:i], addr[i+1:]
	if j := strings.Index(body, ";"); j >= 0 {
		body = body[:j]
	}
	if proto != "unix" && proto != "tcp" {
		return "must-error", proto, body
	}
	if proto == "unix" && body == "" {
		return "must-error", proto, body
	}
	return "total", proto, body
}

var c19Product int64

var c19ConcretePort = regexp.MustCompile(`^(127\.0\.0\.1|\[::1\]|localhost|):[1-9][0-9]{3,4}$`)

func c19Serve(svc *varlink.Service, entry, addr string, old net.Listener) (done chan error, bindErr error, p string) {
	done = make(chan error, 1)
	ctx := context.Background()
	if entry == "listen" {
		go func() {
			var err error
			if pn := catch(func() { err = svc.Listen(ctx, addr, 0) }); pn != "" {
				err = fmt.Errorf("PANIC %s", pn)
			}
			done <- err
		}()
		// either it returns an error promptly or a listener appears
		dl := time.Now().Add(10 * time.Second)
		for time.Now().Before(dl) {
			select {
			case err := <-done:
				if err != nil && strings.HasPrefix(err.Error(), "PANIC ") {
					return nil, nil, err.Error()
				}
				if err == nil {
					err = fmt.Errorf("Listen returned nil without serving")
				}
				return nil, err, ""
			default:
			}
			if l, _ := svc.GetListener(); l != nil && l != old {
				return done, nil, ""
			}
			time.Sleep(100 * time.Microsecond)
		}
		return done, nil, ""
	}
	var err error
	if pn := catch(func() { err = svc.Bind(ctx, addr) }); pn != "" {
		return nil, nil, pn
	}
	if err != nil {
		return nil, err, ""
	}
	go func() { done <- svc.DoListen(ctx, 0) }()
	return done, nil, ""
}

// c19Ready waits until the serving call answers on the listener's own address.
func c19Ready(svc *varlink.Service) {
	for try := 0; try < 400; try++ {
		l, _ := svc.GetListener()
		if l == nil {
			return
		}
		a := l.Addr()
		c, err := net.DialTimeout(a.Network(), a.String(), 2*time.Second)
		if err == nil {
			err = roundTrip(c, 5*time.Second)
			c.Close()
			if err == nil {
				return
			}
		}
		time.Sleep(250 * time.Microsecond)
	}
}

func c19Stop(svc *varlink.Service, done chan error) (error, bool) {
	c19Ready(svc)
	svc.Shutdown()
	svc.Shutdown() // a second Shutdown must be harmless
	select {
	case err := <-done:
		return err, true
	case <-time.After(20 * time.Second):
		return nil, false
	}
}

// c19Client: a client created with the same string completes a GetInfo round trip with the right identity.
func c19Client(addr, product string) error {
	var lastErr error
	for try := 0; try < 400; try++ {
		ctx, cancel := context.WithTimeout(context.Background(), 5*time.Second)
		var c *varlink.Connection
		var err error
		if pn := catch(func() { c, err = varlink.NewConnection(ctx, addr) }); pn != "" {
			cancel()
			return fmt.Errorf("PANIC in NewConnection: %s", pn)
		}
		if err == nil {
			var p string
			err = c.GetInfo(ctx, nil, &p, nil, nil, nil)
			c.Close()
			if err == nil && p != product {
				err = fmt.Errorf("reached a service with product %q, expected %q", p, product)
			}
		}
		cancel()
		if err == nil {
			return nil
		}
		lastErr = err
		time.Sleep(250 * time.Microsecond)
	}
	return lastErr
}

func c19One(r *fw.Run, c *c19Case) {
	report := func(class, format string, a ...interface{}) {
		r.Violation("C19 "+class, fmt.Sprintf("%s(%q) before=%s pre=%s: ", c.Entry, c.Addr, c.Before, c.Pre)+fmt.Sprintf(format, a...), c)
	}
	product := fmt.Sprintf("addr-%d", r.Seq())
	svc, err := varlink.NewService("Verif", product, "1", "u")
	if err != nil {
		return
	}
	class, proto, body := c19Classify(c.Addr)
	if c.Class == "valid" {
		class = "valid"
	}
	r.Distinct("classes", class+"/"+proto)
	valid0 := "unix:" + filepath.Join(r.WorkDir, fmt.Sprintf("v0-%d", r.Seq()))
	var leaked net.Listener
	switch c.Before {
	case "bound":
		if err := svc.Bind(context.Background(), valid0); err != nil {
			r.Inconclusive("preparatory Bind(%s): %v", valid0, err)
			return
		}
		leaked, _ = svc.GetListener()
	case "served":
		d, berr, pn := c19Serve(svc, "bind", valid0, nil)
		if berr != nil || pn != "" {
			r.Inconclusive("preparatory serve: %v %s", berr, pn)
			return
		}
		if err := c19Client(valid0, product); err != nil {
			r.Inconclusive("preparatory round trip: %v", err)
		}
		c19Stop(svc, d)
	}
	if leaked != nil {
		defer leaked.Close()
	}
	// pre-existing file at the path
	fsPath := ""
	if proto == "unix" && body != "" && body[0] != '@' {
		fsPath = body
	}
	if fsPath != "" {
		switch c.Pre {
		case "stale-socket":
			if l, err := net.Listen("unix", fsPath); err == nil {
				l.(*net.UnixListener).SetUnlinkOnClose(false)
				l.Close()
			}
		case "regular-file":
			os.WriteFile(fsPath, []byte("x"), 0600)
		}
	}
	done, bindErr, pn := c19Serve(svc, c.Entry, c.Addr, leaked)
	if pn != "" {
		report("panic", "%s", pn)
		return
	}
	r.Count("entry_calls", 1)
	if class == "must-error" {
		if bindErr == nil {
			report("invalid-address-accepted", "the string lacks '<protocol>:', names another protocol, or names an empty unix path, but %s returned no error", c.Entry)
			if done != nil {
				c19Stop(svc, done)
			}
			return
		}
	}
	if class == "valid" && bindErr != nil {
		if proto == "tcp" && strings.Contains(bindErr.Error(), "address already in use") {
			r.Inconclusive("tcp port was taken by someone else: %v", bindErr)
			return
		}
		report("valid-address-refused", "%s returned %v", c.Entry, bindErr)
		return
	}
	if bindErr == nil && done != nil {
		// consistency: the same string on the client side reaches this service
		skipClient := (proto == "unix" && body == "@") || (proto == "tcp" && (body == "" || strings.HasSuffix(body, ":0") || strings.HasSuffix(body, ":")))
		if c.What == "free composition" && proto == "tcp" && !c19ConcretePort.MatchString(body) {
			skipClient = true // port 0 spellings, named ports, wildcard hosts: where the listener ends up is the system's choice
		}
		if !skipClient {
			if err := c19Client(c.Addr, product); err != nil {
				if strings.HasPrefix(err.Error(), "PANIC") {
					report("panic", "%v", err)
				} else {
					report("client-does-not-reach-service", "%s succeeded, but a client given the same string does not complete a GetInfo round trip: %v", c.Entry, err)
				}
			}
			r.Count("round_trips", 1)
		}
		if proto == "unix" && len(body) > 1 && body[0] == '@' {
			if _, err := os.Lstat(body); err == nil {
				report("abstract-created-file", "a filesystem entry %q exists", body)
			}
			rc, err := net.DialTimeout("unix", "\x00"+body[1:], 5*time.Second)
			if err != nil {
				report("abstract-not-reachable", "raw dial of the abstract address failed: %v", err)
			} else {
				if err := roundTrip(rc, 5*time.Second); err != nil {
					report("abstract-not-reachable", "raw dial of the abstract address: %v", err)
				}
				rc.Close()
			}
			r.Count("abstract_checks", 1)
		}
		if fsPath != "" {
			fi, err := os.Lstat(fsPath)
			if err != nil || fi.Mode()&os.ModeSocket == 0 {
				report("socket-file-missing", "after a successful bind the path %q is not a socket (%v)", fsPath, err)
			}
			r.Count("socket_file_checks", 1)
		}
		serr, ok := c19Stop(svc, done)
		if !ok {
			report("no-return-after-shutdown", "serving call did not return within 20 s")
			return
		}
		if serr != nil {
			report("shutdown-returned-error", "%v", serr)
		}
		if fsPath != "" {
			if _, err := os.Lstat(fsPath); err == nil {
				report("socket-file-left-behind", "after Shutdown made serving return, %q still exists", fsPath)
			}
		}
	}
	// after any outcome the same object binds a valid address and serves it
	valid1 := "unix:" + filepath.Join(r.WorkDir, fmt.Sprintf("v1-%d", r.Seq()))
	d1, berr, pn := c19Serve(svc, "bind", valid1, nil)
	if pn != "" {
		report("panic", "follow-up Bind: %s", pn)
		return
	}
	if berr != nil {
		report("cannot-bind-again", "after this call, Bind(%q) on the same service object returned %v", valid1, berr)
		return
	}
	if err := c19Client(valid1, product); err != nil {
		report("cannot-bind-again", "after this call the service was bound to %q but does not answer there: %v", valid1, err)
	}
	if _, ok := c19Stop(svc, d1); !ok {
		report("no-return-after-shutdown", "follow-up serving call did not return")
	}
	// the client side alone, for totality
	if pn := catch(func() {
		ctx, cancel := context.WithTimeout(context.Background(), 2*time.Second)
		defer cancel()
		if cc, err := varlink.NewConnection(ctx, c.Addr); err == nil {
			cc.Close()
		}
	}); pn != "" {
		report("panic", "NewConnection: %s", pn)
	}
	r.Count("client_calls", 1)
}

func freePort() int {
	l, err := net.Listen("tcp", "127.0.0.1:0")
	if err != nil {
		return 0
	}
	defer l.Close()
	return l.Addr().(*net.TCPAddr).Port
}

func genC19(r *fw.Run, rng *rand.Rand, n int) []*c19Case {
	var out []*c19Case
	k := 0
	newPath := func() string { k++; return filepath.Join(r.WorkDir, fmt.Sprintf("a%d", k)) }
	add := func(mk func() string, what, class string) {
		befores := []string{"none", "bound", "served"}
		for _, e := range []string{"bind", "listen"} {
			c := &c19Case{Addr: mk(), Entry: e, Before: befores[rng.Intn(3)], Pre: []string{"none", "none", "stale-socket", "regular-file"}[rng.Intn(4)], What: what, Class: class}
			out = append(out, c)
		}
	}
	tails := []string{"", ";mode=0600", ";", ";a=b;c=d", ";:x", "; "}
	// the grammar
	for len(out) < n {
		tail := tails[rng.Intn(len(tails))]
		switch rng.Intn(30) {
		case 0:
			add(func() string { return "unix:"+newPath()+tail }, "absolute path", "valid")
		case 1:
			add(func() string { k++; return fmt.Sprintf("unix:rel%d%s", k, tail) }, "relative path", "valid")
		case 2:
			add(func() string { k++; return fmt.Sprintf("unix:@vf19-%d-%d%s", os.Getpid(), k, tail) }, "abstract", "valid")
		case 3:
			add(func() string { return "unix:@"+tail }, "empty abstract name", "")
		case 4:
			add(func() string { return "unix:"+tail }, "empty unix path", "")
		case 5:
			add(func() string { return "unix:"+filepath.Join(r.WorkDir, "missing-dir", "sock")+tail }, "path in a missing directory", "")
		case 6:
			add(func() string { return "unix:"+filepath.Join(r.WorkDir, strings.Repeat("long", 40))+tail }, "over-long path", "")
		case 7:
			add(func() string { return fmt.Sprintf("tcp:127.0.0.1:%d%s", freePort(), tail) }, "host:port", "valid")
		case 8:
			add(func() string { return "tcp:127.0.0.1:0"+tail }, "port 0", "")
		case 9:
			add(func() string { return fmt.Sprintf("tcp::%d%s", freePort(), tail) }, ":port", "")
		case 10:
			add(func() string { return fmt.Sprintf("tcp:%d%s", 1024+rng.Intn(60000), tail) }, "port only", "")
		case 11:
			add(func() string { return fmt.Sprintf("tcp:[::1]:%d%s", freePort(), tail) }, "ipv6", "")
		case 12:
			add(func() string { return "tcp:"+tail }, "empty tcp", "")
		case 13:
			add(func() string { return []string{"foo", "", "unix", "tcp", "/run/x", "@abstract", "127.0.0.1", "unix/path", "unix;path"}[rng.Intn(9)] }, "no protocol separator", "")
		case 14:
			add(func() string { return []string{"UNIX", "Unix", "TCP", "tcp4", "tcp6", "udp", "unixgram", "unixpacket", "http", "ssh", " unix", "unix ", "xunix", "", "unix\x00", "device", "exec"}[rng.Intn(17)]+":"+newPath()+tail }, "other protocol", "")
		case 15:
			add(func() string { return ":"+newPath()+tail }, "empty protocol", "")
		case 16:
			add(func() string { return "unix:"+newPath()+":with:colons"+tail }, "colons in path", "valid")
		case 17:
			add(func() string { return "unix:"+newPath()+" with space é😀"+tail }, "unicode path", "valid")
		case 18:
			add(func() string { return "tcp:127.0.0.1:notaport"+tail }, "bad port", "")
		case 19:
			add(func() string { return "tcp:256.300.1.1:80"+tail }, "bad ip", "")
		case 20:
			// random printable garbage (never a usable network name, never an absolute path)
			b := make([]byte, 1+rng.Intn(12))
			for i := range b {
				const alpha = " !#$%&()*+,-.0123456789:;<=>?@[]^_{|}~xyzXYZ"
				b[i] = alpha[rng.Intn(len(alpha))]
			}
			s := string(b)
			if i := strings.Index(s, ":"); i >= 0 {
				s = "x" + s
			}
			add(func() string { return s }, "random", "")
		case 21:
			add(func() string { return "unix:;"+[]string{"", "x", "/abs"}[rng.Intn(3)] }, "semicolon right after the colon", "")
		case 22:
			// absolute paths whose length is around the sockaddr_un limit (107 bytes is the longest that fits)
			add(func() string {
				base := newPath() + "-"
				n := 100 + rng.Intn(10)
				for len(base) < n {
					base += "p"
				}
				return "unix:" + base + tail
			}, "path length near the limit", "")
		case 23:
			add(func() string { return "unix:" + newPath() + "/" + tail }, "trailing slash", "")
		case 28:
			add(func() string { return "unix:" + newPath() + []string{"@1000", "@", "a@b.c", "@@"}[rng.Intn(4)] + tail }, "'@' inside a filesystem path", "valid")
		case 29:
			add(func() string { k++; return fmt.Sprintf("unix:rel%d%s%s", k, []string{"@1", "@", ".@."}[rng.Intn(3)], tail) }, "'@' inside a relative path", "valid")
		case 24, 25, 26, 27:
			// free composition: protocol part, separator, 0-4 body tokens, tail - whatever comes out is judged by c19Classify alone
			protos := []string{"unix", "unix", "unix", "tcp", "tcp", "", "UNIX", "unix ", " tcp", "unixx", "tc", "@", "é"}
			seps := []string{":", ":", ":", ":", "", "::", ";", ":;", " :"}
			mk := func() string {
				k++
				uniq := fmt.Sprintf("u%d", k)
				toks := []string{"@", "@", uniq, filepath.Join(r.WorkDir, uniq), "127.0.0.1", ":", fmt.Sprint(freePort()), "0", "[::1]", " ", "é", "=", "mode=0600", "localhost", "-", "%", "\\", "@@", "unix:", "tcp:"}
				body := ""
				for i, m := 0, rng.Intn(5); i < m; i++ {
					body += toks[rng.Intn(len(toks))]
				}
				s := protos[rng.Intn(len(protos))] + seps[rng.Intn(len(seps))] + body
				// two cases never share a filesystem or abstract name: a unix body without this case's unique token gets it appended
				if _, pr, b := c19Classify(s); pr == "unix" && b != "" && !strings.Contains(b, uniq) && !strings.Contains(s[len(pr)+1:], ";") {
					s += uniq
				}
				return s + tail
			}
			add(mk, "free composition", "")
		}
	}
	return out
}

func runC19(r *fw.Run) {
	os.Chdir(r.WorkDir)
	rng := rand.New(rand.NewSource(r.Seed*43 + 19))
	cases := genC19(r, rng, r.Pick(6000, 400000))
	fw.Parallel(8, len(cases), func(w, i int) {
		c := cases[i]
		r.Journal(w, c)
		if pn := catch(func() { c19One(r, c) }); pn != "" {
			r.Violation("C19 panic", pn, c)
		}
		r.Done(w)
		shape := ""
		if c.What == "free composition" {
			shape = c19Shape(r.WorkDir, c.Addr)
			r.Distinct("composition_shapes", shape)
		}
		r.Case(fw.Hash(c.What, c.Entry, c.Before, c.Pre, fmt.Sprint(strings.Contains(c.Addr, ";")), shape), true)
		r.Distinct("address_forms", c.What)
		if i%90 == 0 {
			r.Sample(c)
		}
	})
}

// c19Shape: the composed string with the work directory, counters and port numbers abstracted away.
func c19Shape(wd, a string) string {
	a = strings.ReplaceAll(a, wd, "<wd>")
	return c19Digits.ReplaceAllString(a, "N")
}

var c19Digits = regexp.MustCompile(`[0-9]+`)

func replayC19(r *fw.Run, raw json.RawMessage) {
	os.Chdir(r.WorkDir)
	var c c19Case
	if json.Unmarshal(raw, &c) != nil || c.Entry == "" {
		return
	}
	c19One(r, &c)
	r.Case(1, true)
	r.Case(2, true)
}

func init() {
	fw.Register(&fw.Engine{
		ID: "C19", Level: "exploration",
		Rule: "a case = (address string, entry point Bind or Listen, what the same Service object did before: nothing / a valid Bind that was never served / a full serve+shutdown, pre-existing file at the path: none / stale socket / regular file). Strings come from an address grammar: protocol in {unix, tcp, upper/mixed case, other Go network names, blanks, empty, missing}; bodies: absolute path in the work directory, relative path, '@name', '@', empty, path in a missing directory, over-long path, colons, unicode and '@' (not in first place) in the path, host:port, ':port', port only, IPv6, port 0, bad port, bad IP, empty; each with one of 6 ';parameter' tails (incl. ';' directly after the colon); plus random printable strings, plus free compositions (any of 13 protocol parts, 9 separators, 0-4 of 20 body tokens, tail; client reachability over tcp only asserted when the string names a concrete loopback port). Oracle: never a panic from Bind, Listen or NewConnection; strings lacking '<protocol>:', naming another protocol or an empty unix path => an error, whatever was bound before; forms listed as valid => success; whenever binding succeeds a client created with the SAME string completes a GetInfo round trip with this service's unique product string (so both sides drop the same ';' tail and agree on '@'); '@name': no filesystem entry, raw dial of \\0name is served; filesystem sockets: the path is a socket after bind (stale socket / file replaced) and gone after Shutdown made serving return; after every outcome the same object binds a fresh valid address and serves it. distinct by (form, entry, before, pre, tail, shape of a free composition).",
		Assumptions: []string{"unix:@ (kernel autobind) and port 0 are judged for totality only", "no host names are generated (the sandbox has no resolver)"},
		Run:         runC19, Replay: replayC19, CrashIsViolation: true, MinEvals: 100,
		QuickTimeout: 15 * time.Minute, ThoroughTimeout: 60 * time.Minute,
	})
}
