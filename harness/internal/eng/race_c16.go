package eng

// C16 - no data races in the library under its intended concurrent use (engine e-race).
// This engine runs in the -race build of the driver; the deciding oracle is the race detector
// (reports are collected from GORACE log files by the parent, see internal/racelog).

import (
	"context"
	"encoding/json"
	"fmt"
	"math/rand"
	"net"
	"os"
	"path/filepath"
	"sort"
	"strings"
	"sync"
	"time"

	"github.com/varlink/go/varlink"

	"verif/harness/internal/fw"
)

var c16Ops = []string{"shutdown", "getlistener", "register-new", "register-dup", "client-call", "client-abort", "ctx-cancel", "client-more", "held-calls"}

type c16Case struct {
	Ops     []string `json:"ops"`
	Listen  bool     `json:"listen"`
	Offsets []int    `json:"offsets_us"`
	Timeout bool     `json:"timeout"` // serve with an (hour long) idle timeout: the accept loop then also re-arms the listener deadline
}

func c16Tuple(r *fw.Run, c *c16Case, idx int) {
	svc, err := varlink.NewService("Verif", "Race", "1", "u")
	if err != nil {
		return
	}
	log := newEvLog(r)
	svc.RegisterInterface(&ScriptDisp{Name: "org.example.script", Desc: defaultDesc("org.example.script"), Log: log})
	// 0 .. 4 further interfaces (the length and spare capacity of the service's tables vary from case to case); the names a
	// "register-new" operation adds sort in front of all of them (seeded change C16-O: an in-place sort of the name list
	// while a handler encodes a snapshot of it)
	for k := 0; k < idx%5; k++ {
		n := fmt.Sprintf("org.zeta.z%d", k)
		svc.RegisterInterface(&ScriptDisp{Name: n, Desc: defaultDesc(n), Log: log})
	}
	p := filepath.Join(r.WorkDir, fmt.Sprintf("rc%d", r.Seq()))
	addr := "unix:" + p
	ctx, cancel := context.WithCancel(context.Background())
	defer cancel()
	done := make(chan error, 1)
	to := time.Duration(0)
	if c.Timeout {
		to = time.Hour
	}
	if c.Listen {
		go func() { done <- svc.Listen(ctx, addr, to) }()
	} else {
		if err := svc.Bind(ctx, addr); err != nil {
			r.Inconclusive("bind: %v", err)
			return
		}
		go func() { done <- svc.DoListen(ctx, to) }()
	}
	// known to be serving: a completed round trip
	ok := false
	for try := 0; try < 4000; try++ {
		if c, err := net.DialTimeout("unix", p, time.Second); err == nil {
			err = roundTrip(c, 5*time.Second)
			c.Close()
			if err == nil {
				ok = true
				break
			}
		}
		time.Sleep(250 * time.Microsecond)
	}
	if !ok {
		r.Inconclusive("service did not start serving")
		svc.Shutdown()
		return
	}
	// a connection that stays open during the operations (a handler goroutine reading)
	held, _ := net.DialTimeout("unix", p, time.Second)
	gate := make(chan struct{})
	var wg sync.WaitGroup
	type span struct {
		op         string
		begin, end int64
	}
	spans := make([]span, len(c.Ops))
	for i, op := range c.Ops {
		wg.Add(1)
		go func(i int, op string) {
			defer wg.Done()
			<-gate
			if c.Offsets[i] > 0 {
				time.Sleep(time.Duration(c.Offsets[i]) * time.Microsecond)
			}
			spans[i].op = op
			spans[i].begin = r.Seq()
			switch op {
			case "shutdown":
				svc.Shutdown()
			case "getlistener":
				for k := 0; k < 20; k++ {
					svc.GetListener()
				}
			case "register-new":
				svc.RegisterInterface(&ScriptDisp{Name: fmt.Sprintf("org.alpha.new%d", i), Desc: "interface x.y\nmethod M()->()", Log: log})
			case "register-dup":
				svc.RegisterInterface(&ScriptDisp{Name: "org.example.script", Desc: "interface x.y\nmethod M()->()", Log: log})
			case "client-call", "client-more":
				cctx, ccancel := context.WithTimeout(context.Background(), 5*time.Second)
				if conn, err := varlink.NewConnection(cctx, addr); err == nil {
					if op == "client-more" {
						cs := &CallScript{ID: "m", Steps: []Step{{Op: "reply", Cont: true}, {Op: "reply", Cont: true}, {Op: "reply"}}}
						if recv, err := conn.Send(cctx, "org.example.script.M", cs, varlink.More); err == nil {
							for k := 0; k < 3; k++ {
								var out json.RawMessage
								if _, err := recv(cctx, &out); err != nil {
									break
								}
							}
						}
					} else {
						var v string
						conn.GetInfo(cctx, &v, nil, nil, nil, nil)
						conn.GetInterfaceDescription(cctx, "org.example.script")
					}
					conn.Close()
				}
				ccancel()
			case "held-calls":
				// introspection on the connection that was open before the operations began: it is still served while a
				// Shutdown drains the service (when registrations are accepted again)
				if held != nil {
					buf := make([]byte, 8192)
					for k := 0; k < 12; k++ {
						m := `{"method":"org.varlink.service.GetInfo"}`
						if k%3 == 2 {
							m = `{"method":"org.varlink.service.GetInterfaceDescription","parameters":{"interface":"org.zeta.z0"}}`
						}
						held.SetDeadline(time.Now().Add(5 * time.Second))
						if _, err := held.Write([]byte(m + "\x00")); err != nil {
							break
						}
						for {
							n, err := held.Read(buf)
							if err != nil || (n > 0 && buf[n-1] == 0) {
								break
							}
						}
					}
				}
			case "client-abort":
				if rc, err := net.DialTimeout("unix", p, time.Second); err == nil {
					rc.Write([]byte(`{"method":"org.varlink.service.GetInfo"}` + "\x00" + `{"method":"org.example.scr`))
					rc.Close()
				}
			case "ctx-cancel":
				cancel()
			}
			spans[i].end = r.Seq()
		}(i, op)
	}
	close(gate)
	wg.Wait()
	// order signature: the begin/end events sorted by logical time
	type evt struct {
		seq int64
		s   string
	}
	var evs []evt
	for i, s := range spans {
		evs = append(evs, evt{s.begin, fmt.Sprintf("b%d", i)}, evt{s.end, fmt.Sprintf("e%d", i)})
	}
	sort.Slice(evs, func(a, b int) bool { return evs[a].seq < evs[b].seq })
	sig := make([]string, len(evs))
	for i, e := range evs {
		sig[i] = e.s
	}
	r.Distinct("order_signatures", strings.Join(c.Ops, "+")+fmt.Sprint(c.Listen)+":"+strings.Join(sig, ""))
	if held != nil {
		held.Close()
	}
	svc.Shutdown()
	select {
	case <-done:
	case <-time.After(20 * time.Second):
		r.Note("tuple %v: serving call did not return within 20 s (judged by C14, not here)", c.Ops)
	}
	r.Count("tuples_run", 1)
}

// c16Client: one goroutine at a time uses a connection; operations are cancelled and the caller
// immediately reuses (overwrites) the buffers it had passed in.
func c16Client(r *fw.Run, transport string, reps int, rng *rand.Rand) {
	for k := 0; k < reps; k++ {
		e, err := newCtxEnd(r, transport)
		if err != nil {
			r.Inconclusive("transport %s: %v", transport, err)
			return
		}
		buf := make([]byte, 4096)
		wbuf := bigPattern(1 << 20)
		for j := 0; j < 6; j++ {
			ctx, cancel := context.WithCancel(context.Background())
			if j%2 == 0 {
				ctx, cancel = context.WithTimeout(context.Background(), time.Duration(200+rng.Intn(1500))*time.Microsecond)
			} else {
				go func(d int) { time.Sleep(time.Duration(d) * time.Microsecond); cancel() }(rng.Intn(1500))
			}
			switch j % 3 {
			case 0:
				e.rw.Read(ctx, buf)
				for i := range buf { // the caller reuses its buffer as soon as the call has returned
					buf[i] = byte(j)
				}
			case 1:
				e.rw.ReadBytes(ctx, 0)
			case 2:
				e.rw.Write(ctx, wbuf)
				for i := 0; i < len(wbuf); i += 4096 {
					wbuf[i] = byte(j)
				}
			}
			cancel()
		}
		if e.conn != nil {
			ctx, cancel := context.WithTimeout(context.Background(), time.Millisecond)
			var out json.RawMessage
			e.conn.Call(ctx, "org.example.M", map[string]int{"a": 1}, &out)
			cancel()
		}
		e.Close()
		r.Count("client_cancel_sequences", 1)
	}
}

// duplexDisp: after an upgrade call the handler reads Call.Conn in one goroutine and writes it in another
// (which the connection type allows) until the peer closes.
type duplexDisp struct{}

func (d *duplexDisp) VarlinkGetName() string        { return "org.example.duplex" }
func (d *duplexDisp) VarlinkGetDescription() string { return "interface org.example.duplex\nmethod Up() -> ()\n" }
func (d *duplexDisp) VarlinkDispatch(ctx context.Context, c varlink.Call, m string) error {
	if err := c.Reply(ctx, nil); err != nil {
		return err
	}
	var wg sync.WaitGroup
	wg.Add(1)
	stop := make(chan struct{})
	go func() {
		defer wg.Done()
		buf := bigPattern(2048)
		for {
			select {
			case <-stop:
				return
			default:
			}
			if _, err := c.Conn.Write(ctx, buf); err != nil {
				return
			}
		}
	}()
	rb := make([]byte, 512)
	for {
		if _, err := c.Conn.Read(ctx, rb); err != nil {
			break
		}
	}
	close(stop)
	wg.Wait()
	return fmt.Errorf("duplex done")
}

// c16FirstContact: a service that has answered nothing yet gets its first calls from several connections at the
// same instant (readiness is a bare connect, no call), so state the library builds on first use is built while other
// handlers are looking at it.
func c16FirstContact(r *fw.Run, reps int, rng *rand.Rand) {
	frames := []string{
		`{"method":"org.varlink.service.GetInfo"}`,
		`{"method":"org.varlink.service.GetInterfaceDescription","parameters":{"interface":"org.example.script"}}`,
		`{"method":"org.varlink.service.GetInterfaceDescription","parameters":{"interface":"org.varlink.service"}}`,
		`{"method":"org.example.script.M","parameters":{"id":"f","steps":[{"op":"reply"}]}}`,
		`{"method":"org.example.nosuch.M"}`,
		`{"method":"org.example.script.Nosuch"}`,
		`{"method":"org.example.script.M","parameters":{"id":"b","steps":[{"op":"badreply"},{"op":"reply"}]}}`,
		`{"method":"org.example.script.M","more":true,"parameters":{"id":"c","steps":[{"op":"reply","cont":true},{"op":"badreply"},{"op":"reply"}]}}`,
	}
	for k := 0; k < reps; k++ {
		r.Journal(9, map[string]interface{}{"what": "first contact", "round": k})
		svc, err := varlink.NewService("Verif", "First", "1", "u")
		if err != nil {
			return
		}
		log := newEvLog(r)
		svc.RegisterInterface(&ScriptDisp{Name: "org.example.script", Desc: defaultDesc("org.example.script"), Log: log})
		svc.RegisterInterface(&ScriptDisp{Name: "org.example.other", Desc: defaultDesc("org.example.other"), Log: log})
		p := filepath.Join(r.WorkDir, fmt.Sprintf("fc%d", r.Seq()))
		ctx, cancel := context.WithCancel(context.Background())
		done := make(chan error, 1)
		// half of the rounds serve with a short idle timeout and end by letting it expire after the connections have gone
		to := time.Duration(0)
		if k%4 >= 2 {
			to = 60 * time.Millisecond
		}
		if k%2 == 0 {
			go func() { done <- svc.Listen(ctx, "unix:"+p, to) }()
		} else {
			if err := svc.Bind(ctx, "unix:"+p); err != nil {
				cancel()
				continue
			}
			go func() { done <- svc.DoListen(ctx, to) }()
		}
		n := 2 + rng.Intn(5)
		conns := make([]net.Conn, 0, n)
		for try := 0; try < 4000 && len(conns) < n; try++ {
			c, err := net.DialTimeout("unix", p, time.Second)
			if err != nil {
				time.Sleep(250 * time.Microsecond)
				continue
			}
			conns = append(conns, c)
		}
		gate := make(chan struct{})
		var wg sync.WaitGroup
		for i, c := range conns {
			wg.Add(1)
			same := k%3 == 0 // every connection starts with the same call / each with its own
			go func(i int, c net.Conn) {
				defer wg.Done()
				<-gate
				c.SetDeadline(time.Now().Add(10 * time.Second))
				for j := 0; j < 8; j++ {
					f := frames[(i+j)%len(frames)]
					if same && j == 0 {
						f = frames[k/3%len(frames)]
					}
					if _, err := c.Write([]byte(f + "\x00")); err != nil {
						return
					}
					buf := make([]byte, 4096)
					for {
						m, err := c.Read(buf)
						if err != nil || (m > 0 && buf[m-1] == 0) {
							break
						}
					}
				}
			}(i, c)
		}
		close(gate)
		wg.Wait()
		for _, c := range conns {
			c.Close()
		}
		if to != 0 {
			select {
			case err := <-done:
				done <- err
				if _, ok := err.(varlink.ServiceTimeoutError); ok {
					r.Count("first_contact_rounds_ended_by_idle_timeout", 1)
				}
			case <-time.After(5 * time.Second):
			}
		}
		svc.Shutdown()
		select {
		case <-done:
		case <-time.After(20 * time.Second):
		}
		cancel()
		r.Count("first_contact_rounds", 1)
		r.Count("first_contact_connections", int64(len(conns)))
	}
	r.Done(9)
}

// lockedWriter: the caller's stderr sink; safe for the writer goroutine os/exec starts.
type lockedWriter struct {
	mu sync.Mutex
	n  int
}

func (w *lockedWriter) Write(b []byte) (int, error) {
	w.mu.Lock()
	w.n += len(b)
	w.mu.Unlock()
	return len(b), nil
}

// c16Bridges: client connections over bridge subprocesses that write to stderr - before they fail, while they work, or
// never - used by one goroutine; the library's own goroutines (and the ones os/exec starts for it) must not race with it.
func c16Bridges(r *fw.Run, reps int) {
	exe, _ := os.Executable()
	svc, err := varlink.NewService("Verif", "Bridged", "1", "u")
	if err != nil {
		return
	}
	p := filepath.Join(r.WorkDir, fmt.Sprintf("br%d", r.Seq()))
	ctx, cancel := context.WithCancel(context.Background())
	defer cancel()
	if err := svc.Bind(ctx, "unix:"+p); err != nil {
		return
	}
	done := make(chan error, 1)
	go func() { done <- svc.DoListen(ctx, 0) }()
	relay := fmt.Sprintf("exec '%s' --helper bridge unix '%s'", exe, p)
	cmds := []string{
		"echo 'bridge: cannot reach the service' >&2; exit 1",
		"echo 'bridge: warning, slow link' >&2; " + relay,
		relay,
		"echo one >&2; echo two >&2; exec 1>&-; sleep 0.05",
		"exit 0",
	}
	for k := 0; k < reps; k++ {
		sink := &lockedWriter{}
		conn, err := varlink.NewBridgeWithStderr(cmds[k%len(cmds)], sink)
		if err != nil {
			continue
		}
		cctx, ccancel := context.WithTimeout(context.Background(), 5*time.Second)
		var vendor string
		for j := 0; j < 3; j++ {
			if conn.GetInfo(cctx, &vendor, nil, nil, nil, nil) != nil {
				break
			}
		}
		ccancel()
		conn.Close()
		r.Count("bridge_connections", 1)
	}
	svc.Shutdown()
	select {
	case <-done:
	case <-time.After(20 * time.Second):
	}
}

func c16Duplex(r *fw.Run, reps int) {
	svc, err := varlink.NewService("Verif", "Duplex", "1", "u")
	if err != nil {
		return
	}
	svc.RegisterInterface(&duplexDisp{})
	p := filepath.Join(r.WorkDir, fmt.Sprintf("dx%d", r.Seq()))
	ctx, cancel := context.WithCancel(context.Background())
	defer cancel()
	if err := svc.Bind(ctx, "unix:"+p); err != nil {
		return
	}
	done := make(chan error, 1)
	go func() { done <- svc.DoListen(ctx, 0) }()
	for k := 0; k < reps; k++ {
		c, err := net.DialTimeout("unix", p, 2*time.Second)
		if err != nil {
			time.Sleep(time.Millisecond)
			continue
		}
		c.SetDeadline(time.Now().Add(10 * time.Second))
		c.Write([]byte("{\"method\":\"org.example.duplex.Up\",\"upgrade\":true}\x00"))
		buf := make([]byte, 4096)
		total := 0
		for total < 20000+k*100 {
			n, err := c.Read(buf)
			total += n
			if err != nil {
				break
			}
			if total%3 == 0 {
				c.Write([]byte("ping"))
			}
		}
		// the peer ends its sending side (the handler's reader sees end of stream) while it keeps reading what the
		// handler's writer is still writing; then it goes away
		closeWrite(c)
		for extra := 0; extra < 60000; {
			n, err := c.Read(buf)
			extra += n
			if err != nil {
				break
			}
		}
		c.Close()
		r.Count("duplex_handler_runs", 1)
	}
	svc.Shutdown()
	select {
	case <-done:
	case <-time.After(20 * time.Second):
	}
}

func runC16(r *fw.Run) {
	rng := rand.New(rand.NewSource(r.Seed*59 + 16))
	var tuples [][]string
	for i := 0; i < len(c16Ops); i++ {
		for j := i; j < len(c16Ops); j++ {
			tuples = append(tuples, []string{c16Ops[i], c16Ops[j]})
		}
	}
	if !r.Thorough {
		// the triples that put a registration attempt next to a Shutdown and live handlers
		for rep := 0; rep < 4; rep++ {
			tuples = append(tuples, []string{"shutdown", "register-new", "client-call"}, []string{"shutdown", "register-new", "register-new"},
				[]string{"shutdown", "register-new", "client-more"}, []string{"shutdown", "register-dup", "client-call"},
				[]string{"shutdown", "register-new", "held-calls"}, []string{"shutdown", "register-new", "held-calls"},
				[]string{"shutdown", "register-new", "register-new", "held-calls"})
		}
	}
	if r.Thorough {
		for i := 0; i < len(c16Ops); i++ {
			for j := i; j < len(c16Ops); j++ {
				for k := j; k < len(c16Ops); k++ {
					tuples = append(tuples, []string{c16Ops[i], c16Ops[j], c16Ops[k]})
				}
			}
		}
	}
	reps := r.Pick(6, 40)
	var cases []*c16Case
	for _, t := range tuples {
		for rep := 0; rep < reps; rep++ {
			c := &c16Case{Ops: t, Listen: rep%2 == 0, Timeout: rep%3 == 1}
			for range t {
				c.Offsets = append(c.Offsets, []int{0, 0, 50, 200, 800, 2000}[rng.Intn(6)])
			}
			cases = append(cases, c)
		}
	}
	fw.Parallel(8, len(cases), func(w, i int) {
		c := cases[i]
		r.Journal(w, c)
		c16Tuple(r, c, i)
		r.Done(w)
		r.Case(fw.Hash(strings.Join(c.Ops, "+"), fmt.Sprint(c.Listen, c.Offsets)), true)
		r.Distinct("operation_tuples", strings.Join(c.Ops, "+"))
		if i%60 == 0 {
			r.Sample(c)
		}
	})
	r.Count("repetitions_per_tuple", int64(reps))
	// client connections and raw connections under cancellation, buffers reused by the caller
	for _, tr := range []string{"pipe", "unix", "tcp", "client-unix", "bridge"} {
		r.Journal(9, map[string]interface{}{"what": "client connection under cancellation", "transport": tr})
		c16Client(r, tr, r.Pick(8, 60), rng)
		r.Done(9)
	}
	r.Journal(9, map[string]interface{}{"what": "bridge subprocesses writing to stderr"})
	c16Bridges(r, r.Pick(20, 200))
	r.Done(9)
	r.Journal(9, map[string]interface{}{"what": "duplex handler"})
	c16Duplex(r, r.Pick(30, 300))
	r.Done(9)
	c16FirstContact(r, r.Pick(60, 600), rng)
	// handler I/O under cancellation, per-connection reads under a cancelled serving context
	scratch := fw.NewRun(r.Tier, r.Seed, r.WorkDir, r.Repo)
	r.Journal(9, map[string]interface{}{"what": "re-run of the C17 service side, the C01 rounds (and in the thorough tier C14 epochs, C17 matrix) in the race build"})
	defer r.Done(9)
	for k := 0; k < r.Pick(2, 8); k++ {
		c17Service(scratch, "unix", k%2 == 0)
		r.Count("handler_io_cancellations", 1)
	}
	// concurrent connections with scripted handlers (the C01 workload) in the race build
	{
		g, err := newRig(scratch, RigOpt{Transport: "unix", Ifaces: c01Ifaces, UseListen: true})
		if err == nil {
			jg := &JGen{R: rng}
			for k := 0; k < r.Pick(30, 300); k++ {
				cc := &c01Case{Transport: "unix", Ifaces: c01Ifaces}
				for j := 0; j < 2+rng.Intn(8); j++ {
					cc.Conns = append(cc.Conns, genConnScript(rng, jg, fmt.Sprintf("r%d_%d", k, j), 5, true))
				}
				c01Round(scratch, g, "C01", cc, true)
				r.Count("concurrent_connection_rounds", 1)
			}
			g.Stop()
		}
	}
	if r.Thorough {
		c14Real(scratch, "unix", true, 30, 4, r.Seed)
		c14Real(scratch, "tcp", false, 30, 4, r.Seed+1)
		for i, c := range c17Matrix(rng, 1) {
			c17One(scratch, c, i)
		}
		r.Count("reruns_of_other_engines", 3)
	}
	if n := scratch.ViolationCount(); n > 0 {
		r.Note("%d behavioural violations were seen by the re-run workloads; they are judged by their own checks, not by C16", n)
	}
	_ = os.Getpid
}

func replayC16(r *fw.Run, raw json.RawMessage) {
	var c c16Case
	if json.Unmarshal(raw, &c) == nil && len(c.Ops) > 0 {
		for k := 0; k < 30; k++ {
			c16Tuple(r, &c, k)
		}
	} else {
		// a race report: re-run the whole quick workload
		runC16(r)
	}
	r.Case(1, true)
	r.Case(2, true)
}

func init() {
	fw.Register(&fw.Engine{
		ID: "C16", Level: "exploration", Race: true,
		Rule: "race-detector build of the driver. Every pair (thorough: and triple) of {Shutdown, GetListener x20, RegisterInterface with a new name, RegisterInterface with a registered name, client connect + GetInfo + GetInterfaceDescription, client more-call with 3 replies, client abort mid-frame, cancel of the serving context} is started concurrently - seeded start offsets 0..2 ms - against a Listen or Bind+DoListen that is known to be serving (completed round trip) and holds one idle connection; 6 (thorough 40) repetitions per tuple and entry point. Then: connections used by one goroutine at a time (in-memory pipe, unix, TCP, real Connection, bridge) with cancelled and timed-out Read/ReadBytes/Write/Call, the caller overwriting its buffers as soon as each call has returned; handlers blocked in Call.Conn I/O while the serving context is cancelled; the concurrent-connection workload of C01 (thorough: also the real-socket epochs of C14 and the C17 matrix). Oracle: the Go race detector (GORACE halt_on_error=0, log files); a report counts if any of its stacks has a frame in github.com/varlink/go; reports are de-duplicated by the pair of first library frames. evaluations = tuples x repetitions; distinct by (tuple, entry point, offsets); evidence also counts the distinct begin/end orders observed per tuple. A third of the tuples serve with an (hour long) idle timeout; four triples around Shutdown + RegisterInterface + client call are part of the quick tier; an upgraded handler reads and writes its connection from two goroutines while the peer half-closes and then goes away; fresh services (readiness = bare connect, nothing answered yet) get their first calls from 2-6 connections released at the same instant (8 calls each, among them handlers whose reply value cannot be encoded); half of these services run with a 60 ms idle timeout and stop by its expiry once the connections have gone; client connections over bridge subprocesses that complain on stderr before they fail, while they relay, or never.",
		Assumptions: []string{"the race detector reports only races between accesses that both executed in this run", "reports without any library frame are harness-only and listed as notes"},
		Run:         runC16, Replay: replayC16, CrashIsViolation: false, MinEvals: 20,
		QuickTimeout: 20 * time.Minute, ThoroughTimeout: 90 * time.Minute,
	})
}
