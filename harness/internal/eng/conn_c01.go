package eng

// C01 - per-call reply discipline on every connection (engine e-conn).

import (
	"encoding/json"
	"fmt"
	"math/rand"
	"runtime"
	"strings"
	"sync"
	"time"

	"verif/harness/internal/fw"
)

var c01Ifaces = []string{"org.example.script", "org.example.other", "x.y"}

// GenCall is one generated call of a connection script.
type GenCall struct {
	Method string      `json:"method"`
	Flags  string      `json:"flags,omitempty"` // subset of "mou"
	Script *CallScript `json:"script,omitempty"`
	Params string      `json:"params,omitempty"` // explicit parameters text (used when Script is nil)
	Raw    string      `json:"raw,omitempty"`    // verbatim frame (overrides everything else)
}

type ConnScript struct {
	Calls []GenCall `json:"calls,omitempty"`
	Seg   int       `json:"seg"`
	SegS  int64     `json:"segseed"`
	// C10: an arbitrary byte stream instead of Calls; only Stream[:Cut] is sent (Cut < 0: all of it),
	// then the client half-closes and reads to EOF (Hard=false) or closes at once (Hard=true).
	Stream []byte `json:"stream,omitempty"`
	Cut    int    `json:"cut,omitempty"`
	Hard   bool   `json:"hard,omitempty"`
	What   string `json:"what,omitempty"`
	SlowUS int    `json:"slow_read_us,omitempty"` // the client pauses this long after every read
	// Stall: the client writes its calls and then neither reads nor closes until every other connection of the
	// round has finished (its handler sits in a blocked write meanwhile); judged with the prefix oracle.
	Stall bool `json:"stall,omitempty"`
	// WaitFor: start only once the handler of the call with this id has been entered (plus a moment for it to block)
	WaitFor string `json:"wait_for,omitempty"`
}

// plan returns the bytes to send, the frame boundaries and the complete frames.
func (cs *ConnScript) plan() (data []byte, bounds []int, frames [][]byte) {
	if cs.Stream == nil {
		return streamOf(cs.Calls, int(cs.SegS%7))
	}
	data = cs.Stream
	if cs.Cut >= 0 && cs.Cut < len(data) {
		data = data[:cs.Cut]
	}
	frames, _ = splitFrames(data)
	n := 0
	for _, f := range frames {
		n += len(f) + 1
		bounds = append(bounds, n)
	}
	return
}

// frameOf encodes a call as a request frame (without the NUL). order permutes the members.
func frameOf(c *GenCall, order int) []byte {
	if c.Raw != "" {
		return []byte(c.Raw)
	}
	m, _ := json.Marshal(c.Method)
	parts := []string{`"method":` + string(m)}
	if c.Script != nil {
		b, _ := json.Marshal(c.Script)
		parts = append(parts, `"parameters":`+string(b))
	} else if c.Params != "" {
		parts = append(parts, `"parameters":`+c.Params)
	}
	for _, f := range c.Flags {
		switch f {
		case 'm':
			parts = append(parts, `"more":true`)
		case 'o':
			parts = append(parts, `"oneway":true`)
		case 'u':
			parts = append(parts, `"upgrade":true`)
		case 'M':
			parts = append(parts, `"more":false`)
		case 'O':
			parts = append(parts, `"oneway":null`)
		}
	}
	if order > 0 && len(parts) > 1 {
		k := order % len(parts)
		parts = append(parts[k:], parts[:k]...)
	}
	return []byte("{" + strings.Join(parts, ",") + "}")
}

func streamOf(calls []GenCall, order int) (data []byte, bounds []int, frames [][]byte) {
	for i := range calls {
		f := frameOf(&calls[i], order+i)
		frames = append(frames, f)
		data = append(data, f...)
		data = append(data, 0)
		bounds = append(bounds, len(data))
	}
	return
}

var c01ErrNames = []string{"org.example.script.Failed", "a.B", "x.y.Z", "NoDot", ".LeadingDot", "", "org.varlink.service.InvalidParameter",
	"org.varlink.service.Custom", "org.varlink.service2.Ok", "com.example.é.Ü", "a..b"}

func genScript(rng *rand.Rand, jg *JGen, id string, more bool) *CallScript {
	cs := &CallScript{ID: id}
	if rng.Intn(3) == 0 {
		cs.Pad = json.RawMessage(jg.Value(2))
	}
	n := rng.Intn(5)
	for i := 0; i < n; i++ {
		switch k := rng.Intn(10); {
		case k < 4:
			// continues reply (refused when the call did not set more)
			st := Step{Op: "reply", Cont: true, NoPar: rng.Intn(6) == 0}
			if jg.Timed && rng.Intn(12) == 0 {
				st.RawKind = []string{"empty", "nil", "nilptr", "invalid"}[rng.Intn(4)]
			}
			cs.Steps = append(cs.Steps, st)
		case k < 5:
			cs.Steps = append(cs.Steps, Step{Op: "yield", N: 1 + rng.Intn(6)})
		case k < 6:
			cs.Steps = append(cs.Steps, Step{Op: "error", Name: c01ErrNames[rng.Intn(len(c01ErrNames))]})
		case k < 7:
			// the argument comes from a small pool that the calls to unknown methods and interfaces draw from as well: the
			// same string then travels in different standard errors, on this and on other connections
			arg := "arg-" + id
			if rng.Intn(2) == 0 {
				arg = c01SharedArgs[rng.Intn(len(c01SharedArgs))]
			}
			cs.Steps = append(cs.Steps, Step{Op: "builtin", Name: []string{"InterfaceNotFound", "MethodNotFound", "MethodNotImplemented", "InvalidParameter"}[rng.Intn(4)], Arg: arg})
		default:
			cs.Steps = append(cs.Steps, Step{Op: "reply"})
		}
	}
	// the usual ending: a final reply, an error reply, nothing at all, or a handler failure
	switch k := rng.Intn(12); {
	case k < 6:
		cs.Steps = append(cs.Steps, Step{Op: "reply"})
	case k < 8:
		cs.Steps = append(cs.Steps, Step{Op: "error", Name: c01ErrNames[rng.Intn(3)]})
	case k < 9:
		cs.Fail = rng.Intn(2) == 0
	}
	if rng.Intn(4) == 0 {
		cs.Steps = append([]Step{{Op: "yield", N: 1 + rng.Intn(8)}}, cs.Steps...)
	}
	return cs
}

// c01SharedArgs: [0:4] method names, [4:7] interface names (none of them registered), then parameter names
var c01SharedArgs = []string{"Frobnicate", "Ping", "M", "Nope", "org.example.missing", "org.unknown.x", "com.example.absent", "parameters", "method", "interface"}

var c01Flags = []string{"", "", "", "m", "m", "o", "u", "mo", "mu", "ou", "mou", "M", "O", "mO"}

func genConnScript(rng *rand.Rand, jg *JGen, tag string, maxCalls int, allowFail bool) *ConnScript {
	n := 1 + rng.Intn(maxCalls)
	cs := &ConnScript{Seg: rng.Intn(5), SegS: rng.Int63()}
	for i := 0; i < n; i++ {
		id := fmt.Sprintf("%s.%d", tag, i)
		fl := c01Flags[rng.Intn(len(c01Flags))]
		switch k := rng.Intn(20); {
		case k < 12:
			sc := genScript(rng, jg, id, strings.Contains(fl, "m"))
			if !allowFail {
				sc.Fail = false
			}
			cs.Calls = append(cs.Calls, GenCall{Method: c01Ifaces[rng.Intn(len(c01Ifaces))] + "." + []string{"M", "Ping", "x", "é"}[rng.Intn(4)], Flags: fl, Script: sc})
		case k < 13:
			cs.Calls = append(cs.Calls, GenCall{Method: "org.varlink.service.GetInfo", Flags: fl})
		case k < 14:
			cs.Calls = append(cs.Calls, GenCall{Method: "org.varlink.service.GetInterfaceDescription", Flags: fl,
				Params: []string{`{"interface":"org.example.script"}`, `{"interface":"nope"}`, `{}`, "", `{"interface":5}`, `{"interface":"org.varlink.service"}`, `null`, `[1]`}[rng.Intn(8)]})
		case k < 15:
			m := "Nope" + id
			if rng.Intn(2) == 0 {
				m = c01SharedArgs[rng.Intn(4)]
			}
			cs.Calls = append(cs.Calls, GenCall{Method: "org.varlink.service." + m, Flags: fl})
		case k < 17:
			ifc := "org.unknown.iface" + tag
			if rng.Intn(2) == 0 {
				ifc = c01SharedArgs[4+rng.Intn(3)]
			}
			cs.Calls = append(cs.Calls, GenCall{Method: ifc + ".M", Flags: fl, Script: genScript(rng, jg, id, false)})
		case k < 18 && allowFail && rng.Intn(3) == 0:
			// valid JSON that fails to decode as a call after flags were seen: ends the connection, must leave nothing behind
			// (only where scripts may end their connection, i.e. not on TCP: a connection the service closes with pipelined
			// calls still unread is reset, and a reset may destroy replies the client has not read yet)
			cs.Calls = append(cs.Calls, GenCall{Raw: c10Poison[rng.Intn(len(c10Poison))]})
		case k < 18 && rng.Intn(2) == 0:
			// frames without a method member: answered like a call without method
			cs.Calls = append(cs.Calls, GenCall{Raw: c04NoMethod[rng.Intn(len(c04NoMethod))]})
		case k < 18:
			cs.Calls = append(cs.Calls, GenCall{Method: []string{"nodots", "", ".x", "."}[rng.Intn(4)], Flags: fl, Script: genScript(rng, jg, id, false)})
		default:
			// registered interface, unscripted parameters
			cs.Calls = append(cs.Calls, GenCall{Method: "org.example.script.Plain", Flags: fl, Params: []string{"", `{}`, `{"a":1}`, `7`}[rng.Intn(4)]})
		}
	}
	return cs
}

func nontrivialConnScript(cs *ConnScript) bool {
	if len(cs.Calls) >= 2 {
		return true
	}
	for _, c := range cs.Calls {
		if c.Flags != "" {
			return true
		}
		if c.Script != nil && len(c.Script.Steps) > 1 {
			return true
		}
	}
	return false
}

type c01Case struct {
	Transport string        `json:"transport"`
	UseListen bool          `json:"use_listen"`
	Ifaces    []string      `json:"ifaces,omitempty"`
	// LaterIfaces (C04): interfaces that were NOT registered during this round but are registered afterwards on the
	// same object; a replay runs the round, registers them during a pause in serving, and runs the round again
	LaterIfaces []string `json:"later_ifaces,omitempty"`
	// AllOpenFirst: every connection of the round is established before any of them sends its first byte
	AllOpenFirst bool `json:"all_open_first,omitempty"`
	Conns     []*ConnScript `json:"conns"`
}

type connObs struct {
	ex  *Exchange
	err error
}

// runRound runs the connection scripts concurrently against the rig and judges each.
// Returns the number of violations reported.
func c01Round(r *fw.Run, g *Rig, prop string, cc *c01Case, exact bool) int {
	return c01RoundOpt(r, g, prop, cc, exact, true)
}

// c01RoundOpt: barrier=false skips the barrier probe and the idle wait (for services that may legitimately stop
// by themselves right after the round).
func c01RoundOpt(r *fw.Run, g *Rig, prop string, cc *c01Case, exact bool, barrier bool) int {
	n := len(cc.Conns)
	obs := make([]connObs, n)
	models := make([]*MOut, n)
	var wg, wgStall sync.WaitGroup
	release := make(chan struct{})
	var hooks *exchangeHooks
	if cc.AllOpenFirst {
		var dialled sync.WaitGroup
		dialled.Add(n)
		hooks = &exchangeHooks{afterDial: func() { dialled.Done(); dialled.Wait() }}
	}
	// stallSeen: every stalled client that sends something has seen the first byte of the answer (its handler is in the
	// middle of a write that the client will not take) - the connections that wait for such a handler start after that
	var stallPending sync.WaitGroup
	for _, cs := range cc.Conns {
		if d, _, _ := cs.plan(); cs.Stall && len(d) > 0 {
			stallPending.Add(1)
		}
	}
	stallSeen := make(chan struct{})
	go func() { stallPending.Wait(); close(stallSeen) }()
	for i, cs := range cc.Conns {
		data, bounds, frames := cs.plan()
		models[i] = modelConn(frames, g.Reg)
		if cs.Stall {
			wgStall.Add(1)
			go func(i int, data []byte) {
				defer wgStall.Done()
				var once sync.Once
				fb := func() {
					if len(data) > 0 {
						once.Do(stallPending.Done)
					}
				}
				ex, err := rawStall(hooks, g.Net, g.Dial, data, release, fb)
				fb()
				obs[i] = connObs{ex, err}
			}(i, data)
			continue
		}
		seg := segFor(rand.New(rand.NewSource(cs.SegS)), cs.Seg, len(data), bounds)
		end := endHalfClose
		if cs.Hard {
			end = endHardClose
		}
		wg.Add(1)
		go func(i int, data []byte, seg Seg, end int, slow int, waitFor string) {
			defer wg.Done()
			if waitFor != "" {
				dl := time.Now().Add(10 * time.Second)
				for !g.Log.hasStart(waitFor) && time.Now().Before(dl) {
					time.Sleep(200 * time.Microsecond)
				}
				select {
				case <-stallSeen:
				case <-time.After(12 * time.Second):
				}
				time.Sleep(10 * time.Millisecond)
			}
			ex, err := rawExchangeH(hooks, g.Net, g.Dial, data, seg, end, 40*time.Second, slow)
			obs[i] = connObs{ex, err}
		}(i, data, seg, end, cs.SlowUS, cs.WaitFor)
	}
	wg.Wait()
	close(release)
	wgStall.Wait()
	if g.tainted {
		// an earlier round already showed that this service does not release its connections: waiting again proves nothing
		g.Log.Take()
		return 0
	}
	// Barrier: the accept queue is FIFO and the accept loop counts a connection before it accepts the
	// next one, so once a connection made now has been served, every connection of this round (also
	// those the client closed before they were accepted) has been accepted and counted.
	var barrierErr error
	if barrier {
		barrierErr = g.Probe()
	} else {
		time.Sleep(20 * time.Millisecond)
	}
	for try := 0; try < 5 && barrierErr != nil; try++ {
		if _, wrong := barrierErr.(*probeMismatch); wrong {
			break
		}
		time.Sleep(time.Duration(try+1) * 200 * time.Millisecond)
		barrierErr = g.Probe()
	}
	idle := !barrier || g.WaitIdle(20*time.Second)
	evs, gmax := g.Log.Take()
	byPeer := map[string][]Ev{}
	var order []string
	for _, e := range evs {
		byPeer[e.Peer] = append(byPeer[e.Peer], e)
		if e.Kind == "start" {
			order = append(order, e.Peer)
		}
	}
	viol := 0
	report := func(class, detail string, i int) {
		viol++
		one := *cc
		one.Conns = cc.Conns // keep the whole round: interference between connections is part of the case
		r.Violation(prop+" "+class, fmt.Sprintf("connection %d of %d (transport %s): %s", i, n, cc.Transport, detail), &one)
	}
	known := map[string]int{}
	for i := range cc.Conns {
		if obs[i].err != nil {
			r.Inconclusive("could not connect to the service: %v", obs[i].err)
			continue
		}
		ex := obs[i].ex
		known[ex.Local] = i
		if ex.Stalled {
			// the service is alive (the barrier probe made after this round was answered) but left this connection
			// without bytes and without EOF for 40 s
			if barrierErr == nil {
				report("stall", fmt.Sprintf("no bytes and no EOF for 40 s although the service answers a probe; received so far %d bytes", len(ex.Got)), i)
			} else {
				r.Inconclusive("connection stalled and the probe failed too: %v", barrierErr)
			}
			continue
		}
		if class, detail := judgeConn(models[i], g.Reg, ex.Got, ex.EOF, byPeer[ex.Local], gmax[ex.Local], exact && !cc.Conns[i].Hard && !cc.Conns[i].Stall); class != "" {
			report(class, detail, i)
		}
		r.Count("frames_compared", int64(len(models[i].Frames)))
		r.Count("handler_invocations", int64(len(models[i].Dispatches)))
		for _, d := range models[i].Dispatches {
			for _, s := range d.Steps {
				if strings.HasSuffix(s, ":err") {
					r.Count("refused_steps", 1)
				}
			}
			if strings.Contains(d.Flags, "o") {
				r.Count("oneway_dispatches", 1)
			}
		}
		if models[i].Ended {
			r.Count("conns_ended_by_service", 1)
		}
	}
	for p, e := range byPeer {
		if _, ok := known[p]; !ok {
			viol++
			r.Violation(prop+" stray-dispatch", fmt.Sprintf("handler events for a peer %q that is none of this round's connections: %+v", p, e[0]), cc)
		}
	}
	if barrierErr != nil {
		if _, wrong := barrierErr.(*probeMismatch); wrong {
			viol++
			r.Violation(prop+" probe-disturbed", "a fresh connection made right after this round was not answered correctly: "+barrierErr.Error(), cc)
		} else {
			viol++
			r.Violation(prop+" probe-failed", "a fresh connection made right after this round failed: "+barrierErr.Error(), cc)
		}
	}
	if !idle {
		g.tainted = true
		viol++
		r.Violation(prop+" not-released", fmt.Sprintf("all clients are gone but the service still counts %d active connections after 20 s", g.Svc.VerifActive()), cc)
	}
	if n > 1 {
		// the interleaving of dispatch starts across connections that this round exhibited
		idx := make([]string, len(order))
		for i, p := range order {
			idx[i] = fmt.Sprint(known[p])
		}
		r.Distinct("cross_connection_dispatch_orders", fmt.Sprintf("%d:%s", n, strings.Join(idx, ",")))
	}
	return viol
}

// builtinFlood: one scripted call (so that the other connections of the round can tell when this one is being served)
// followed, in the same write, by 1 200 GetInterfaceDescription / GetInfo calls: about 2 MB of answers from the built-in
// interface that the client never reads (seeded change C10-O: built-in replies written under the service mutex).
func builtinFlood(id string) []byte {
	first := &CallScript{ID: id, Steps: []Step{{Op: "reply"}}}
	data, _, _ := streamOf([]GenCall{{Method: "org.example.script.First", Script: first}}, 0)
	for i := 0; i < 1200; i++ {
		if i%8 == 7 {
			data = append(data, "{\"method\":\"org.varlink.service.GetInfo\"}\x00"...)
		} else {
			data = append(data, "{\"method\":\"org.varlink.service.GetInterfaceDescription\",\"parameters\":{\"interface\":\"org.varlink.service\"}}\x00"...)
		}
	}
	return data
}

func runC01(r *fw.Run) {
	rng := rand.New(rand.NewSource(r.Seed*1000003 + 1))
	jg := &JGen{R: rng, Timed: true}
	type cfg struct {
		tr     string
		listen bool
	}
	cfgs := []cfg{{"unix", false}, {"unix", true}, {"tcp", true}}
	if r.Thorough {
		cfgs = append(cfgs, cfg{"tcp", false}, cfg{"abstract", true})
	}
	rounds := r.Pick(2000, 24000)
	maxConns := r.Pick(8, 32)
	tagN := 0
	for ci, cf := range cfgs {
		g, err := newRig(r, RigOpt{Transport: cf.tr, UseListen: cf.listen, Ifaces: c01Ifaces})
		if err != nil {
			rigFailure(r, "C01", err, cf.tr)
			continue
		}
		nr := rounds / len(cfgs)
		for k := 0; k < nr; k++ {
			nconn := 1
			if k%3 != 0 {
				nconn = 2 + rng.Intn(maxConns-1)
			}
			cc := &c01Case{Transport: cf.tr, UseListen: cf.listen, Ifaces: c01Ifaces}
			for j := 0; j < nconn; j++ {
				tagN++
				// handler failures end the connection with unread pipelined calls: unix only (DESIGN C01)
				maxCalls := 6
				if k%97 == 13 && j == 0 {
					maxCalls = 700 // now and then a long-lived connection with hundreds of calls
				}
				cs := genConnScript(rng, jg, fmt.Sprintf("c%d", tagN), maxCalls, cf.tr != "tcp")
				if maxCalls > 6 {
					r.Max("max_calls_on_one_connection", int64(len(cs.Calls)))
				}
				cc.Conns = append(cc.Conns, cs)
			}
			if r.ViolationCount() > 12 || g.tainted {
				break
			}
			r.Journal(0, cc)
			c01Round(r, g, "C01", cc, true)
			r.Done(0)
			for _, cs := range cc.Conns {
				b, _ := json.Marshal(cs.Calls)
				r.Case(fw.HashBytes(b)^uint64(cs.Seg), nontrivialConnScript(cs))
				r.Distinct("segmentation_kinds", fmt.Sprint(cs.Seg))
			}
			if k%40 == 0 {
				r.Sample(map[string]interface{}{"transport": cf.tr, "listen": cf.listen, "connections": len(cc.Conns), "first_connection": cc.Conns[0]})
			}
			r.Count("rounds", 1)
			r.Count("connections", int64(nconn))
		}
		// many connections open at the same time (all established before the first byte is sent)
		for k := 0; k < r.Pick(2, 8) && !g.tainted && r.ViolationCount() <= 12; k++ {
			cc := &c01Case{Transport: cf.tr, UseListen: cf.listen, Ifaces: c01Ifaces, AllOpenFirst: true}
			for j := 0; j < r.Pick(150, 400); j++ {
				tagN++
				if j%3 != 0 {
					// an idle connection that stays open for the whole round
					cc.Conns = append(cc.Conns, &ConnScript{Stream: []byte{}, Cut: -1, Stall: true, What: "idle, held open"})
					continue
				}
				cc.Conns = append(cc.Conns, genConnScript(rng, jg, fmt.Sprintf("c%d", tagN), 3, false))
			}
			r.Journal(0, map[string]interface{}{"what": "many simultaneous connections", "n": len(cc.Conns)})
			c01Round(r, g, "C01", cc, true)
			r.Done(0)
			r.Max("max_simultaneous_connections", int64(len(cc.Conns)))
			r.Case(fw.Hash("many", fmt.Sprint(ci, k)), true)
		}
		// a client that stops reading in the middle of a multi-MiB reply keeps its own handler blocked in a write;
		// every other connection of the service must be served as if it were not there
		for k := 0; k < r.Pick(4, 30) && !g.tainted && r.ViolationCount() <= 12; k++ {
			cc := &c01Case{Transport: cf.tr, UseListen: cf.listen, Ifaces: c01Ifaces}
			tagN++
			big := &CallScript{ID: fmt.Sprintf("stall%d", tagN), Pad: json.RawMessage(jg.BigString(3 << 20)), Steps: []Step{{Op: "reply", Cont: true}, {Op: "reply"}}}
			data, _, _ := streamOf([]GenCall{{Method: "org.example.script.Big", Flags: "m", Script: big}}, 0)
			what := "client stops reading during a 3 MiB reply"
			if k%2 == 1 {
				data, what = builtinFlood(big.ID), "client pipelines 1 200 introspection calls and reads none of the answers"
			}
			cc.Conns = append(cc.Conns, &ConnScript{Stream: data, Cut: -1, Stall: true, What: what})
			if k%2 == 1 {
				cc.Conns = append(cc.Conns, &ConnScript{Calls: []GenCall{{Method: "org.varlink.service.GetInfo"}, {Method: "org.varlink.service.GetInterfaceDescription", Params: `{"interface":"org.example.script"}`}}, WaitFor: big.ID})
			}
			for j := 0; j < 2+rng.Intn(4); j++ {
				tagN++
				cs := genConnScript(rng, jg, fmt.Sprintf("c%d", tagN), 5, cf.tr != "tcp")
				cs.WaitFor = big.ID
				cc.Conns = append(cc.Conns, cs)
			}
			r.Journal(0, cc)
			c01Round(r, g, "C01", cc, true)
			r.Done(0)
			r.Count("rounds_with_a_stalled_reader", 1)
			r.Case(fw.Hash("stall", fmt.Sprint(ci, k)), true)
		}
		// handlers that reply under a derived context with a deadline of its own (400 ms), are still at work when that
		// deadline has passed, and reply again under their plain context: what an earlier reply's context armed must not
		// outlive that reply
		for k := 0; k < r.Pick(3, 12) && !g.tainted && r.ViolationCount() <= 12; k++ {
			cc := &c01Case{Transport: cf.tr, UseListen: cf.listen, Ifaces: c01Ifaces}
			for j := 0; j < 8; j++ {
				tagN++
				cs := genConnScript(rng, jg, fmt.Sprintf("c%d", tagN), 3, false)
				sc := &CallScript{ID: fmt.Sprintf("t%d", tagN), Steps: []Step{{Op: "reply", Cont: true, TO: 400}, {Op: "sleep", N: 450}, {Op: "reply", Cont: j%2 == 0}}}
				if j%2 == 0 {
					sc.Steps = append(sc.Steps, Step{Op: "error", Name: "org.example.script.Failed", TO: 400}, Step{Op: "sleep", N: 450})
				}
				cs.Calls = append(cs.Calls, GenCall{Method: "org.example.script.M", Flags: "m", Script: sc}, GenCall{Method: "org.varlink.service.GetInfo"})
				cc.Conns = append(cc.Conns, cs)
			}
			r.Journal(0, cc)
			c01Round(r, g, "C01", cc, true)
			r.Done(0)
			r.Count("rounds_with_replies_under_expiring_contexts", 1)
			r.Case(fw.Hash("timed", fmt.Sprint(ci, k)), true)
		}
		// replies (and the calls that script them) of every length in a window around powers of two: a frame is
		// complete after its NUL whatever its size, and the next reply is a frame of its own
		{
			centres := []int{4096, 8192, 32768, 65536, 131072}
			if r.Thorough {
				centres = append(centres, 512, 1024, 2048, 12288, 16384, 3*65536, 262144, 524288, 1<<20, 2<<20)
			}
			for _, centre := range centres {
				if g.tainted || r.ViolationCount() > 12 {
					break
				}
				cc := &c01Case{Transport: cf.tr, UseListen: cf.listen, Ifaces: c01Ifaces}
				cs := &ConnScript{Seg: 0, What: fmt.Sprintf("reply lengths around %d", centre)}
				for n := centre - 48; n <= centre; n++ {
					tagN++
					raw := json.RawMessage(`{"x":"` + strings.Repeat("x", n-8) + `"}`)
					sc := &CallScript{ID: fmt.Sprintf("z%d", tagN), Steps: []Step{{Op: "reply", Raw: raw}}}
					fl := ""
					if n%2 == 1 {
						fl = "m"
						sc.Steps = []Step{{Op: "reply", Cont: true, Raw: raw}, {Op: "reply", Raw: raw}}
					}
					cs.Calls = append(cs.Calls, GenCall{Method: "org.example.script.M", Flags: fl, Script: sc})
				}
				cc.Conns = append(cc.Conns, cs)
				r.Journal(0, map[string]interface{}{"what": "reply lengths", "centre": centre, "transport": cf.tr})
				c01Round(r, g, "C01", cc, true)
				r.Done(0)
				r.Count("exact_length_replies", int64(len(cs.Calls)*3/2))
				r.Case(fw.Hash("sizes", fmt.Sprint(ci, centre)), true)
			}
		}
		if err, ok := g.Stop(); !ok {
			r.Violation("C01 no-return-after-shutdown", fmt.Sprintf("config %d: serving call did not return within 30 s after Shutdown with no client connected", ci), cfgs[ci].tr)
		} else if err != nil {
			r.Note("serving call returned %v after Shutdown", err)
		}
	}
	runtime.GC()
}

func replayC01(r *fw.Run, raw json.RawMessage) { replayRound(r, raw, "C01") }

func replayRound(r *fw.Run, raw json.RawMessage, prop string) {
	var cc c01Case
	if err := json.Unmarshal(raw, &cc); err != nil || len(cc.Conns) == 0 {
		r.Note("replay: case not understood: %v", err)
		return
	}
	ifaces := cc.Ifaces
	if len(ifaces) == 0 {
		ifaces = c01Ifaces
	}
	g, err := newRig(r, RigOpt{Transport: cc.Transport, UseListen: cc.UseListen, Ifaces: ifaces})
	if err != nil {
		rigFailure(r, prop, err, ifaces)
		return
	}
	for k := 0; k < 20; k++ {
		if c01Round(r, g, prop, &cc, true) > 0 {
			break
		}
		if len(cc.LaterIfaces) > 0 && k == 2 {
			if err := g.Restart(cc.LaterIfaces); err != nil {
				r.Violation(prop+" register-and-serve-again", err.Error(), cc.LaterIfaces)
				break
			}
			cc.LaterIfaces = nil
		}
	}
	for _, cs := range cc.Conns {
		b, _ := json.Marshal(cs.Calls)
		r.Case(fw.HashBytes(b), true)
		r.Case(fw.HashBytes(b)+1, true)
	}
	g.Stop()
}

func init() {
	fw.Register(&fw.Engine{
		ID: "C01", Level: "exploration",
		Rule: "a case = one connection script: 1..6 calls (targets: 3 registered scripted interfaces, unknown interfaces, methods without interface part, GetInfo, GetInterfaceDescription good/unknown/missing/ill-typed, unknown org.varlink.service methods; flags: every subset of more/oneway/upgrade plus explicit false/null spellings), each scripted call carrying its own handler script (0..5 steps of continues-reply / final reply / error reply with valid, dot-less and reserved names / the four built-in error helpers / yields, then a final reply, an error reply, nothing, or a handler failure), sent under one of 5 segmentations (one write, one byte per write, random cuts with pauses, one write per frame, cuts around 4096/8192). Rounds run 1..N such connections concurrently against one real Service on a socket (N<=8 quick, <=32 thorough). Oracle: the sequential model of DESIGN A.2 per connection - reply frames equal one for one and in order (number-exact JSON), EOF where predicted, handler log (target, flags, result of every reply attempt, end) equal, at most one handler per connection at any time, no handler event for an unknown peer, active-connection counter back to 0. non-trivial = >= 2 calls, or a flag, or > 1 handler step; distinct by hash of the call list and segmentation. Also: now and then a connection with up to 700 calls; frames without a method member; rounds in which 150 (thorough 400) connections are all established before the first byte is sent, two thirds of them idle and held open; rounds in which one client stops reading in the middle of a 3 MiB reply (its handler sits in a blocked write) while the others, started once that handler has been entered, must be served as usual. A connection left without bytes and without EOF for 40 s while the barrier probe made after the round is answered is a violation (stall). Every reply length in a 49-byte window below each of 4096, 8192, 32768, 65536, 131072 (thorough: 512 .. 2 MiB, 15 centres), plain and as continues+final pair, each followed by further calls on the same connection. Handlers that reply under a derived context with a 400 ms deadline, keep working past it and reply again; replies whose value is a nil or unencodable raw JSON value.",
		Assumptions: []string{"connections that the service ends while pipelined calls are unread are run on unix sockets only (TCP may discard already sent replies on reset)", "handler events are attributed by the peer address the service reports (clients bind unique local addresses)"},
		Run:         runC01, Replay: replayC01, CrashIsViolation: true, MinEvals: 100,
		QuickTimeout: 10 * time.Minute, ThoroughTimeout: 40 * time.Minute,
	})
}
