package eng

// Engine e-gen: C07 (the generator emits compiling Go for every accepted description) and
// C08 (generated stubs are a faithful typed binding). The generator binary is built from the
// tree under test, run on generated descriptions, its output compiled in a batch module together
// with harness-written glue, and the batch binary executed (runtime: genrt/rt.go).

import (
	"go/token"
	"bytes"
	"context"
	_ "embed"
	"encoding/json"
	"fmt"
	"math/rand"
	"os"
	"os/exec"
	"path/filepath"
	"regexp"
	"runtime"
	"sort"
	"strings"
	"time"

	"github.com/varlink/go/varlink/idl"

	"verif/harness/internal/fw"
)

//go:embed genrt/rt.go
var genrtSource string

type genCase struct {
	Dir   string `json:"dir"`
	Text  string `json:"text"`
	Desc  *Desc  `json:"desc,omitempty"`
	What  string `json:"what"`
	Style int    `json:"style"`
}

type genPkg struct {
	c        *genCase
	pkgName  string
	goFile   string
	ok       bool // generator succeeded and passed the file-level checks
	compiles bool
	override map[string]bool
}

func goRun(dir string, timeout time.Duration, name string, args ...string) (string, error) {
	ctx, cancel := context.WithTimeout(context.Background(), timeout)
	defer cancel()
	cmd := exec.CommandContext(ctx, name, args...)
	cmd.Dir = dir
	var out bytes.Buffer
	cmd.Stdout, cmd.Stderr = &out, &out
	err := cmd.Run()
	if ctx.Err() != nil {
		return out.String(), fmt.Errorf("timeout after %v", timeout)
	}
	return out.String(), err
}

// buildGenerator builds the generator binary from the tree under test.
func buildGenerator(r *fw.Run) (string, error) {
	root := os.Getenv("VERIF_ROOT")
	if root == "" {
		root = "/verif"
	}
	bin := filepath.Join(r.WorkDir, "generator")
	args := []string{"build", "-o", bin}
	if mf := os.Getenv("VERIF_MODFILE"); mf != "" {
		args = append(args, "-modfile="+mf)
	}
	args = append(args, "github.com/varlink/go/cmd/varlink-go-interface-generator")
	out, err := goRun(filepath.Join(root, "harness"), 5*time.Minute, "go", args...)
	if err != nil {
		return "", fmt.Errorf("building the generator: %v\n%s", err, out)
	}
	return bin, nil
}

var goIdentRx = regexp.MustCompile(`^[a-z_][a-z0-9_]*$`)
var pkgClauseRx = regexp.MustCompile(`(?m)^package\s+(\S+)\s*$`)

func expectedPkgName(iface string) string {
	var b strings.Builder
	for _, c := range strings.ToLower(iface) {
		if (c >= 'a' && c <= 'z') || (c >= '0' && c <= '9') || c == '_' {
			b.WriteRune(c)
		}
	}
	return b.String()
}

// reservedPkg: a package clause with this name cannot be compiled as an importable package (Go keyword, or "main").
func reservedPkg(n string) bool { return token.IsKeyword(n) || n == "main" }

// goType prints the untagged Go type an API user writes for an IDL type (independent of the generator).
func goType(t *Ty) string {
	switch t.K {
	case kBool:
		return "bool"
	case kInt:
		return "int64"
	case kFloat:
		return "float64"
	case kString, kEnum:
		return "string"
	case kObject:
		return "json.RawMessage"
	case kArray:
		return "[]" + goType(t.Elem)
	case kMap:
		return "map[string]" + goType(t.Elem)
	case kMaybe:
		return "*" + goType(t.Elem)
	case kAlias:
		return t.Alias
	case kStruct:
		if len(t.Fields) == 0 {
			return "struct{}"
		}
		var b strings.Builder
		b.WriteString("struct {")
		for i, f := range t.Fields {
			if i > 0 {
				b.WriteString("; ")
			}
			b.WriteString(strings.Title(f.Name) + " " + goType(f.T))
		}
		b.WriteString("}")
		return b.String()
	}
	return "interface{}"
}

func usesObject(t *Ty) bool {
	if t == nil {
		return false
	}
	if t.K == kObject {
		return true
	}
	if usesObject(t.Elem) {
		return true
	}
	for _, f := range t.Fields {
		if usesObject(f.T) {
			return true
		}
	}
	return false
}

// glueSource writes the harness' glue for one generated package.
func glueSource(p *genPkg, exec bool) string {
	var b strings.Builder
	d := p.c.Desc
	fmt.Fprintf(&b, "package %s\n\n", p.pkgName)
	if !exec || d == nil {
		b.WriteString("import \"verifgen/rt\"\n\n")
		fmt.Fprintf(&b, "func init() {\n\trt.Register(&rt.Pkg{Dir: %q, Info: func() (string, string) { var s VarlinkInterface; return s.VarlinkGetName(), s.VarlinkGetDescription() }})\n}\n", p.c.Dir)
		return b.String()
	}
	needJSON := false
	for _, m := range d.Mems {
		if m.Kind == 'm' && p.override[m.Name] {
			for _, f := range m.In.Fields {
				if usesObject(f.T) {
					needJSON = true
				}
			}
		}
	}
	b.WriteString("import (\n\t\"context\"\n")
	if needJSON {
		b.WriteString("\t\"encoding/json\"\n")
	}
	b.WriteString("\t\"verifgen/rt\"\n)\n\n")
	b.WriteString("type verifImpl struct {\n\tVarlinkInterface\n\th *rt.Handler\n}\n\n")
	for _, m := range d.Mems {
		if m.Kind != 'm' || !p.override[m.Name] {
			continue
		}
		fmt.Fprintf(&b, "func (i *verifImpl) %s(ctx context.Context, c VarlinkCall", m.Name)
		var args []string
		for k, f := range m.In.Fields {
			fmt.Fprintf(&b, ", a%d %s", k, goType(f.T))
			args = append(args, fmt.Sprintf("a%d", k))
		}
		fmt.Fprintf(&b, ") error {\n\treturn i.h.Handle(ctx, %q, &c", m.Name)
		for _, a := range args {
			b.WriteString(", " + a)
		}
		b.WriteString(")\n}\n\n")
	}
	fmt.Fprintf(&b, "func init() {\n\trt.Register(&rt.Pkg{\n\t\tDir: %q,\n", p.c.Dir)
	b.WriteString("\t\tInfo: func() (string, string) { var s VarlinkInterface; return s.VarlinkGetName(), s.VarlinkGetDescription() },\n")
	b.WriteString("\t\tNewDispatcher: func(h *rt.Handler) interface{} { return VarlinkNew(&verifImpl{h: h}) },\n")
	b.WriteString("\t\tClients: map[string]interface{}{\n")
	for _, m := range d.Mems {
		if m.Kind == 'm' {
			fmt.Fprintf(&b, "\t\t\t%q: %s(),\n", m.Name, m.Name)
		}
	}
	b.WriteString("\t\t},\n\t\tErrors: map[string]interface{}{\n")
	for _, m := range d.Mems {
		if m.Kind == 'e' {
			fmt.Fprintf(&b, "\t\t\t%q: %s{},\n", m.Name, m.Name)
		}
	}
	b.WriteString("\t\t},\n\t\tOverridden: map[string]bool{\n")
	for _, m := range d.Mems {
		if m.Kind == 'm' && p.override[m.Name] {
			fmt.Fprintf(&b, "\t\t\t%q: true,\n", m.Name)
		}
	}
	b.WriteString("\t\t},\n\t})\n}\n")
	return b.String()
}

type genBatch struct {
	r     *fw.Run
	prop  string
	dir   string
	gen   string
	pkgs  []*genPkg
	exec  bool
	seed  int64
	sets  int
}

func (gb *genBatch) viol(p *genPkg, class, format string, a ...interface{}) {
	c := *p.c
	gb.r.Violation(gb.prop+" "+class, fmt.Sprintf("[%s] ", p.c.What)+fmt.Sprintf(format, a...)+"\n description:\n"+clip(p.c.Text, 1500), &c)
}

// generate runs the generator binary on every description (twice, for determinism) and does the file-level checks.
func (gb *genBatch) generate() {
	fw.Parallel(runtime.NumCPU(), len(gb.pkgs), func(w, i int) {
		p := gb.pkgs[i]
		dir := filepath.Join(gb.dir, p.c.Dir)
		dir2 := filepath.Join(gb.dir, "twice", p.c.Dir)
		os.MkdirAll(dir, 0755)
		os.MkdirAll(dir2, 0755)
		for _, d := range []string{dir, dir2} {
			os.WriteFile(filepath.Join(d, "x.varlink"), []byte(p.c.Text), 0644)
		}
		out, err := goRun(dir, 60*time.Second, gb.gen, filepath.Join(dir, "x.varlink"))
		gb.r.Count("generator_runs", 1)
		if gb.prop != "C07" {
			// C08 only needs the output; generator failures are C07's business
			if err != nil {
				return
			}
		}
		if err != nil {
			class := "generator-failed"
			if strings.Contains(out, "panic:") || strings.Contains(out, "SIGSEGV") {
				class = "generator-crashed"
			}
			gb.viol(p, class, "the generator exited with %v on a description the parser accepts:\n%s", err, clip(out, 1200))
			return
		}
		if strings.Contains(out, "panic:") {
			gb.viol(p, "generator-crashed", "panic text on the generator's output:\n%s", clip(out, 1200))
			return
		}
		files, _ := filepath.Glob(filepath.Join(dir, "*.go"))
		if len(files) != 1 {
			gb.viol(p, "output-files", "the generator wrote %d Go files, expected exactly one", len(files))
			return
		}
		src, _ := os.ReadFile(files[0])
		m := pkgClauseRx.FindSubmatch(src)
		if m == nil {
			gb.viol(p, "package-clause", "no package clause in the emitted file")
			return
		}
		p.pkgName = string(m[1])
		p.goFile = files[0]
		p.ok = true
		if gb.prop != "C07" {
			return
		}
		name := ""
		if p.c.Desc != nil {
			name = p.c.Desc.Name
		} else if mm := regexp.MustCompile(`(?m)^\s*interface\s+(\S+)`).FindStringSubmatch(p.c.Text); mm != nil {
			name = mm[1]
		}
		if !goIdentRx.MatchString(p.pkgName) {
			gb.viol(p, "package-name", "package name %q is not a legal lower-case Go identifier", p.pkgName)
			p.ok = false
			return
		}
		if want := expectedPkgName(name); name != "" && p.pkgName != want && !(reservedPkg(want) && strings.HasPrefix(p.pkgName, want) && !reservedPkg(p.pkgName)) {
			gb.viol(p, "package-name", "package name %q is not derived from the interface name %q (expected %q)", p.pkgName, name, want)
		}
		if filepath.Base(files[0]) != p.pkgName+".go" {
			gb.viol(p, "output-files", "file %s does not carry the package name %s", filepath.Base(files[0]), p.pkgName)
		}
		// determinism; every other program is generated over the output of an earlier, longer run (the same file name
		// holding these bytes plus 6 KiB more): the result is one file with the same bytes all the same
		stale := i%2 == 0
		if stale {
			old := append(append([]byte{}, src...), bytes.Repeat([]byte("// left over from an earlier, longer output of the generator\nvar _ = 0 +\n"), 80)...)
			os.WriteFile(filepath.Join(dir2, p.pkgName+".go"), old, 0644)
			gb.r.Count("runs_over_an_existing_longer_output", 1)
		}
		out2, err2 := goRun(dir2, 60*time.Second, gb.gen, filepath.Join(dir2, "x.varlink"))
		files2, _ := filepath.Glob(filepath.Join(dir2, "*.go"))
		if err2 != nil || len(files2) != 1 {
			gb.viol(p, "nondeterministic", "second run of the generator on the same input failed: %v %s", err2, clip(out2, 300))
			return
		}
		src2, _ := os.ReadFile(files2[0])
		if !bytes.Equal(src, src2) {
			gb.viol(p, "nondeterministic", "two runs on the same input produced different bytes (%d vs %d bytes; second run over an existing longer output file: %v)", len(src), len(src2), stale)
		}
		gb.r.Count("deterministic_pairs", 1)
		// one invocation with two files: the same interface in two directories (api/v1, api/v2). A generator that takes one
		// file only says so (usage message, non-zero exit) and is not judged; one that accepts several must treat each like a
		// run of its own
		if i%6 == 0 {
			d1, d2 := filepath.Join(gb.dir, "multi", p.c.Dir, "v1"), filepath.Join(gb.dir, "multi", p.c.Dir, "v2")
			os.MkdirAll(d1, 0755)
			os.MkdirAll(d2, 0755)
			os.WriteFile(filepath.Join(d1, "x.varlink"), []byte(p.c.Text), 0644)
			os.WriteFile(filepath.Join(d2, "x.varlink"), []byte(p.c.Text), 0644)
			outM, errM := goRun(gb.dir, 60*time.Second, gb.gen, filepath.Join(d1, "x.varlink"), filepath.Join(d2, "x.varlink"))
			if errM != nil && strings.Contains(strings.ToLower(outM), "usage") {
				gb.r.Count("multi_file_invocations_refused_with_usage", 1)
			} else {
				gb.r.Count("multi_file_invocations", 1)
				for _, dd := range []string{d1, d2} {
					b, rerr := os.ReadFile(filepath.Join(dd, p.pkgName+".go"))
					if errM != nil || rerr != nil || !bytes.Equal(b, src) {
						gb.viol(p, "multi-file-run", "the generator was given two files (the same interface in two directories): exit %v, output %q; %s: %d bytes, a run on that file alone writes %d bytes", errM, clip(outM, 200), dd, len(b), len(src))
						break
					}
				}
			}
		}
	})
	os.RemoveAll(filepath.Join(gb.dir, "twice"))
	os.RemoveAll(filepath.Join(gb.dir, "multi"))
}

var diagRx = regexp.MustCompile(`(?m)^(?:\./)?(p\d+)/[^:\s]+:\d+(?::\d+)?: (.*)$`)

// build compiles the batch; failing packages are reported (C07) and dropped, then the rest is rebuilt.
func (gb *genBatch) build() (string, bool) {
	repo := gb.r.Repo
	os.WriteFile(filepath.Join(gb.dir, "go.mod"), []byte("module verifgen\n\ngo 1.21\n\nrequire github.com/varlink/go v0.0.0\n\nreplace github.com/varlink/go => "+repo+"\n"), 0644)
	os.WriteFile(filepath.Join(gb.dir, "go.sum"), nil, 0644)
	os.MkdirAll(filepath.Join(gb.dir, "rt"), 0755)
	os.WriteFile(filepath.Join(gb.dir, "rt", "rt.go"), []byte(genrtSource), 0644)
	for _, p := range gb.pkgs {
		if p.ok {
			os.WriteFile(filepath.Join(gb.dir, p.c.Dir, "zz_glue.go"), []byte(glueSource(p, gb.exec)), 0644)
			os.Remove(filepath.Join(gb.dir, p.c.Dir, "x.varlink"))
		}
	}
	bin := filepath.Join(gb.dir, "batch")
	for round := 0; round < 4; round++ {
		var mainSrc strings.Builder
		mainSrc.WriteString("package main\n\nimport (\n\t\"verifgen/rt\"\n")
		n := 0
		for _, p := range gb.pkgs {
			if p.ok {
				fmt.Fprintf(&mainSrc, "\t_ \"verifgen/%s\"\n", p.c.Dir)
				n++
			}
		}
		mainSrc.WriteString(")\n\nfunc main() { rt.Main() }\n")
		if n == 0 {
			return "", false
		}
		os.WriteFile(filepath.Join(gb.dir, "main.go"), []byte(mainSrc.String()), 0644)
		out, err := goRun(gb.dir, 15*time.Minute, "go", "build", "-gcflags=-e", "-o", bin, ".")
		gb.r.Count("go_build_runs", 1)
		if err == nil {
			for _, p := range gb.pkgs {
				if p.ok {
					p.compiles = true
					gb.r.Count("packages_compiled", 1)
				}
			}
			return bin, true
		}
		// attribute diagnostics
		byDir := map[string][]string{}
		for _, m := range diagRx.FindAllStringSubmatch(out, -1) {
			byDir[m[1]] = append(byDir[m[1]], m[0])
		}
		// package level diagnostics ("package verifgen/p0007: build constraints exclude all Go files in ...")
		for _, m := range regexp.MustCompile(`(?m)^package verifgen/(p\d+)[^:]*: (.*)$`).FindAllStringSubmatch(out, -1) {
			byDir[m[1]] = append(byDir[m[1]], m[1]+"/package: "+m[2])
		}
		// `import "verifgen/p0036" is a program, not an importable package` (the emitted file says "package main")
		for _, m := range regexp.MustCompile(`(?m)import "verifgen/(p\d+)" (is a program, not an importable package)`).FindAllStringSubmatch(out, -1) {
			byDir[m[1]] = append(byDir[m[1]], m[1]+"/package: "+m[2])
		}
		if len(byDir) == 0 {
			gb.r.Inconclusive("batch build failed without attributable diagnostics: %v\n%s", err, clip(out, 1500))
			return "", false
		}
		for _, p := range gb.pkgs {
			if diags, bad := byDir[p.c.Dir]; bad && p.ok {
				p.ok = false
				glue := 0
				for _, dg := range diags {
					if strings.Contains(dg, "zz_glue.go") {
						glue++
					}
				}
				if glue == len(diags) && gb.prop == "C07" && strings.Contains(strings.Join(diags, "\n"), "undefined: VarlinkInterface") {
					// the emitted file contributes nothing to its package: it is excluded from the build
					gb.viol(p, "does-not-compile emitted file is excluded from the build", "the emitted file is not part of its package (a doc comment that reads like a build constraint?):\n%s\n first lines of the file:\n%s", clip(strings.Join(diags, "\n"), 600), clip(headOf(p.goFile, 12), 800))
					continue
				}
				if glue == len(diags) {
					// only the harness' own glue fails: the generated API is not what the description implies
					if gb.prop == "C08" {
						gb.viol(p, "stub-signature", "code written against the generated package from the description alone does not compile:\n%s", clip(strings.Join(diags, "\n"), 1500))
					} else {
						gb.r.Note("glue of %s did not compile (judged by C08): %s", p.c.Dir, clip(diags[0], 200))
					}
					continue
				}
				if gb.prop == "C07" {
					gb.viol(p, "does-not-compile "+compileClass(diags), "the emitted package does not compile:\n%s", clip(strings.Join(diags, "\n"), 1500))
				}
			}
		}
	}
	return "", false
}

func headOf(path string, n int) string {
	b, err := os.ReadFile(path)
	if err != nil {
		return ""
	}
	l := strings.SplitN(string(b), "\n", n+1)
	if len(l) > n {
		l = l[:n]
	}
	return strings.Join(l, "\n")
}

var quotedRx = regexp.MustCompile("\"[^\"]*\"|`[^`]*`|'[^']*'")
var identishRx = regexp.MustCompile(`\b[A-Za-z_][A-Za-z0-9_]*\b`)

// compileClass reduces compiler diagnostics to a stable class (message shape without identifiers).
func compileClass(diags []string) string {
	first := ""
	for _, d := range diags {
		if !strings.Contains(d, "zz_glue.go") {
			first = d
			break
		}
	}
	if m := diagRx.FindStringSubmatch(first); m != nil {
		first = m[2]
	} else if first == "" && len(diags) > 0 {
		first = diags[0]
	}
	switch {
	case strings.Contains(first, "build constraints exclude all Go files"):
		return "build constraints exclude all Go files"
	case strings.Contains(first, "field and method with the same name"):
		if i := strings.Index(first, "field and method with the same name"); i >= 0 {
			return strings.TrimSpace(first[i:])
		}
		return "field and method with the same name"
	case strings.Contains(first, "cannot use") && strings.Contains(first, "in assignment"):
		return "cannot use (tagged vs untagged type) in assignment"
	case strings.Contains(first, "cannot use") && strings.Contains(first, "as") && strings.Contains(first, "value in"):
		return "cannot use value of one anonymous type as another"
	case strings.Contains(first, "imported and not used"):
		return "imported and not used"
	case strings.Contains(first, "redeclared"):
		return "redeclared"
	case strings.Contains(first, "duplicate field"):
		return "duplicate field"
	case strings.Contains(first, "undefined"):
		return "undefined"
	case strings.Contains(first, "invalid recursive type"):
		return "invalid recursive type"
	}
	s := quotedRx.ReplaceAllString(first, "Q")
	s = regexp.MustCompile(`\d+`).ReplaceAllString(s, "N")
	if len(s) > 60 {
		s = s[:60]
	}
	return s
}

type rtResult struct {
	Infos      map[string][2]string `json:"infos"`
	Violations []struct {
		Pkg, Method, Class, Detail string
	} `json:"violations"`
	Counters map[string]int64 `json:"counters"`
	Kinds    []string         `json:"kinds"`
}

func (gb *genBatch) run(bin string) *rtResult {
	job := map[string]interface{}{"mode": "info", "seed": gb.seed, "sets": gb.sets, "socket": fmt.Sprintf("vfg-%d-%d", os.Getpid(), gb.r.Seq())}
	if gb.exec {
		job["mode"] = "exec"
		descs := map[string]*Desc{}
		for _, p := range gb.pkgs {
			if p.compiles && p.c.Desc != nil {
				descs[p.c.Dir] = p.c.Desc
			}
		}
		job["descs"] = descs
	}
	jb, _ := json.Marshal(job)
	jf := filepath.Join(gb.dir, "job.json")
	rf := filepath.Join(gb.dir, "result.json")
	os.WriteFile(jf, jb, 0644)
	os.Remove(rf)
	out, err := goRun(gb.dir, 20*time.Minute, bin, jf, rf)
	if err != nil {
		if strings.Contains(out, "panic:") || strings.Contains(out, "fatal error:") {
			gb.r.Violation(gb.prop+" generated-code-crashed", "the batch binary built from the generated packages died:\n"+clip(out, 3000), map[string]string{"what": "batch crash"})
		} else {
			gb.r.Inconclusive("batch binary failed: %v\n%s", err, clip(out, 1000))
		}
		return nil
	}
	rb, err := os.ReadFile(rf)
	if err != nil {
		gb.r.Inconclusive("batch binary wrote no result")
		return nil
	}
	var res rtResult
	if json.Unmarshal(rb, &res) != nil {
		gb.r.Inconclusive("batch result unreadable")
		return nil
	}
	return &res
}

// ---- description sets -----------------------------------------------------------------------------------

func genDescText(d *Desc, style int, seed int64) string {
	t, _ := Render(d, style, 0, seed, nil)
	return t
}

// c07Sentinels: the special cases the quantifier lists, each with a fixed description.
func c07Sentinels() []*genCase {
	var out []*genCase
	add := func(what string, d *Desc, style int) {
		out = append(out, &genCase{Desc: d, What: what, Style: style, Text: genDescText(d, style, 7)})
	}
	m0 := func() Mem { return Mem{Kind: 'm', Name: "Ping", In: strct(Fld{"ping", base(kString)}), Out: strct(Fld{"pong", base(kString)})} }
	add("typeless error", &Desc{Name: "org.example.typeless", Mems: []Mem{m0(), {Kind: 'e', Name: "Failed"}}}, 0)
	add("typeless error only member besides a method without fields", &Desc{Name: "org.example.typeless2", Mems: []Mem{{Kind: 'e', Name: "Nope"}, {Kind: 'm', Name: "M", In: strct(), Out: strct()}}}, 1)
	add("dash in interface name", &Desc{Name: "org.example-dash.with-dashes", Mems: []Mem{m0()}}, 0)
	add("upper case in interface name", &Desc{Name: "Org.Example.UPPER", Mems: []Mem{m0()}}, 0)
	add("xn-- interface name", &Desc{Name: "xn--lgbbat1ad8j.example.a1", Mems: []Mem{m0()}}, 0)
	add("digits in interface name", &Desc{Name: "a1.b2.c3", Mems: []Mem{m0()}}, 0)
	add("optional struct parameter", &Desc{Name: "org.example.maybestruct", Mems: []Mem{{Kind: 'm', Name: "F", In: strct(Fld{"a", wrap(kMaybe, strct(Fld{"b", base(kInt)}))}), Out: strct(Fld{"r", wrap(kMaybe, strct(Fld{"c", base(kString)}))})}}}, 0)
	add("optional array of struct in error", &Desc{Name: "org.example.maybearr", Mems: []Mem{m0(), {Kind: 'e', Name: "E", T: strct(Fld{"items", wrap(kMaybe, wrap(kArray, strct(Fld{"x", base(kInt)})))})}}}, 0)
	add("optional map of struct output", &Desc{Name: "org.example.maybemap", Mems: []Mem{{Kind: 'm', Name: "G", In: strct(), Out: strct(Fld{"m", wrap(kMaybe, wrap(kMap, strct(Fld{"x", base(kBool)})))})}}}, 0)
	add("CRLF layout", &Desc{Name: "org.example.crlf", Doc: []string{"doc"}, Mems: []Mem{m0(), {Kind: 'e', Name: "E", T: strct(Fld{"why", base(kString)})}}}, 2)
	add("tabs layout", &Desc{Name: "org.example.tabs", Mems: []Mem{m0()}}, 3)
	add("doc comments with backticks", &Desc{Name: "org.example.ticks", Doc: []string{"interface `doc` with ``` backticks", "and */ and // and \"quotes\""}, Mems: []Mem{{Kind: 'm', Name: "Ping", In: strct(), Out: strct(), Doc: []string{"`method` doc", "second `line`"}}, {Kind: 't', Name: "T", T: strct(Fld{"a", base(kInt)}), Doc: []string{"type `doc`"}}, {Kind: 'e', Name: "E", T: strct(), Doc: []string{"error `doc`"}}}}, 0)
	add("interface doc comment that reads like a build constraint", &Desc{Name: "org.example.buildtag", Doc: []string{"+build ignore"}, Mems: []Mem{{Kind: 'm', Name: "M", In: strct(), Out: strct(), Doc: []string{"+build linux", "go:build ignore"}}}}, 0)
	add("doc comment mentioning fmt.Sprintf and json.RawMessage", &Desc{Name: "org.example.importwords", Doc: []string{"mentions fmt.Sprintf and json.RawMessage and context.Context in a comment"}, Mems: []Mem{{Kind: 'm', Name: "M", In: strct(), Out: strct()}}}, 0)
	kw := strct()
	for _, k := range goKeywords {
		kw.Fields = append(kw.Fields, Fld{k, base(kString)})
	}
	add("Go keywords as field names", &Desc{Name: "org.example.keywords", Mems: []Mem{{Kind: 'm', Name: "K", In: kw, Out: kw}, {Kind: 'e', Name: "E", T: kw}, {Kind: 't', Name: "T", T: kw}}}, 0)
	loc := strct()
	for _, k := range genLocals {
		if k != "error_" && k != "err_" {
			loc.Fields = append(loc.Fields, Fld{k, base(kInt)})
		}
	}
	add("generator-local identifiers as field names", &Desc{Name: "org.example.locals", Mems: []Mem{{Kind: 'm', Name: "L", In: loc, Out: loc}, {Kind: 'e', Name: "E", T: loc}, {Kind: 't', Name: "T", T: loc}}}, 0)
	add("field named error in an error", &Desc{Name: "org.example.errfield", Mems: []Mem{m0(), {Kind: 'e', Name: "E", T: strct(Fld{"error", base(kString)})}}}, 0)
	add("field named error in a method", &Desc{Name: "org.example.errfield2", Mems: []Mem{{Kind: 'm', Name: "M", In: strct(Fld{"error", base(kString)}), Out: strct(Fld{"error", base(kInt)})}}}, 0)
	add("fields differing only in the case of the first letter", &Desc{Name: "org.example.casefields", Mems: []Mem{{Kind: 'm', Name: "M", In: strct(Fld{"a", base(kInt)}, Fld{"A", base(kInt)}), Out: strct()}}}, 0)
	us := strct()
	for _, k := range []string{"max_size", "maxSize", "maxsize", "a_1", "a1", "foo_bar", "fooBar", "foobar", "fooBAR", "x_y_z", "xYZ", "xyz", "x_yz", "xy_z", "id", "iD", "i_d"} {
		us.Fields = append(us.Fields, Fld{k, base(kInt)})
	}
	add("field names differing only by underscores or inner case", &Desc{Name: "org.example.snake", Mems: []Mem{{Kind: 'm', Name: "U", In: us, Out: us}, {Kind: 'e', Name: "E", T: us}, {Kind: 't', Name: "T", T: us},
		{Kind: 't', Name: "MaxSize", T: strct(Fld{"max_size", alias("T")}, Fld{"maxSize", wrap(kMaybe, alias("T"))})}, {Kind: 'm', Name: "GetIt", In: strct(), Out: strct(Fld{"m", alias("MaxSize")})}}}, 0)
	for _, nm := range []string{"org.varlink.resolver", "org.varlink.servicex", "org.varlink", "com.example.std", "org.varlink.service.sub"} {
		add("errors named like the standard org.varlink.service errors", &Desc{Name: nm, Mems: []Mem{
			{Kind: 'm', Name: "Resolve", In: strct(Fld{"interface", base(kString)}), Out: strct(Fld{"address", base(kString)})},
			{Kind: 'm', Name: "GetInfo", In: strct(), Out: strct(Fld{"vendor", base(kString)})},
			{Kind: 'e', Name: "InterfaceNotFound", T: strct(Fld{"interface", base(kString)})},
			{Kind: 'e', Name: "MethodNotFound", T: strct(Fld{"method", base(kString)})},
			{Kind: 'e', Name: "MethodNotImplemented", T: strct(Fld{"method", base(kString)}, Fld{"extra", base(kInt)})},
			{Kind: 'e', Name: "InvalidParameter", T: strct(Fld{"parameter", base(kString)})},
			{Kind: 'e', Name: "PermissionDenied"}}}, 0)
	}
	add("error named Error", &Desc{Name: "org.example.errnamed", Mems: []Mem{m0(), {Kind: 'e', Name: "Error", T: strct(Fld{"why", base(kString)})}, {Kind: 'e', Name: "Errors"}}}, 0)
	add("method named Error", &Desc{Name: "org.example.errmethod", Mems: []Mem{{Kind: 'm', Name: "Error", In: strct(Fld{"a", base(kInt)}), Out: strct(Fld{"b", base(kInt)})}, {Kind: 'e', Name: "Failed", T: strct(Fld{"why", base(kString)})},
		{Kind: 'm', Name: "MethodNotImplemented", In: strct(), Out: strct(Fld{"x", base(kInt)}, Fld{"y", base(kInt)})}, {Kind: 'm', Name: "InvalidParameter", In: strct(Fld{"p", base(kInt)}), Out: strct()}}}, 0)
	add("interface named like an identifier the import patcher looks for", &Desc{Name: "fmt.Sprintf", Mems: []Mem{{Kind: 'm', Name: "M", In: strct(), Out: strct()}}}, 0)
	add("interface named json.RawMessage without any object type", &Desc{Name: "json.RawMessage", Mems: []Mem{{Kind: 'm', Name: "M", In: strct(Fld{"a", base(kInt)}), Out: strct()}, {Kind: 'e', Name: "E", T: strct(Fld{"why", base(kString)})}}}, 0)
	add("interface named context.Context, enum output", &Desc{Name: "context.Context", Mems: []Mem{{Kind: 'm', Name: "M", In: strct(), Out: strct(Fld{"e", enum("a", "b")})}}}, 0)
	add("doc comments containing the generator's own markers", &Desc{Name: "org.example.markers", Doc: []string{"uses @IMPORTS@ in the interface doc", "and @PACKAGE@ @NAME@"}, Mems: []Mem{{Kind: 'm', Name: "M", In: strct(), Out: strct(), Doc: []string{"@IMPORTS@"}}, {Kind: 'e', Name: "E", T: strct(Fld{"why", base(kString)}), Doc: []string{"import ( \"fmt\" )"}}}}, 0)
	// interface names whose labels run together into a Go keyword or into "main" (reported by a seeding sub-agent of round 10)
	for _, n := range []string{"go.to", "fun.c", "ty.pe", "i.f", "ma.p", "pack.age", "imp.ort", "ma.in", "var.link", "in.t", "str.ing", "n.il", "Go.To"} {
		add("interface name whose labels run together into a reserved word", &Desc{Name: n, Mems: []Mem{m0(), {Kind: 'e', Name: "E", T: strct(Fld{"why", base(kString)})}}}, 0)
	}
	add("recursive alias through containers", &Desc{Name: "org.example.recursive", Mems: []Mem{{Kind: 't', Name: "Tree", T: strct(Fld{"kids", wrap(kArray, alias("Tree"))}, Fld{"next", wrap(kMaybe, alias("Tree"))}, Fld{"byname", wrap(kMap, alias("Tree"))})}, {Kind: 'm', Name: "Walk", In: strct(Fld{"t", alias("Tree")}), Out: strct(Fld{"t", wrap(kMaybe, alias("Tree"))})}}}, 0)
	add("object everywhere", &Desc{Name: "org.example.objects", Mems: []Mem{{Kind: 't', Name: "O", T: strct(Fld{"o", base(kObject)})}, {Kind: 'm', Name: "M", In: strct(Fld{"a", base(kObject)}, Fld{"b", wrap(kArray, base(kObject))}, Fld{"c", wrap(kMaybe, base(kObject))}), Out: strct(Fld{"r", wrap(kMap, base(kObject))}, Fld{"s", alias("O")})}, {Kind: 'e', Name: "E", T: strct(Fld{"detail", base(kObject)})}}}, 0)
	add("alias of object and of optional object", &Desc{Name: "org.example.objalias", Mems: []Mem{{Kind: 't', Name: "Raw", T: base(kObject)}, {Kind: 't', Name: "MaybeRaw", T: wrap(kMaybe, base(kObject))}, {Kind: 't', Name: "MaybeAl", T: wrap(kMaybe, alias("Raw"))},
		{Kind: 'm', Name: "M", In: strct(Fld{"a", alias("Raw")}, Fld{"b", wrap(kMaybe, alias("Raw"))}, Fld{"c", alias("MaybeRaw")}, Fld{"d", wrap(kArray, alias("Raw"))}), Out: strct(Fld{"r", alias("Raw")}, Fld{"s", wrap(kMaybe, alias("MaybeRaw"))}, Fld{"t", alias("MaybeAl")}, Fld{"u", wrap(kMap, alias("Raw"))})},
		{Kind: 'e', Name: "E", T: strct(Fld{"detail", alias("Raw")}, Fld{"more", alias("MaybeRaw")})}}}, 0)
	add("forward references to aliases of object", &Desc{Name: "org.example.fwdobj", Mems: []Mem{{Kind: 't', Name: "Document", T: alias("Payload")}, {Kind: 't', Name: "MaybeDoc", T: wrap(kMaybe, alias("Later"))},
		{Kind: 'm', Name: "Put", In: strct(Fld{"doc", alias("Document")}, Fld{"m", alias("MaybeDoc")}), Out: strct(Fld{"doc", alias("Document")}, Fld{"l", alias("Later")})},
		{Kind: 't', Name: "Payload", T: base(kObject)}, {Kind: 't', Name: "Later", T: wrap(kMaybe, base(kObject))},
		{Kind: 'e', Name: "Rejected", T: strct(Fld{"doc", alias("Document")})}}}, 0)
	add("member names built from other member names with common prefixes", func() *Desc {
		d := &Desc{Name: "org.example.prefixes"}
		for _, b := range []string{"Locked", "Item"} {
			d.Mems = append(d.Mems, Mem{Kind: 'e', Name: b, T: strct(Fld{"why", base(kString)})})
			for _, pre := range []string{"Is", "Get", "Set", "New", "Has", "On", "With", "Make", "Do", "Err", "As"} {
				d.Mems = append(d.Mems, Mem{Kind: 'm', Name: pre + b, In: strct(Fld{"a", base(kInt)}), Out: strct(Fld{"b", base(kInt)})})
			}
			for _, suf := range []string{"Error", "Methods", "Call", "Reply", "Type", "Interface"} {
				d.Mems = append(d.Mems, Mem{Kind: 't', Name: b + suf, T: strct(Fld{"v", base(kInt)})})
			}
		}
		return d
	}(), 0)
	add("aliases of builtins and containers", &Desc{Name: "org.example.plainalias", Mems: []Mem{{Kind: 't', Name: "I", T: base(kInt)}, {Kind: 't', Name: "S", T: base(kString)}, {Kind: 't', Name: "F", T: base(kFloat)}, {Kind: 't', Name: "B", T: base(kBool)},
		{Kind: 't', Name: "L", T: wrap(kArray, base(kObject))}, {Kind: 't', Name: "Mp", T: wrap(kMap, alias("I"))}, {Kind: 't', Name: "O", T: wrap(kMaybe, alias("S"))},
		{Kind: 'm', Name: "M", In: strct(Fld{"i", alias("I")}, Fld{"s", alias("S")}, Fld{"f", alias("F")}, Fld{"b", alias("B")}, Fld{"l", alias("L")}), Out: strct(Fld{"m", alias("Mp")}, Fld{"o", alias("O")}, Fld{"oo", wrap(kMaybe, alias("O"))})}}}, 0)
	wide := func(prefix string, n int) *Ty {
		t := strct()
		kinds := []*Ty{base(kInt), base(kString), base(kBool), base(kFloat), wrap(kMaybe, base(kInt)), wrap(kArray, base(kString)), wrap(kMap, base(kInt)), wrap(kArray, wrap(kArray, base(kInt))), wrap(kMap, wrap(kMaybe, base(kString))), enum("on", "off"), wrap(kArray, wrap(kMaybe, enum("a", "b", "c")))}
		for i := 0; i < n; i++ {
			t.Fields = append(t.Fields, Fld{fmt.Sprintf("%s%d_x", prefix, i), kinds[i%len(kinds)]})
		}
		return t
	}
	add("many fields, many errors, shared field names", &Desc{Name: "org.Example.wIde", Mems: []Mem{
		{Kind: 'e', Name: "First", T: wide("f", 3)},
		{Kind: 'm', Name: "Wide", In: wide("f", 14), Out: wide("f", 13)},
		{Kind: 'e', Name: "Second", T: wide("f", 12)},
		{Kind: 't', Name: "A1", T: strct(Fld{"v", base(kInt)})}, {Kind: 't', Name: "A2", T: wrap(kArray, alias("A1"))}, {Kind: 't', Name: "A3", T: wrap(kMap, alias("A2"))},
		{Kind: 'm', Name: "Chain", In: strct(Fld{"f0_x", alias("A3")}, Fld{"f1_x", wrap(kMaybe, alias("A2"))}), Out: strct(Fld{"f0_x", alias("A1")}, Fld{"f1_x", alias("A3")})},
		{Kind: 'e', Name: "Third", T: strct(Fld{"f0_x", alias("A2")})},
		{Kind: 'e', Name: "Fourth"},
		{Kind: 'm', Name: "Last", In: strct(), Out: wide("g", 2)},
		{Kind: 'e', Name: "Fifth", T: strct(Fld{"why", base(kString)}, Fld{"code", base(kInt)})}}}, 0)
	add("no errors and no object type", &Desc{Name: "org.example.plain", Mems: []Mem{{Kind: 'm', Name: "M", In: strct(Fld{"a", base(kInt)}), Out: strct(Fld{"b", base(kFloat)})}}}, 0)
	add("enum fields and alias of enum", &Desc{Name: "org.example.enums", Mems: []Mem{{Kind: 't', Name: "Color", T: enum("red", "green", "type")}, {Kind: 'm', Name: "M", In: strct(Fld{"c", alias("Color")}, Fld{"inline", enum("a", "b")}), Out: strct(Fld{"cs", wrap(kArray, alias("Color"))}, Fld{"e", wrap(kMaybe, enum("x", "y"))})}}}, 0)
	add("many members", func() *Desc {
		d := &Desc{Name: "org.example.many"}
		for i := 0; i < 30; i++ {
			d.Mems = append(d.Mems, Mem{Kind: 'm', Name: fmt.Sprintf("M%d", i), In: strct(Fld{"a", base(kInt)}), Out: strct(Fld{"b", base(kString)})}, Mem{Kind: 'e', Name: fmt.Sprintf("E%d", i), T: strct(Fld{"x", base(kInt)})})
		}
		return d
	}(), 0)
	return out
}

// c07Positions: every type constructor at every position, depth <= 2.
func c07Positions(limit int, rng *rand.Rand) []*genCase {
	var out []*genCase
	types := coreTypes()
	rng.Shuffle(len(types), func(i, j int) { types[i], types[j] = types[j], types[i] })
	k := 0
	for _, t := range types {
		if len(out) >= limit {
			break
		}
		d := &Desc{Name: fmt.Sprintf("org.example.pos%d", k)}
		d.Mems = append(d.Mems, Mem{Kind: 't', Name: "T", T: strct(Fld{"v", base(kInt)})})
		body := t
		d.Mems = append(d.Mems,
			Mem{Kind: 't', Name: "Al", T: body},
			Mem{Kind: 'm', Name: "M", In: strct(Fld{"a", t}, Fld{"b", base(kInt)}), Out: strct(Fld{"r", t})},
			Mem{Kind: 'e', Name: "E", T: strct(Fld{"f", t})},
			Mem{Kind: 'm', Name: "N", In: strct(Fld{"n", wrap(kArray, strct(Fld{"x", t}))}), Out: strct(Fld{"al", wrap(kMaybe, alias("Al"))})})
		k++
		out = append(out, &genCase{Desc: d, What: "constructor x position", Style: k % 4, Text: genDescText(d, k%4, int64(k))})
	}
	return out
}

func tyString(t *Ty) string {
	var b strings.Builder
	printTy(&b, t)
	return b.String()
}

func genCases(r *fw.Run, prop string) []*genCase {
	rng := rand.New(rand.NewSource(r.Seed*61 + 7))
	var cases []*genCase
	if prop == "C07" {
		cases = append(cases, c07Sentinels()...)
	} else {
		for _, c := range c07Sentinels() {
			switch c.What {
			case "field named error in an error", "fields differing only in the case of the first letter", "interface doc comment that reads like a build constraint":
			default:
				cases = append(cases, c)
			}
		}
	}
	cases = append(cases, c07Positions(r.Pick(60, 3000), rng)...)
	g := &IDLGen{R: rng, GenDomain: true}
	n := r.Pick(60, 4000)
	for i := 0; i < n; i++ {
		var d *Desc
		if i%8 == 0 {
			d = g.Desc(20, 5)
		} else {
			d = g.Desc(6, 3)
		}
		style := []int{0, 1, 4, 4, 3}[i%5]
		cases = append(cases, &genCase{Desc: d, What: "random", Style: style, Text: genDescText(d, style, rng.Int63())})
	}
	// the domain is "descriptions the parser accepts": anything else is dropped here
	var kept []*genCase
	for _, c := range cases {
		if _, err := idl.New(strings.TrimRight(c.Text, "\n")); err != nil {
			r.Count("dropped_not_accepted_by_parser", 1)
			r.Note("dropped (parser rejects it, outside the domain): %s: %v", c.What, err)
			continue
		}
		kept = append(kept, c)
	}
	for i, c := range kept {
		c.Dir = fmt.Sprintf("p%04d", i)
	}
	return kept
}

// domainOK: the description is in C07's stated domain (resolvable references is by construction).
func domainOK(d *Desc) bool { return d != nil }

func runGen(r *fw.Run, prop string) {
	gen, err := buildGenerator(r)
	if err != nil {
		r.Violation(prop+" generator-does-not-build", err.Error(), "build")
		return
	}
	cases := genCases(r, prop)
	batchSize := 150
	for b := 0; b*batchSize < len(cases); b++ {
		lo, hi := b*batchSize, (b+1)*batchSize
		if hi > len(cases) {
			hi = len(cases)
		}
		gb := &genBatch{r: r, prop: prop, dir: filepath.Join(r.WorkDir, fmt.Sprintf("gen%d", b)), gen: gen, exec: prop == "C08", seed: r.Seed + int64(b), sets: r.Pick(8, 24)}
		os.MkdirAll(gb.dir, 0755)
		rng := rand.New(rand.NewSource(r.Seed + int64(b)))
		for _, c := range cases[lo:hi] {
			p := &genPkg{c: c, override: map[string]bool{}}
			if c.Desc != nil {
				first := true
				for _, m := range c.Desc.Mems {
					if m.Kind == 'm' && (first || rng.Intn(4) != 0) {
						p.override[m.Name] = true
						first = false
					}
				}
			}
			gb.pkgs = append(gb.pkgs, p)
		}
		r.Journal(0, map[string]interface{}{"batch": b, "packages": hi - lo})
		gb.generate()
		bin, ok := gb.build()
		var res *rtResult
		if ok {
			res = gb.run(bin)
		}
		r.Done(0)
		byDir := map[string]*genPkg{}
		for _, p := range gb.pkgs {
			byDir[p.c.Dir] = p
			nontrivial := p.c.Desc != nil && nontrivialDesc(p.c.Desc)
			r.Case(fw.Hash(p.c.Text), nontrivial)
			r.Distinct("description_kinds", p.c.What)
			if p.c.Desc != nil {
				for _, m := range p.c.Desc.Mems {
					coverTy(r, string(m.Kind), m.T)
					coverTy(r, "in", m.In)
					coverTy(r, "out", m.Out)
				}
			}
		}
		r.Count("programs", int64(len(gb.pkgs)))
		if res != nil {
			for dir, info := range res.Infos {
				p := byDir[dir]
				if p == nil || prop != "C07" {
					continue
				}
				name := ""
				if p.c.Desc != nil {
					name = p.c.Desc.Name
				}
				if info[0] != name {
					gb.viol(p, "reported-name", "VarlinkGetName() returns %q, the description says %q", info[0], name)
				}
				if strings.TrimRight(info[1], "\n") != strings.TrimRight(p.c.Text, "\n") {
					gb.viol(p, "reported-description "+descDiffClass(info[1], p.c.Text), "VarlinkGetDescription() differs from the description text (up to trailing newlines): got %q, want %q", clip(info[1], 300), clip(p.c.Text, 300))
				}
				r.Count("name_and_description_checked", 1)
				r.Count("disagreements_checked", 2)
			}
			if prop == "C08" {
				for _, v := range res.Violations {
					p := byDir[v.Pkg]
					if p == nil {
						continue
					}
					gb.viol(p, v.Class, "method %s: %s", v.Method, v.Detail)
				}
				for k, v := range res.Counters {
					r.Count(k, v)
				}
				r.Count("disagreements_checked", res.Counters["frames_compared"]+res.Counters["values_compared"])
				for _, k := range res.Kinds {
					r.Distinct("runtime_kinds", k)
				}
			}
		}
		if b == 0 {
			for i, p := range gb.pkgs {
				if i%40 == 0 {
					r.Sample(map[string]interface{}{"what": p.c.What, "text": clip(p.c.Text, 600)})
				}
			}
		}
		os.RemoveAll(gb.dir)
	}
	sort.Strings(nil)
}

func descDiffClass(got, want string) string {
	if strings.Replace(want, "\r", "", -1) == strings.Replace(got, "\r", "", -1) || strings.TrimRight(strings.Replace(want, "\r", "", -1), "\n") == strings.TrimRight(strings.Replace(got, "\r", "", -1), "\n") {
		return "carriage returns lost"
	}
	return "text changed"
}

func runC07(r *fw.Run) { runGen(r, "C07") }
func runC08(r *fw.Run) { runGen(r, "C08") }

func replayGen(prop string) func(r *fw.Run, raw json.RawMessage) {
	return func(r *fw.Run, raw json.RawMessage) {
		var c genCase
		if json.Unmarshal(raw, &c) != nil || c.Text == "" {
			return
		}
		gen, err := buildGenerator(r)
		if err != nil {
			r.Violation(prop+" generator-does-not-build", err.Error(), "build")
			return
		}
		c.Dir = "p0000"
		gb := &genBatch{r: r, prop: prop, dir: filepath.Join(r.WorkDir, "genreplay"), gen: gen, exec: prop == "C08", seed: r.Seed, sets: 12}
		os.MkdirAll(gb.dir, 0755)
		p := &genPkg{c: &c, override: map[string]bool{}}
		if c.Desc != nil {
			for _, m := range c.Desc.Mems {
				if m.Kind == 'm' {
					p.override[m.Name] = true
				}
			}
		}
		gb.pkgs = []*genPkg{p}
		gb.generate()
		if bin, ok := gb.build(); ok {
			if res := gb.run(bin); res != nil {
				if prop == "C07" {
					for _, info := range res.Infos {
						if c.Desc != nil && info[0] != c.Desc.Name {
							gb.viol(p, "reported-name", "VarlinkGetName() returns %q", info[0])
						}
						if strings.TrimRight(info[1], "\n") != strings.TrimRight(c.Text, "\n") {
							gb.viol(p, "reported-description "+descDiffClass(info[1], c.Text), "VarlinkGetDescription() differs from the description text")
						}
					}
				} else {
					for _, v := range res.Violations {
						gb.viol(p, v.Class, "method %s: %s", v.Method, v.Detail)
					}
				}
			}
		}
		r.Case(1, true)
		r.Case(2, true)
	}
}

func init() {
	fw.Register(&fw.Engine{
		ID: "C07", Level: "translation_validation",
		Rule: "programs = interface descriptions in the stated domain: 23 fixed special cases (typeless errors, dashes / upper case / xn-- / digits in the interface name, optional struct / optional array-of-struct / optional map-of-struct at parameter positions, CRLF and tab layouts, doc comments with backticks and with the words the import patcher looks for, all Go keywords and generator-local identifiers as field names, recursive aliases through containers, object everywhere, enums, 60 members), every type of nesting depth <= 2 over all constructors placed at method input, method output, error parameter, alias body and nested positions (quick: 60 seeded picks, thorough: all 1130), and seeded random descriptions (<= 20 members, depth <= 5) in 4 layouts. For each: the generator binary built from the tree under test runs twice in separate directories (exit status, stderr, one output file, package clause is the lower-cased interface name without characters illegal in a Go identifier, byte-identical second run (every other one over an existing, longer output file of the same name); one invocation with two files if the generator accepts that); all outputs are compiled together with glue in one batch module against the tree's varlink package (go build, diagnostics attributed per package, failing packages dropped and the rest rebuilt); the batch binary reports VarlinkGetName() and VarlinkGetDescription() of every package, compared with the interface name and (up to trailing newlines) the description text. non-trivial = >= 2 members or a composite type; distinct by hash of the text. Further fixed cases: aliases of object (also forward references), aliases of builtins, 14-field lists, member names built from other member names with common prefixes.",
		Assumptions: []string{"the Go compiler is the oracle of 'compiles and type-checks'", "member names follow [A-Z][A-Za-z0-9]* and avoid the generator's fixed identifiers and Reply*/Dispatch* prefixes; field names are distinct after Go's exported-name mapping except in the fixed special case that probes exactly that"},
		Run:         runC07, Replay: replayGen("C07"), CrashIsViolation: false, MinEvals: 20,
		QuickTimeout: 20 * time.Minute, ThoroughTimeout: 90 * time.Minute,
	})
	fw.Register(&fw.Engine{
		ID: "C08", Level: "translation_validation",
		Rule: "programs = the C07 description set (minus the cases that are known findings of C07 and do not compile); per package harness-written glue (its own printer of the untagged Go types an API user writes) implements the generated interface, overriding a seed-chosen subset of methods with forwarders into a reflective handler, and registers the generated client stubs and error types. The batch binary starts a real Service per package with VarlinkNew(impl), connects a real Connection through a recording proxy and, for every overridden method, runs 8 (thorough 24) value sets cycling through the scenarios Call, error reply, more-sequence (1..4 replies), oneway (+ barrier), upgrade (+ raw bytes), more-sequence ending in an error reply, upgrade answered with an error reply. Values are generated per declared type (int64 extremes, floats, unicode strings incl. NUL, empty and nested arrays/maps/structs, absent and present optionals, arbitrary JSON for object, each enum name). Oracle: request frame method = <interface>.<Method>, flags exactly as requested, parameters match the input values per the varlink JSON mapping with exactly the declared field names; the implementation receives equal Go values and sees the same flags; reply / error frames match the values given to the generated Reply helpers (error member = <interface>.<Error>); the client returns equal values, Continues on all but the last reply, or the generated typed error with equal fields; non-overridden methods => MethodNotImplemented; unknown method => MethodNotFound; absent and array-typed parameters => InvalidParameter without invoking the implementation; bytes written on the object returned by Upgrade reach Call.Conn. Every declared error is used in turn, on Call, Send(more) and Upgrade; packages with more than two errors get extra error rounds.",
		Assumptions: []string{"nil and empty containers are equal; JSON null is tolerated for an empty array/map on the wire", "floats are compared as float64 values, integers as decimal text"},
		Run:         runC08, Replay: replayGen("C08"), CrashIsViolation: false, MinEvals: 20,
		QuickTimeout: 20 * time.Minute, ThoroughTimeout: 90 * time.Minute,
	})
}
