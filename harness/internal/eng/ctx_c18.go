package eng

// Engine e-ctx, part 1: transports for the library's context aware connection, and
// C18 - upgraded connections continue the byte stream without loss.

import (
	"bytes"
	"context"
	"encoding/json"
	"fmt"
	"io"
	"math/rand"
	"net"
	"os"
	"path/filepath"
	"runtime"
	"strings"
	"sync"
	"time"

	"github.com/varlink/go/varlink"

	"verif/harness/internal/fw"
)

// ctxEnd is one library-side context aware connection plus the raw peer end the harness drives.
type ctxEnd struct {
	rw        varlink.ReadWriterContext
	conn      *varlink.Connection // set when rw belongs to a client Connection
	peer      net.Conn
	transport string
	closers   []func()
	libClose  func() // closes the library side only
}

func (e *ctxEnd) Close() {
	for _, f := range e.closers {
		f()
	}
}

func tcpPair() (net.Conn, net.Conn, error) {
	ln, err := net.Listen("tcp", "127.0.0.1:0")
	if err != nil {
		return nil, nil, err
	}
	defer ln.Close()
	type res struct {
		c   net.Conn
		err error
	}
	ch := make(chan res, 1)
	go func() { c, err := ln.Accept(); ch <- res{c, err} }()
	cli, err := net.Dial("tcp", ln.Addr().String())
	if err != nil {
		return nil, nil, err
	}
	r := <-ch
	if r.err != nil {
		cli.Close()
		return nil, nil, r.err
	}
	return r.c, cli, nil
}

var ctxTransports = []string{"pipe", "unix", "tcp", "client-unix", "bridge"}

// newCtxEnd builds a library connection on the given transport.
//   pipe / unix / tcp: ctxio.NewConn over net.Pipe / a unix socketpair / a TCP pair (white-box constructor)
//   client-unix: a real varlink.Connection dialled to a raw listener of the harness
//   bridge: varlink.NewBridge to the bridge helper, which connects to a raw listener of the harness
func newCtxEnd(r *fw.Run, transport string) (*ctxEnd, error) {
	e := &ctxEnd{transport: transport}
	switch transport {
	case "pipe":
		a, b := net.Pipe()
		c := varlink.VerifNewCtxConn(a)
		e.rw, e.peer = c, b
		e.libClose = func() { c.Close() }
		e.closers = append(e.closers, func() { c.Close(); b.Close() })
	case "unix", "tcp":
		var a, b net.Conn
		var err error
		if transport == "unix" {
			a, b, err = unixPair()
		} else {
			a, b, err = tcpPair()
		}
		if err != nil {
			return nil, err
		}
		c := varlink.VerifNewCtxConn(a)
		e.rw, e.peer = c, b
		e.libClose = func() { c.Close() }
		e.closers = append(e.closers, func() { c.Close(); b.Close() })
	case "client-unix", "bridge":
		p := filepath.Join(r.WorkDir, fmt.Sprintf("x%d", r.Seq()))
		ln, err := net.Listen("unix", p)
		if err != nil {
			return nil, err
		}
		defer ln.Close()
		type res struct {
			c   net.Conn
			err error
		}
		ch := make(chan res, 1)
		go func() { c, err := ln.Accept(); ch <- res{c, err} }()
		var conn *varlink.Connection
		if transport == "bridge" {
			exe, _ := os.Executable()
			conn, err = varlink.NewBridgeWithStderr(fmt.Sprintf("exec '%s' --helper bridge unix '%s'", exe, p), io.Discard)
		} else {
			conn, err = varlink.NewConnection(context.Background(), "unix:"+p)
		}
		if err != nil {
			return nil, err
		}
		select {
		case rr := <-ch:
			if rr.err != nil {
				conn.Close()
				return nil, rr.err
			}
			e.peer = rr.c
		case <-time.After(20 * time.Second):
			conn.Close()
			return nil, fmt.Errorf("bridge helper did not connect")
		}
		e.conn = conn
		e.rw = varlink.VerifConnOf(conn)
		peer := e.peer
		e.libClose = func() { conn.Close() }
		e.closers = append(e.closers, func() { peer.Close(); conn.Close(); conn.Close() })
	default:
		return nil, fmt.Errorf("unknown transport %q", transport)
	}
	return e, nil
}

// ---- C18 (a): mixed read primitives over one stream -----------------------------------------------------

type c18Case struct {
	Transport string `json:"transport"`
	Stream    []byte `json:"stream"`
	Seg       Seg    `json:"seg"`
	Reads     []int  `json:"reads"` // 0 = ReadBytes(NUL); n > 0 = Read into a buffer of n bytes
	What      string `json:"what,omitempty"`
}

func c18Direct(r *fw.Run, c *c18Case) {
	report := func(class, format string, a ...interface{}) {
		r.Violation("C18 "+class, fmt.Sprintf("transport %s, %d-byte stream, cuts %v: ", c.Transport, len(c.Stream), c.Seg.Cuts)+fmt.Sprintf(format, a...), c)
	}
	e, err := newCtxEnd(r, c.Transport)
	if err != nil {
		r.Inconclusive("transport %s: %v", c.Transport, err)
		return
	}
	defer e.Close()
	// the peer writes the stream under the schedule, then closes its write side
	var wg sync.WaitGroup
	wg.Add(1)
	go func() {
		defer wg.Done()
		prev := 0
		cuts := append(append([]int{}, c.Seg.Cuts...), len(c.Stream))
		for i, cut := range cuts {
			if cut > len(c.Stream) {
				cut = len(c.Stream)
			}
			if cut <= prev {
				continue
			}
			e.peer.SetWriteDeadline(time.Now().Add(30 * time.Second))
			if _, err := e.peer.Write(c.Stream[prev:cut]); err != nil {
				return
			}
			prev = cut
			if i < len(c.Seg.Pauses) {
				switch p := c.Seg.Pauses[i]; {
				case p == 1:
					runtime.Gosched()
				case p > 1:
					time.Sleep(time.Duration(p) * time.Microsecond)
				}
			}
		}
		if c.Transport == "pipe" {
			e.peer.Close()
		} else {
			closeWrite(e.peer)
		}
	}()
	ctx, cancel := context.WithTimeout(context.Background(), 8*time.Second)
	defer cancel()
	var got []byte
	switches, last := 0, -1
	for i := 0; ; i++ {
		n := c.Reads[i%len(c.Reads)]
		var chunk []byte
		var err error
		kind := 1
		if n == 0 {
			kind = 0
			chunk, err = e.rw.ReadBytes(ctx, 0)
		} else {
			buf := make([]byte, n)
			var k int
			k, err = e.rw.Read(ctx, buf)
			chunk = buf[:k]
		}
		if last >= 0 && kind != last {
			switches++
		}
		last = kind
		got = append(got, chunk...)
		if !bytes.HasPrefix(c.Stream, got) {
			at := len(got) - len(chunk)
			report("stream-not-contiguous", "read #%d (%s) returned %q at stream offset %d where the peer sent %q: bytes were skipped, duplicated or reordered", i, map[int]string{0: "ReadBytes", 1: fmt.Sprintf("Read(%d)", n)}[kind], clip(string(chunk), 80), at, clip(string(c.Stream[min(at, len(c.Stream)):]), 80))
			break
		}
		if n == 0 && len(chunk) > 0 {
			if j := bytes.IndexByte(chunk, 0); j >= 0 && j != len(chunk)-1 {
				report("readbytes-ran-past-delimiter", "ReadBytes returned %d bytes with the first delimiter at index %d: the frame read consumed %d bytes that follow the frame (%q...)", len(chunk), j, len(chunk)-1-j, clip(string(chunk[j+1:]), 40))
				break
			}
		}
		if n == 0 && err == nil && (len(chunk) == 0 || chunk[len(chunk)-1] != 0) {
			report("readbytes-without-delimiter", "ReadBytes returned %q without the delimiter and without an error", clip(string(chunk), 80))
			break
		}
		if c.Transport == "pipe" && err != nil && strings.Contains(err.Error(), "closed pipe") {
			// net.Pipe refuses SetReadDeadline once the other end is closed, so what the library had
			// buffered is not reachable any more: a property of net.Pipe, no verdict on the remainder
			r.Count("pipe_closed_before_drained", 1)
			break
		}
		if err != nil {
			if err != io.EOF {
				report("read-error", "read #%d failed with %v after %d of %d bytes", i, err, len(got), len(c.Stream))
			} else if len(got) != len(c.Stream) {
				report("stream-truncated", "end of stream after %d bytes, the peer sent %d: the missing bytes are %q", len(got), len(c.Stream), clip(string(c.Stream[len(got):]), 80))
			}
			break
		}
		if i > len(c.Stream)+1000 {
			report("no-progress", "more than %d reads without reaching the end of a %d-byte stream", i, len(c.Stream))
			break
		}
	}
	wg.Wait()
	r.Count("bytes_checked", int64(len(got)))
	r.Count("read_primitive_switches", int64(switches))
}

// ---- C18 (b): end to end through Upgrade / Call.Conn ------------------------------------------------------

// upgradeDisp: method Up replies {} and then reads the raw stream to its end with the given read sizes.
type upgradeDisp struct {
	mu   sync.Mutex
	got  map[string][]byte
	done map[string]chan struct{}
}

func (d *upgradeDisp) VarlinkGetName() string        { return "org.example.upgrade" }
func (d *upgradeDisp) VarlinkGetDescription() string { return "interface org.example.upgrade\nmethod Up() -> ()\n" }
func (d *upgradeDisp) VarlinkDispatch(ctx context.Context, c varlink.Call, m string) error {
	var in struct {
		ID    string `json:"id"`
		Sizes []int  `json:"sizes"`
		Want  int    `json:"want"`
	}
	c.GetParameters(&in)
	if !c.WantsUpgrade() {
		return c.ReplyInvalidParameter(ctx, "upgrade")
	}
	if err := c.Reply(ctx, map[string]string{"id": in.ID}); err != nil {
		return err
	}
	var got []byte
	for i := 0; len(got) < in.Want; i++ {
		n := 64
		if len(in.Sizes) > 0 {
			n = in.Sizes[i%len(in.Sizes)]
		}
		if n <= 0 {
			b, err := c.Conn.ReadBytes(ctx, 0)
			got = append(got, b...)
			if err != nil {
				break
			}
			continue
		}
		buf := make([]byte, n)
		k, err := c.Conn.Read(ctx, buf)
		got = append(got, buf[:k]...)
		if err != nil {
			break
		}
	}
	// answer on the upgraded stream so that the client knows the handler is done
	c.Conn.Write(ctx, []byte("DONE\n"))
	d.mu.Lock()
	d.got[in.ID] = got
	if ch := d.done[in.ID]; ch != nil {
		close(ch)
	}
	d.mu.Unlock()
	return fmt.Errorf("upgraded connection finished")
}

type c18UpCase struct {
	Side      string `json:"side"` // service | client
	Transport string `json:"transport"`
	Payload   []byte `json:"payload"`
	Coalesced bool   `json:"coalesced"` // frame and payload in one write
	Sizes     []int  `json:"sizes"`
}

func c18ServiceSide(r *fw.Run, g *Rig, d *upgradeDisp, c *c18UpCase, id string) {
	report := func(class, format string, a ...interface{}) {
		r.Violation("C18 "+class, fmt.Sprintf("service handler after an upgrade call (%s, frame and payload in one segment: %v, read sizes %v): ", c.Transport, c.Coalesced, c.Sizes)+fmt.Sprintf(format, a...), c)
	}
	ch := make(chan struct{})
	d.mu.Lock()
	d.done[id] = ch
	d.mu.Unlock()
	conn, _, err := dialRaw(g.Net, g.Dial)
	if err != nil {
		r.Inconclusive("dial: %v", err)
		return
	}
	defer conn.Close()
	sz, _ := json.Marshal(c.Sizes)
	frame := []byte(fmt.Sprintf(`{"method":"org.example.upgrade.Up","upgrade":true,"parameters":{"id":%q,"sizes":%s,"want":%d}}`, id, sz, len(c.Payload)))
	frame = append(frame, 0)
	conn.SetDeadline(time.Now().Add(30 * time.Second))
	if c.Coalesced {
		conn.Write(append(append([]byte{}, frame...), c.Payload...))
	} else {
		conn.Write(frame)
		time.Sleep(300 * time.Microsecond)
		conn.Write(c.Payload)
	}
	// a second segment follows later: a handler that lost the coalesced bytes would get these instead
	time.Sleep(200 * time.Microsecond)
	tail := []byte("<<SECOND SEGMENT " + id + ">>\x00")
	conn.Write(tail)
	select {
	case <-ch:
	case <-time.After(8 * time.Second):
		report("handler-stuck", "the handler did not get %d payload bytes within 8 s", len(c.Payload))
		return
	}
	d.mu.Lock()
	got := d.got[id]
	delete(d.got, id)
	delete(d.done, id)
	d.mu.Unlock()
	want := append(append([]byte{}, c.Payload...), tail...)
	if !bytes.HasPrefix(want, got) || len(got) < len(c.Payload) {
		report("upgraded-bytes-lost", "the client sent the request frame followed by %q; the handler's raw reads returned %q", clip(string(c.Payload), 100), clip(string(got), 100))
	}
	r.Count("service_side_upgrades", 1)
	r.Count("bytes_checked", int64(len(got)))
}

func c18ClientSide(r *fw.Run, srv *RawServer, c *c18UpCase, id string) {
	report := func(class, format string, a ...interface{}) {
		r.Violation("C18 "+class, fmt.Sprintf("client after Upgrade (reply frame and payload in one segment: %v, read sizes %v): ", c.Coalesced, c.Sizes)+fmt.Sprintf(format, a...), c)
	}
	reply := append([]byte(`{"parameters":{"id":"`+id+`"}}`), 0)
	stream := append(append([]byte{}, reply...), c.Payload...)
	seg := Seg{}
	if !c.Coalesced {
		seg = Seg{Cuts: []int{len(reply)}, Pauses: []int{300}}
	}
	play := &rawPlay{Reply: stream, Seg: seg, DieAt: len(stream)}
	srv.Expect(play)
	ctx, cancel := context.WithTimeout(context.Background(), 30*time.Second)
	defer cancel()
	conn, err := varlink.NewConnection(ctx, srv.Addr)
	if err != nil {
		r.Inconclusive("connect: %v", err)
		return
	}
	// closed twice, as by a caller that defers Close and also closes explicitly
	defer conn.Close()
	defer conn.Close()
	recv, err := conn.Upgrade(ctx, "org.example.upgrade.Up", map[string]string{"id": id})
	if err != nil {
		report("upgrade-failed", "%v", err)
		return
	}
	var out json.RawMessage
	_, rw, err := recv(ctx, &out)
	if err != nil || rw == nil {
		report("upgrade-failed", "receive: %v", err)
		return
	}
	var got []byte
	for i := 0; ; i++ {
		n := c.Sizes[i%len(c.Sizes)]
		if n <= 0 {
			n = 1
		}
		buf := make([]byte, n)
		k, err := rw.Read(ctx, buf)
		got = append(got, buf[:k]...)
		if err != nil {
			break
		}
	}
	if !bytes.Equal(got, c.Payload) {
		report("upgraded-bytes-lost", "the server sent the reply frame followed by %q; raw reads on the upgraded connection returned %q", clip(string(c.Payload), 100), clip(string(got), 100))
	}
	r.Count("client_side_upgrades", 1)
	r.Count("bytes_checked", int64(len(got)))
}

// c18BothEnds: real client Connections (Upgrade) against a real Service (handler reads Call.Conn), several at a time
// on one service, each client closing its Connection twice (a deferred and an explicit Close). Every handler must get
// exactly its own client's payload, every client the handler's DONE line.
func c18BothEnds(r *fw.Run, g *Rig, d *upgradeDisp, tr string, round, nconn int, rng *rand.Rand) {
	type one struct {
		id      string
		payload []byte
		sizes   []int
	}
	var cs []one
	for i := 0; i < nconn; i++ {
		id := fmt.Sprintf("b%s%d.%d", tr, round, i)
		cs = append(cs, one{id, []byte(fmt.Sprintf("payload-of-%s:", id) + string(genStream(rng, 1+rng.Intn(300)))), [][]int{{16}, {1}, {4096}, {7, 4095}}[rng.Intn(4)]})
		d.mu.Lock()
		d.done[id] = make(chan struct{})
		d.mu.Unlock()
	}
	cse := map[string]interface{}{"what": "client Upgrade against a real service, connections in parallel, each closed twice", "transport": tr, "connections": nconn}
	var wg sync.WaitGroup
	for _, c := range cs {
		wg.Add(1)
		go func(c one) {
			defer wg.Done()
			ctx, cancel := context.WithTimeout(context.Background(), 20*time.Second)
			defer cancel()
			addr := "unix:" + g.Dial
			if g.Net == "tcp" {
				addr = "tcp:" + g.Dial
			}
			conn, err := varlink.NewConnection(ctx, addr)
			if err != nil {
				r.Inconclusive("both-ends: connect: %v", err)
				return
			}
			defer conn.Close()
			recv, err := conn.Upgrade(ctx, "org.example.upgrade.Up", map[string]interface{}{"id": c.id, "sizes": c.sizes, "want": len(c.payload)})
			if err != nil {
				r.Violation("C18 upgrade-failed", fmt.Sprintf("%s: Upgrade: %v", c.id, err), cse)
				return
			}
			var out json.RawMessage
			_, rw, err := recv(ctx, &out)
			if err != nil || rw == nil {
				r.Violation("C18 upgrade-failed", fmt.Sprintf("%s: receive after Upgrade: %v", c.id, err), cse)
				return
			}
			if _, err := rw.Write(ctx, c.payload); err != nil {
				r.Violation("C18 upgrade-failed", fmt.Sprintf("%s: write on the upgraded connection: %v", c.id, err), cse)
				return
			}
			line, err := rw.ReadBytes(ctx, '\n')
			if err != nil || string(line) != "DONE\n" {
				r.Violation("C18 upgraded-bytes-lost", fmt.Sprintf("%s: the handler writes DONE\\n on the upgraded connection once it has its payload; the client read %q, %v", c.id, clip(string(line), 60), err), cse)
			}
			conn.Close() // explicit, the deferred one follows
		}(c)
	}
	waited := make(chan struct{})
	go func() { wg.Wait(); close(waited) }()
	select {
	case <-waited:
	case <-time.After(60 * time.Second):
		r.Violation("C18 operation-hangs", fmt.Sprintf("%d clients in parallel: 60 s after they began (their contexts ended after 20 s) not all of them have returned from Upgrade / receive / raw I/O / Close", nconn), cse)
		return
	}
	for _, c := range cs {
		d.mu.Lock()
		ch := d.done[c.id]
		d.mu.Unlock()
		select {
		case <-ch:
		case <-time.After(5 * time.Second):
		}
		d.mu.Lock()
		got := d.got[c.id]
		delete(d.got, c.id)
		delete(d.done, c.id)
		d.mu.Unlock()
		if !bytes.Equal(got, c.payload) {
			r.Violation("C18 upgraded-bytes-lost", fmt.Sprintf("%s (%d connections in parallel): the client wrote %q on its upgraded connection; its handler's raw reads returned %q", c.id, nconn, clip(string(c.payload), 80), clip(string(got), 80)), cse)
		}
		r.Count("both_ends_upgrades", 1)
	}
}

// slowStartConn: a transport whose Read takes a while to get going (every Read first waits `delay`, then reads with the
// deadline that is in force at that moment) - a congested tunnel, a bridge on a loaded machine.
type slowStartConn struct {
	net.Conn
	delay time.Duration
}

func (c *slowStartConn) Read(b []byte) (int, error) {
	time.Sleep(c.delay)
	return c.Conn.Read(b)
}

// c18SlowTransport: frame read, then a short poll that times out with nothing in flight, then payload read with raw
// reads - on a transport whose reads start late. The poll must not cost any byte that arrives later.
func c18SlowTransport(r *fw.Run, k int) {
	delay := time.Duration(120+k%3*60) * time.Millisecond
	cse := map[string]interface{}{"what": "slow transport: frame read, poll that times out, raw reads", "read_start_delay_ms": delay.Milliseconds()}
	a, b, err := unixPair()
	if err != nil {
		r.Inconclusive("slow transport: %v", err)
		return
	}
	defer a.Close()
	defer b.Close()
	rw := varlink.VerifNewCtxConn(&slowStartConn{Conn: a, delay: delay})
	frame := append([]byte(fmt.Sprintf(`{"parameters":{"frame":%d}}`, k)), 0)
	b.SetWriteDeadline(time.Now().Add(20 * time.Second))
	b.Write(frame)
	live, cancelLive := context.WithCancel(context.Background())
	defer cancelLive()
	wd := time.AfterFunc(60*time.Second, cancelLive)
	defer wd.Stop()
	got, err := rw.ReadBytes(live, 0)
	if err != nil || !bytes.Equal(got, frame) {
		r.Violation("C18 stream-not-contiguous", fmt.Sprintf("slow transport: the frame read returned %q, %v; the peer sent %q", clip(string(got), 80), err, clip(string(frame), 80)), cse)
		return
	}
	pctx, pcancel := context.WithTimeout(context.Background(), 20*time.Millisecond)
	_, perr := rw.ReadBytes(pctx, 0)
	pcancel()
	if perr == nil {
		r.Violation("C18 stream-not-contiguous", "slow transport: a poll with nothing in flight returned success", cse)
		return
	}
	want := []byte("PAYLOAD-1;PAYLOAD-2;")
	b.Write(want[:10])
	var payload []byte
	for len(payload) < len(want) {
		buf := make([]byte, 64)
		n, err := rw.Read(live, buf)
		payload = append(payload, buf[:n]...)
		if len(payload) >= 10 && len(payload) < len(want) {
			b.Write(want[10:])
		}
		if err != nil {
			break
		}
		if !bytes.HasPrefix(want, payload) {
			break
		}
	}
	if !bytes.Equal(payload, want) {
		r.Violation("C18 upgraded-bytes-lost", fmt.Sprintf("slow transport (reads start %v late): after a frame read and a 20 ms poll that timed out the peer sent %q; raw reads returned %q", delay, want, clip(string(payload), 80)), cse)
	}
	r.Count("slow_transport_runs", 1)
	r.Case(fw.Hash("slow-transport", fmt.Sprint(k%3)), true)
}

// c18Duplex: the peer echoes; the library side writes the stream in one goroutine and reads the echo in another.
// What is read must be exactly what was written.
func c18Duplex(r *fw.Run, transport string, S []byte, k int) {
	cs := map[string]interface{}{"what": "duplex echo", "transport": transport, "len": len(S)}
	e, err := newCtxEnd(r, transport)
	if err != nil {
		r.Inconclusive("transport %s: %v", transport, err)
		return
	}
	defer e.Close()
	go func() { // echo
		buf := make([]byte, 1+(k*37)%5000)
		for {
			n, err := e.peer.Read(buf)
			if n > 0 {
				if _, werr := e.peer.Write(buf[:n]); werr != nil {
					return
				}
			}
			if err != nil {
				return
			}
		}
	}()
	ctx, cancel := context.WithTimeout(context.Background(), 30*time.Second)
	defer cancel()
	var wg sync.WaitGroup
	wg.Add(1)
	var werr error
	go func() {
		defer wg.Done()
		chunk := 1 + (k*53)%3000
		for off := 0; off < len(S); off += chunk {
			end := off + chunk
			if end > len(S) {
				end = len(S)
			}
			if _, err := e.rw.Write(ctx, S[off:end]); err != nil {
				werr = err
				return
			}
		}
	}()
	var got []byte
	var rerr error
	for i := 0; len(got) < len(S); i++ {
		buf := make([]byte, []int{1, 7, 512, 4096, 65536}[(k+i)%5])
		n, err := e.rw.Read(ctx, buf)
		if n < 0 || n > len(buf) {
			r.Violation("C18 read-count-out-of-range", fmt.Sprintf("duplex use on %s: Read into a %d-byte buffer reported %d bytes (while another goroutine was writing)", transport, len(buf), n), cs)
			cancel()
			wg.Wait()
			return
		}
		got = append(got, buf[:n]...)
		if !bytes.HasPrefix(S, got) {
			at := len(got) - n
			r.Violation("C18 stream-not-contiguous", fmt.Sprintf("duplex use on %s: Read returned %q at offset %d of the echo of what the other goroutine wrote (%q)", transport, clip(string(buf[:n]), 60), at, clip(string(S[min(at, len(S)):]), 60)), cs)
			cancel()
			wg.Wait()
			return
		}
		if err != nil {
			rerr = err
			break
		}
	}
	cancel()
	wg.Wait()
	if len(got) != len(S) {
		r.Violation("C18 stream-truncated", fmt.Sprintf("duplex use on %s: %d of %d echoed bytes were read (read error %v, write error %v)", transport, len(got), len(S), rerr, werr), cs)
	}
	r.Count("duplex_streams", 1)
	r.Count("bytes_checked", int64(len(got)))
	r.Case(fw.Hash("duplex", transport, fmt.Sprint(k)), true)
}

func genStream(rng *rand.Rand, n int) []byte {
	b := make([]byte, 0, n)
	for len(b) < n {
		switch rng.Intn(5) {
		case 0:
			b = append(b, 0)
		case 1:
			b = append(b, fmt.Sprintf(`{"k":%d}`, rng.Intn(1000))...)
			b = append(b, 0)
		default:
			k := 1 + rng.Intn(40)
			for i := 0; i < k; i++ {
				b = append(b, byte('a'+(len(b)%26)))
			}
		}
	}
	return b[:n]
}

func runC18(r *fw.Run) {
	rng := rand.New(rand.NewSource(r.Seed*47 + 18))
	n := r.Pick(3000, 120000)
	readSets := [][]int{{0, 1}, {0, 7}, {0, 4095}, {0, 4096, 4097}, {0, 65536}, {0, 0, 3}, {5}, {0}, {1, 0}, {4096}, {0, 1, 7, 4095, 4096, 4097, 65536}}
	sizes := []int{0, 1, 10, 100, 1000, 4095, 4096, 4097, 8192, 10000, 70000}
	var cases []*c18Case
	for k := 0; k < n; k++ {
		S := genStream(rng, sizes[rng.Intn(len(sizes))]+rng.Intn(3))
		fr, _ := splitFrames(S)
		var bounds []int
		x := 0
		for _, f := range fr {
			x += len(f) + 1
			bounds = append(bounds, x)
		}
		kind := rng.Intn(5)
		if kind == 1 && len(S) > 5000 {
			kind = 2
		}
		cases = append(cases, &c18Case{Transport: []string{"pipe", "unix", "tcp"}[k%3], Stream: S, Seg: segFor(rng, kind, len(S), bounds), Reads: readSets[rng.Intn(len(readSets))]})
	}
	// the decisive shape: a frame and the raw payload coalesced in one segment
	for k := 0; k < r.Pick(300, 9000); k++ {
		frame := append([]byte(fmt.Sprintf(`{"method":"x.y.Up","upgrade":true,"n":%d}`, k)), 0)
		payload := genStream(rng, 1+rng.Intn(300))
		S := append(append([]byte{}, frame...), payload...)
		cases = append(cases, &c18Case{Transport: []string{"pipe", "unix", "tcp"}[k%3], Stream: S, Seg: Seg{}, Reads: [][]int{{0, 16, 16, 16, 16, 16, 16, 16, 16, 16, 16, 16, 16, 16, 16, 16, 16, 16, 16, 16, 16}, {0, 4096, 4096, 4096}, {0, 1, 1, 1, 1, 1, 1, 1, 1, 1, 1, 1, 1, 1, 1, 1, 1, 1, 1, 1, 1, 1, 1, 1, 1, 1, 1, 1, 1, 1, 1}}[k%3], What: "frame+payload coalesced"})
	}
	// a frame longer than the internal buffer and the raw payload right behind it in one segment
	for k := 0; k < r.Pick(60, 1800); k++ {
		flen := []int{4090, 4096, 4200, 5000, 8192, 20000, 70000}[k%7]
		frame := append([]byte(`{"method":"x.y.Up","upgrade":true,"pad":"`), bytes.Repeat([]byte("p"), flen)...)
		frame = append(frame, []byte(`"}`)...)
		frame = append(frame, 0)
		payload := genStream(rng, 1+rng.Intn(600))
		S := append(append([]byte{}, frame...), payload...)
		cases = append(cases, &c18Case{Transport: []string{"pipe", "unix", "tcp"}[k%3], Stream: S, Seg: Seg{}, Reads: [][]int{{0, 16, 16, 16, 16, 16, 16, 16, 16, 16, 16, 16, 16, 16, 16, 16, 16, 16, 16, 16, 16, 16, 16, 16, 16, 16, 16, 16, 16, 16, 16, 16, 16, 16, 16, 16, 16, 16, 16}, {0, 4096, 4096}, {0, 1, 1, 1, 1, 1, 1, 1, 1, 1, 1, 1, 1, 1, 1, 1, 1, 1, 1, 1, 1, 1, 1, 1, 1, 1, 1, 1, 1, 1, 1, 1, 1, 1, 1, 1, 1, 1, 1, 1, 1, 1, 1, 1, 1, 1, 1, 1, 1, 1, 1, 1, 1, 1, 1, 1, 1, 1, 1, 1, 1}}[k%3], What: "big frame+payload coalesced"})
	}
	// frames whose length (delimiter included) is exactly, or one to three bytes off, a multiple of the 4096-byte reader buffer,
	// payload right behind them in the same segment
	{
		k := 0
		centres := []int{4096, 8192, 12288, 16384, 65536}
		if r.Thorough {
			centres = append(centres, 20480, 32768, 131072, 1<<20)
		}
		head := []byte(`{"method":"x.y.Up","upgrade":true,"pad":"`)
		for _, centre := range centres {
			for d := -3; d <= 3; d++ {
				for rs := 0; rs < 3; rs++ {
					flen := centre + d - len(head) - 3
					frame := append(append([]byte{}, head...), bytes.Repeat([]byte("q"), flen)...)
					frame = append(frame, []byte(`"}`)...)
					frame = append(frame, 0)
					payload := genStream(rng, 1+rng.Intn(600))
					S := append(append([]byte{}, frame...), payload...)
					reads := [][]int{{0, 16, 16, 16, 16, 16, 16, 16, 16, 16, 16, 16, 16, 16, 16, 16, 16, 16, 16, 16, 16, 16, 16, 16, 16, 16, 16, 16, 16, 16, 16, 16, 16, 16, 16, 16, 16, 16, 16}, {0, 4096, 4096}, {0, 0, 7, 0, 4095}}[rs]
					cases = append(cases, &c18Case{Transport: []string{"pipe", "unix", "tcp"}[k%3], Stream: S, Seg: Seg{}, Reads: reads, What: "frame of exact length+payload coalesced"})
					k++
				}
			}
		}
		r.Count("exact_length_frames", int64(k))
	}
	fw.Parallel(8, len(cases), func(w, i int) {
		c := cases[i]
		if r.ViolationCount() > 12 {
			return // the tree is broken; the remaining cases would only repeat it slowly
		}
		r.Journal(w, map[string]interface{}{"transport": c.Transport, "len": len(c.Stream), "reads": c.Reads})
		if p := catch(func() { c18Direct(r, c) }); p != "" {
			r.Violation("C18 panic", p, c)
		}
		r.Done(w)
		r.Case(fw.HashBytes(c.Stream)^uint64(len(c.Seg.Cuts))<<32^uint64(c.Reads[0]+len(c.Reads)), len(c.Stream) > 1)
		if c.What != "" {
			r.Count("coalesced_cases", 1)
		}
		if i%100 == 0 {
			r.Sample(map[string]interface{}{"transport": c.Transport, "stream": clip(string(c.Stream), 200), "cuts": c.Seg.Cuts, "reads": c.Reads})
		}
	})
	// duplex use: one goroutine writes a stream, another reads the echo, on the same library connection
	for k := 0; k < r.Pick(30, 300) && r.ViolationCount() <= 12; k++ {
		S := genStream(rng, 2000+rng.Intn(60000))
		r.Journal(0, map[string]interface{}{"what": "duplex echo", "k": k, "len": len(S)})
		if p := catch(func() { c18Duplex(r, []string{"unix", "tcp", "pipe"}[k%3], S, k) }); p != "" {
			r.Violation("C18 panic", p, map[string]interface{}{"what": "duplex echo", "k": k})
		}
		r.Done(0)
	}
	// (b) end to end
	d := &upgradeDisp{got: map[string][]byte{}, done: map[string]chan struct{}{}}
	for _, tr := range []string{"unix", "tcp"} {
		svc, err := varlink.NewService("Verif", "Upgrade", "1", "u")
		if err != nil {
			continue
		}
		svc.RegisterInterface(d)
		g := &Rig{Svc: svc, Log: newEvLog(r), r: r, done: make(chan error, 1), Reg: &MReg{Product: "Upgrade"}}
		g.ctx, g.cancel = context.WithCancel(context.Background())
		addr := "tcp:127.0.0.1:0"
		g.Net = "tcp"
		if tr == "unix" {
			g.Dial = filepath.Join(r.WorkDir, fmt.Sprintf("up%d", r.Seq()))
			addr = "unix:" + g.Dial
			g.Net = "unix"
		}
		if err := svc.Bind(g.ctx, addr); err != nil {
			r.Inconclusive("bind: %v", err)
			continue
		}
		if tr == "tcp" {
			l, _ := svc.GetListener()
			g.Dial = l.Addr().String()
		}
		go func() { g.done <- svc.DoListen(g.ctx, 0) }()
		for try := 0; try < 1000 && g.Probe() != nil; try++ {
			time.Sleep(300 * time.Microsecond)
		}
		for k := 0; k < r.Pick(300, 9000); k++ {
			c := &c18UpCase{Side: "service", Transport: tr, Payload: genStream(rng, 1+rng.Intn(2000)), Coalesced: k%2 == 0, Sizes: [][]int{{16}, {1}, {4096}, {7, 4095}, {65536}, {0, 5}}[rng.Intn(6)]}
			id := fmt.Sprintf("u%s%d", tr, k)
			if r.ViolationCount() > 24 {
				break
			}
			r.Journal(0, c)
			c18ServiceSide(r, g, d, c, id)
			r.Done(0)
			r.Case(fw.Hash("svc", tr, fmt.Sprint(k, c.Coalesced)), true)
			if c.Coalesced {
				r.Count("coalesced_cases", 1)
			}
		}
		for k := 0; k < r.Pick(20, 300) && r.ViolationCount() <= 24; k++ {
			r.Journal(0, map[string]interface{}{"what": "both ends", "transport": tr, "round": k})
			c18BothEnds(r, g, d, tr, k, 1+k%6, rng)
			r.Done(0)
			r.Case(fw.Hash("both", tr, fmt.Sprint(k)), true)
		}
		g.Stop()
	}
	for k := 0; k < r.Pick(6, 60) && r.ViolationCount() <= 24; k++ {
		r.Journal(0, map[string]interface{}{"what": "slow transport", "k": k})
		c18SlowTransport(r, k)
		r.Done(0)
	}
	srv, err := newRawServer(r.WorkDir)
	if err == nil {
		defer srv.Close()
		for k := 0; k < r.Pick(300, 9000); k++ {
			c := &c18UpCase{Side: "client", Transport: "unix", Payload: genStream(rng, 1+rng.Intn(2000)), Coalesced: k%2 == 0, Sizes: [][]int{{16}, {1}, {4096}, {7, 4095}, {65536}}[rng.Intn(5)]}
			r.Journal(0, c)
			c18ClientSide(r, srv, c, fmt.Sprintf("c%d", k))
			r.Done(0)
			r.Case(fw.Hash("cli", fmt.Sprint(k, c.Coalesced)), true)
			if c.Coalesced {
				r.Count("coalesced_cases", 1)
			}
		}
	}
}

func replayC18(r *fw.Run, raw json.RawMessage) {
	var c c18Case
	if json.Unmarshal(raw, &c) == nil && len(c.Reads) > 0 {
		c18Direct(r, &c)
		r.Case(1, true)
		r.Case(2, true)
		return
	}
	var u c18UpCase
	if json.Unmarshal(raw, &u) != nil || u.Side == "" {
		return
	}
	if u.Side == "client" {
		if srv, err := newRawServer(r.WorkDir); err == nil {
			c18ClientSide(r, srv, &u, "replay")
			srv.Close()
		}
	} else {
		d := &upgradeDisp{got: map[string][]byte{}, done: map[string]chan struct{}{}}
		svc, _ := varlink.NewService("Verif", "Upgrade", "1", "u")
		svc.RegisterInterface(d)
		g := &Rig{Svc: svc, Log: newEvLog(r), r: r, done: make(chan error, 1), Reg: &MReg{Product: "Upgrade"}, Net: "unix"}
		g.ctx, g.cancel = context.WithCancel(context.Background())
		g.Dial = filepath.Join(r.WorkDir, "upreplay")
		if svc.Bind(g.ctx, "unix:"+g.Dial) == nil {
			go func() { g.done <- svc.DoListen(g.ctx, 0) }()
			for try := 0; try < 1000 && g.Probe() != nil; try++ {
				time.Sleep(300 * time.Microsecond)
			}
			c18ServiceSide(r, g, d, &u, "replay")
			g.Stop()
		}
	}
	r.Case(1, true)
	r.Case(2, true)
}

func init() {
	fw.Register(&fw.Engine{
		ID: "C18", Level: "exploration",
		Rule: "(a) stream-integrity monitor on the library's context aware connection (white-box constructor) over an in-memory pipe, a unix socketpair and a TCP pair: the peer sends a known byte stream (frames and raw payload mixed, NULs anywhere, lengths 0..70000 around 4096/8192) under a segmentation schedule (one write, byte-wise, random cuts with pauses, at frame boundaries, at 4095/4096/4097...), the consumer interleaves ReadBytes(NUL) and Read(n), n in {1,3,5,7,16,4095,4096,4097,65536} in 11 patterns; after every read the concatenation of everything returned must be a prefix of what was sent, and equal to it at end of stream; plus the decisive shape 'frame and raw payload in one segment'. (b) end to end: a raw client sends an upgrade call and the payload in one segment (and in two) to a real Service whose handler then reads Call.Conn; a scripted server sends reply frame and payload in one segment (and in two) to a real Connection that called Upgrade and reads the returned object. The bytes read must be exactly the payload, starting immediately after the frame. non-trivial = stream longer than one byte; distinct by (stream hash, schedule, read pattern). Also: frames of 4090..70000 bytes with the payload in the same segment; duplex use (one goroutine writes a stream, another reads its echo on the same connection). A frame read must end at the first delimiter. Also frames whose length with the delimiter is a multiple of 4096 (4096 .. 65536, thorough to 1 MiB) or up to three bytes off, payload coalesced behind them. Real client Connections calling Upgrade against a real Service, 1-6 at a time, each client closing its Connection twice: every handler gets exactly its own client's payload. On a transport whose reads start 120-240 ms late: frame read, a 20 ms poll that times out, then raw reads get every byte sent afterwards.",
		Assumptions: []string{"a second segment is sent after the payload so that a reader that skipped the coalesced bytes is seen to return later bytes instead"},
		Run:         runC18, Replay: replayC18, CrashIsViolation: true, MinEvals: 100,
		QuickTimeout: 15 * time.Minute, ThoroughTimeout: 60 * time.Minute,
	})
}
