package eng

// C04 - method routing and the standard error replies (engine e-conn).

import (
	"encoding/json"
	"fmt"
	"math/rand"
	"strings"
	"time"

	"verif/harness/internal/fw"
)

var c04NamePool = []string{"a.b", "a.b.c", "a.b.c.d", "a.bc", "A.b", "a.B", "a", "b", "a.", ".a", "a..b", "org.varlink.servic", "org.varlink.service2",
	"org.varlink.service.x", "org.varlink", "org", "Org.Varlink.Service", "com.example.é", "com.example.e", "x", "io.systemd.Resolve", "io.systemd",
	"a.b ", " a.b", "a.b\u0000", "ａ.b", "", "a/b", "a.b.M", "1.2", "com.example.\U0001F600"}

func genNameSet(rng *rand.Rand) []string {
	n := 1 + rng.Intn(6)
	seen := map[string]bool{"org.varlink.service": true}
	var out []string
	for len(out) < n {
		s := c04NamePool[rng.Intn(len(c04NamePool))]
		if rng.Intn(8) == 0 {
			s = s + "." + c04NamePool[rng.Intn(len(c04NamePool))]
		}
		if seen[s] {
			continue
		}
		seen[s] = true
		out = append(out, s)
	}
	return out
}

func genMethodStrings(rng *rand.Rand, names []string, n int) []string {
	var pool []string
	for _, nm := range append([]string{"org.varlink.service"}, names...) {
		pool = append(pool, nm+".M", nm, nm+".", nm+"..M", "."+nm+".M", nm+".M.N", nm+"x.M", "x"+nm+".M", strings.ToUpper(nm)+".M", strings.ToLower(nm)+".M",
			nm+".GetInfo", nm+".é", nm+".M/x", nm+".x/y.z", nm+"/.M", nm+".M/", "a/b"+nm+".M", nm+". M", nm+" .M", nm+".\u0000", " "+nm+".M", nm+".M ", "\t"+nm+".M", nm+".M\n", "\u00a0"+nm+".M", nm+".M\u2003", "\r\n"+nm+".M\r\n")
		if len(nm) > 1 {
			pool = append(pool, nm[:len(nm)-1]+".M", nm[1:]+".M", nm[:len(nm)/2]+".M", nm[:len(nm)-1], nm[:len(nm)/2]+"."+nm[len(nm)/2:]+".M")
		}
		if i := strings.Index(nm, "."); i >= 0 {
			pool = append(pool, nm[:i]+".M", nm[i:]+".M", nm[:i]+nm[i+1:]+".M", strings.Replace(nm, ".", "..", 1)+".M")
		}
	}
	pool = append(pool, "", ".", "..", "...", "M", ".M", "M.", "/", "a.b/c", "a/b.c", "org.varlink.service.GetInfo/x", "org.varlink.service/.GetInfo", "a.b.c.d.e.f.g.h", "org.varlink.service.GetInfo", "org.varlink.service.GetInterfaceDescription",
		"org.varlink.service.getinfo", "org.varlink.service.", "org.varlink.service..GetInfo", "org.varlink.service.GetInfo.", "Org.varlink.service.GetInfo",
		strings.Repeat("a.", 3000)+"M", strings.Repeat("x", 20000), "é.ü.ß", "‮.M")
	out := make([]string, n)
	for i := range out {
		out[i] = pool[rng.Intn(len(pool))]
	}
	return out
}

var c04BadFrames = []string{`{"method":5}`, `{"method":{"a":"a.b.M"}}`, `{"method":["a.b.M"]}`, `["a.b.M"]`, `"a.b.M"`, `5`, `true`, `{"method":true,"parameters":{}}`,
	`{"method":"a.b.M","more":"yes"}`, `{"method":"a.b.M","oneway":1}`, `{"method":"a.b.M"`, `{method:"a.b.M"}`, ``, ` `}

var c04NoMethod = []string{`{}`, `null`, `{"method":null}`, `{"parameters":{"id":"x","steps":[{"op":"reply"}]}}`, `{"more":true}`, `{"method":""}`, `{"oneway":false,"parameters":null}`, ` { } `}

func c04Conn(rng *rand.Rand, names []string, tag string, nm int) *ConnScript {
	cs := &ConnScript{Seg: rng.Intn(4), SegS: rng.Int63()}
	for i, m := range genMethodStrings(rng, names, nm) {
		id := fmt.Sprintf("%s.%d", tag, i)
		c := GenCall{Method: m}
		if rng.Intn(3) == 0 {
			c.Flags = c01Flags[rng.Intn(len(c01Flags))] // routing and the standard errors must not depend on the flags
		}
		switch rng.Intn(5) {
		case 3:
			// the handler itself answers with one of the four standard errors, carrying a string that the routing errors of
			// this set carry as well (member names of org.varlink.service near-misses, registered names, field names)
			args := []string{"getinfo", "GetInfo", "GetInfo.", "", "M", "method", "interface", names[rng.Intn(len(names))], "a.b"}
			c.Script = &CallScript{ID: id, Steps: []Step{{Op: "builtin", Name: []string{"InterfaceNotFound", "MethodNotFound", "MethodNotImplemented", "InvalidParameter"}[rng.Intn(4)], Arg: args[rng.Intn(len(args))]}}}
		case 0:
			c.Script = &CallScript{ID: id, Steps: []Step{{Op: "reply"}}}
		case 1:
			c.Script = &CallScript{ID: id, Steps: []Step{{Op: "reply", Cont: true}, {Op: "reply"}}}
			if !strings.Contains(c.Flags, "m") {
				c.Flags += "m"
			}
		case 2:
			c.Params = `{"interface":"a.b"}`
		}
		cs.Calls = append(cs.Calls, c)
		if rng.Intn(5) == 0 {
			// a well-formed frame without a string method right after a dispatched call: answered with
			// InvalidParameter(method), never dispatched (in particular not to the previous call's target)
			cs.Calls = append(cs.Calls, GenCall{Raw: c04NoMethod[rng.Intn(len(c04NoMethod))]})
		}
	}
	// the connection must still be usable: a GetInfo at the end
	cs.Calls = append(cs.Calls, GenCall{Method: "org.varlink.service.GetInfo"})
	if rng.Intn(3) == 0 {
		// finally a frame that is not an object with a string method: never dispatched, ends the connection
		cs.Calls = append(cs.Calls, GenCall{Raw: c04BadFrames[rng.Intn(len(c04BadFrames))]})
		cs.Calls = append(cs.Calls, GenCall{Method: names[0] + ".AfterBadFrame", Script: &CallScript{ID: tag + ".late", Steps: []Step{{Op: "reply"}}}})
	}
	return cs
}

func runC04(r *fw.Run) {
	for k := 0; k < r.Pick(40, 400) && r.ViolationCount() <= 12; k++ {
		c04ManyAtOnce(r, k)
	}
	rng := rand.New(rand.NewSource(r.Seed*7 + 4))
	sets := r.Pick(60, 600)
	perSet := r.Pick(12, 40)
	nm := r.Pick(10, 20)
	tag := 0
	for k := 0; k < sets; k++ {
		names := genNameSet(rng)
		// every third set is registered in two steps on the same service object: the later names are first called
		// while they are unknown (InterfaceNotFound), then registered during a pause in serving, then called again
		first, later := names, []string(nil)
		if k%3 == 2 && len(names) >= 2 {
			first, later = names[:len(names)/2], names[len(names)/2:]
		}
		// every fourth set is registered from goroutines released at the same instant
		g, err := newRig(r, RigOpt{Transport: "unix", Ifaces: first, UseListen: k%2 == 1, ConcurrentReg: k%4 == 1 && len(first) >= 2})
		if err != nil {
			rigFailure(r, "C04", err, names)
			continue
		}
		// while the service is serving, registration attempts are refused - and a refused attempt must leave no trace in the
		// routing: the names tried here (the later names of a two-step set, or one fresh name) are called in phase 0 and
		// must get InterfaceNotFound without any dispatch
		callNames := names
		{
			tryNames := later
			if later == nil {
				fresh := fmt.Sprintf("org.example.refused%d", k)
				tryNames = []string{fresh}
				callNames = append(append([]string{}, names...), fresh)
			}
			for _, n := range tryNames {
				if err := g.Svc.RegisterInterface(&ScriptDisp{Name: n, Desc: defaultDesc(n), Log: g.Log}); err == nil {
					r.Violation("C04 registration-while-serving-accepted", fmt.Sprintf("RegisterInterface(%q) on a serving service returned nil", n), names)
				}
				r.Count("refused_registration_attempts", 1)
			}
		}
		for phase := 0; phase < 2; phase++ {
			if phase == 1 {
				if later == nil {
					break
				}
				if err := g.Restart(later); err != nil {
					r.Violation("C04 register-and-serve-again", fmt.Sprintf("names %q registered after a shutdown of the same object: %v", later, err), names)
					break
				}
				r.Count("two_step_registrations", 1)
			}
			for j := 0; j < perSet; j++ {
				if r.ViolationCount() > 12 || g.tainted {
					break
				}
				cc := &c01Case{Transport: "unix", UseListen: k%2 == 1, Ifaces: append([]string{}, g.Reg.Names[1:]...), LaterIfaces: nil}
				if phase == 0 {
					cc.LaterIfaces = later
				}
				nc := 1
				if j%4 == 3 {
					nc = 3
				}
				for x := 0; x < nc; x++ {
					tag++
					// method strings are drawn from ALL names of the set, registered yet or not
					cc.Conns = append(cc.Conns, c04Conn(rng, callNames, fmt.Sprintf("r%d", tag), nm))
				}
				r.Journal(0, cc)
				c01Round(r, g, "C04", cc, true)
				r.Done(0)
				for _, cs := range cc.Conns {
					b, _ := json.Marshal(cs.Calls)
					r.Case(fw.Hash(strings.Join(names, "|"), fmt.Sprint(phase), string(b)), true)
					for _, c := range cs.Calls {
						if c.Raw == "" {
							r.Distinct("method_strings", c.Method)
						}
					}
				}
				if j == 0 && k%10 == 0 {
					r.Sample(map[string]interface{}{"registered": g.Reg.Names, "registered_later": cc.LaterIfaces, "connection": cc.Conns[0]})
				}
			}
		}
		r.Distinct("registered_name_sets", strings.Join(names, "|"))
		if _, ok := g.Stop(); !ok {
			r.Violation("C04 no-return-after-shutdown", "serving call did not return within 30 s after Shutdown", names)
		}
	}
}

// c04ManyAtOnce: twelve distinct names registered from twelve goroutines at the same instant on a service that is not
// serving yet; then each of them is called: listed once (checked by the rig), routed to its own dispatcher.
func c04ManyAtOnce(r *fw.Run, k int) {
	var names []string
	for i := 0; i < 12; i++ {
		names = append(names, fmt.Sprintf("org.example.r%d.n%d", k, i))
	}
	g, err := newRig(r, RigOpt{Transport: "unix", Ifaces: names, UseListen: k%2 == 0, ConcurrentReg: true})
	if err != nil {
		rigFailure(r, "C04", err, names)
		return
	}
	cc := &c01Case{Transport: "unix", UseListen: k%2 == 0, Ifaces: append([]string{}, g.Reg.Names[1:]...)}
	cs := &ConnScript{}
	for i, n := range names {
		cs.Calls = append(cs.Calls, GenCall{Method: n + ".M", Script: &CallScript{ID: fmt.Sprintf("many%d.%d", k, i), Steps: []Step{{Op: "reply"}}}})
	}
	cc.Conns = append(cc.Conns, cs)
	r.Journal(0, cc)
	c01Round(r, g, "C04", cc, true)
	r.Done(0)
	r.Count("sets_registered_at_the_same_instant", 1)
	r.Case(fw.Hash("many-at-once", fmt.Sprint(k)), true)
	if _, ok := g.Stop(); !ok {
		r.Violation("C04 no-return-after-shutdown", "serving call did not return within 30 s after Shutdown", names)
	}
}

func replayC04(r *fw.Run, raw json.RawMessage) { replayRound(r, raw, "C04") }

func init() {
	fw.Register(&fw.Engine{
		ID: "C04", Level: "exploration",
		Rule: "a case = (set of 1..6 registered interface names drawn to be adversarial to each other: a.b / a.b.c / a.b.c.d / a.bc / A.b / a. / .a / a..b / near-misses of org.varlink.service / unicode / empty name; one connection of 10 (quick) or 20 (thorough) method strings: every registered name with .M, without method, with trailing/leading/doubled dots, with prefixes, suffixes, halves, slashes before and after the last dot, case changes, one char more or less, unicode, NUL, 6000- and 20000-character names, org.varlink.service methods and near-misses; scripted / more / unscripted parameters), always followed by a GetInfo on the same connection (the connection must still be usable) and in a third of the cases by a frame that is not an object with a string method, followed by one more call that must never be dispatched. Oracle: the routing model written from the statement (split at the last '.', index <= 0 => InvalidParameter(method), org.varlink.service built in, exact table lookup, InterfaceNotFound otherwise): exactly the predicted reply per call, exactly the predicted dispatcher invocations (interface, method name, once), none for any other peer. distinct by hash of names+calls. Also: every third name set is registered in two steps on the same object (the later names are first called while unknown, then registered during a pause in serving, then called again); a third of the calls carry flag combinations; method strings with outer white space; frames without a method member right after a dispatched call; a registration attempt made while serving (refused) for names that are then called: InterfaceNotFound, no dispatch; handlers that answer with a standard error carrying the same strings the routing errors carry; every fourth name set is registered from goroutines released at the same instant (each name must then be listed once and routed).",
		Assumptions: []string{"interface names are compared as exact byte strings"},
		Run:         runC04, Replay: replayC04, CrashIsViolation: true, MinEvals: 100,
		QuickTimeout: 10 * time.Minute, ThoroughTimeout: 40 * time.Minute,
	})
}
