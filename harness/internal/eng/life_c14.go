package eng

// C14 - Shutdown always ends serving; connections drain; the service is reusable (engine e-life).
// (A) deterministic histories on a controlled listener, (B) real-socket epochs checked with porcupine.

import (
	"bytes"
	"context"
	"encoding/json"
	"fmt"
	"math/rand"
	"net"
	"path/filepath"
	"runtime"
	"strings"
	"sync"
	"sync/atomic"
	"time"

	"github.com/anishathalye/porcupine"
	"github.com/varlink/go/varlink"

	"verif/harness/internal/fw"
)

type c14Hist struct {
	Steps      []string `json:"steps"`
	Timeout    bool     `json:"timeout"`    // serve with a (never injected) idle timeout so that SetDeadline is a step
	Socketpair bool     `json:"socketpair"` // unix socketpair instead of net.Pipe
	Late       bool     `json:"late"`       // offer one more connection after Shutdown has returned
}

const lifeBound = 10 * time.Second

type lifeRun struct {
	r      *fw.Run
	h      *c14Hist
	svc    *varlink.Service
	L      *CtlListener
	ctx    context.Context
	cancel context.CancelFunc
	done   chan error
	conns  []*CtlConn
	open   []*CtlConn
	nextID int
	viol   []string // class\x00detail
	// noDeadline: the service under test was started without an idle timeout (its loop never calls SetDeadline)
	noDeadline bool
}

func (lr *lifeRun) fail(class, format string, a ...interface{}) {
	lr.viol = append(lr.viol, class+"\x00"+fmt.Sprintf(format, a...))
}

func (lr *lifeRun) connect(expectServed bool) *CtlConn {
	lr.nextID++
	c, err := lr.L.NewConn(lr.nextID, lr.h.Socketpair)
	if err != nil {
		return nil
	}
	lr.conns = append(lr.conns, c)
	ok := lr.L.waitUntil(lifeBound, func() bool { return c.accepted || lr.L.closed })
	if !ok {
		lr.fail("accept-not-reached", "a queued connection was not accepted within %v although the listener is open (loop parked: %v)", lifeBound, lr.L.State().parked)
		return nil
	}
	if !c.Accepted() {
		return nil
	}
	return c
}

func (lr *lifeRun) waitClosed(c *CtlConn, why string) bool {
	deadline := time.Now().Add(lifeBound)
	for !c.Closed() {
		if time.Now().After(deadline) {
			lr.fail("connection-not-released", "connection %d: %s, but the service did not close its end within %v", c.id, why, lifeBound)
			return false
		}
		time.Sleep(30 * time.Microsecond)
	}
	return true
}

func (lr *lifeRun) dropOpen(c *CtlConn) {
	for i, o := range lr.open {
		if o == c {
			lr.open = append(lr.open[:i], lr.open[i+1:]...)
			return
		}
	}
}

func (lr *lifeRun) shutdown() {
	lr.L.Rec("shutdown-call", "")
	lr.svc.Shutdown()
	lr.L.Rec("shutdown-return", "")
}

func (lr *lifeRun) step(s string, cancelled *bool) {
	last := func() *CtlConn {
		if len(lr.open) == 0 {
			return nil
		}
		return lr.open[len(lr.open)-1]
	}
	lastClean := func() *CtlConn {
		for i := len(lr.open) - 1; i >= 0; i-- {
			if !lr.open[i].dirty {
				return lr.open[i]
			}
		}
		return nil
	}
	_ = last
	switch s {
	case "connect":
		c := lr.connect(true)
		if c == nil {
			return
		}
		if *cancelled {
			lr.waitClosed(c, "accepted under a cancelled serving context")
			c.client.Close()
			return
		}
		lr.open = append(lr.open, c)
	case "call":
		if c := lastClean(); c != nil {
			if err := roundTrip(c.client, lifeBound); err != nil {
				lr.fail("accepted-connection-not-served", "connection %d was accepted and is open, a GetInfo call on it failed: %v", c.id, err)
			}
		}
	case "callp":
		// a complete call and the start of the next frame in ONE segment; the call is answered, the connection stays
		// open with a frame that is never completed
		if c := lastClean(); c != nil {
			c.dirty = true
			c.client.SetDeadline(time.Now().Add(lifeBound))
			_, werr := c.client.Write([]byte("{\"method\":\"org.varlink.service.GetInfo\"}\x00{\"method\":\"org.varlink.serv"))
			buf := make([]byte, 0, 256)
			tmp := make([]byte, 256)
			got := false
			for werr == nil && !got {
				n, err := c.client.Read(tmp)
				buf = append(buf, tmp[:n]...)
				got = bytes.IndexByte(buf, 0) >= 0
				if err != nil {
					break
				}
			}
			c.client.SetDeadline(time.Time{})
			if !got {
				lr.fail("accepted-connection-not-served", "connection %d: a GetInfo call followed in the same segment by the start of another frame was not answered (%v, got %q)", c.id, werr, clip(string(buf), 80))
			}
			lr.r.Count("calls_with_partial_frame_behind", 1)
		}
	case "close":
		if c := last(); c != nil {
			c.client.Close()
			lr.waitClosed(c, "client closed it")
			lr.dropOpen(c)
		}
	case "abort":
		if c := last(); c != nil {
			c.client.SetWriteDeadline(time.Now().Add(lifeBound))
			c.client.Write([]byte(`{"method":"org.varlink.serv`))
			c.client.Close()
			lr.waitClosed(c, "client aborted mid-frame")
			lr.dropOpen(c)
		}
	case "fail":
		if c := last(); c != nil {
			c.client.SetDeadline(time.Now().Add(lifeBound))
			c.client.Write([]byte(`{"method":"org.example.script.F","parameters":{"id":"f","fail":true}}` + "\x00"))
			buf := make([]byte, 64)
			for {
				if _, err := c.client.Read(buf); err != nil {
					break
				}
			}
			lr.waitClosed(c, "its handler returned an error")
			c.client.Close()
			lr.dropOpen(c)
		}
	case "ccsd":
		// a connection is accepted, and while the accept loop is on its way back into Accept - inside its next SetDeadline
		// call, before that deadline lands - the client closes and the service releases the connection
		lr.L.mu.Lock()
		ever := lr.L.everArmed
		lr.L.mu.Unlock()
		if lr.noDeadline || !ever {
			// no SetDeadline call to ride on (this loop has never armed a deadline): the connection simply comes and goes
			if c := lr.connect(true); c != nil && !*cancelled {
				c.client.Close()
				lr.waitClosed(c, "client closed it")
			}
			return
		}
		ch := make(chan *CtlConn, 1)
		fired := make(chan struct{})
		lr.L.mu.Lock()
		lr.L.hookSetDeadlineBefore = func() {
			defer close(fired)
			select {
			case c := <-ch:
				before := lr.svc.VerifActive() // the loop has counted this connection already
				c.client.Close()
				dl := time.Now().Add(lifeBound)
				for !c.Closed() && time.Now().Before(dl) {
					time.Sleep(30 * time.Microsecond)
				}
				for before > 0 && lr.svc.VerifActive() >= before && time.Now().Before(dl) {
					time.Sleep(30 * time.Microsecond)
				}
				time.Sleep(200 * time.Microsecond)
			case <-time.After(lifeBound):
			}
		}
		lr.L.mu.Unlock()
		lr.nextID++
		c, err := lr.L.NewConn(lr.nextID, lr.h.Socketpair)
		if err != nil {
			return
		}
		lr.conns = append(lr.conns, c)
		ch <- c
		select {
		case <-fired:
			lr.r.Count("connections_closed_inside_set_deadline", 1)
		case <-time.After(lifeBound):
			// a loop that does not call SetDeadline after an accept (no timeout requested): the connection is simply closed
			lr.L.mu.Lock()
			lr.L.hookSetDeadlineBefore = nil
			lr.L.mu.Unlock()
		}
		if !*cancelled {
			c.client.Close()
			lr.waitClosed(c, "client closed it")
		}
	case "junk":
		// a frame that is not a call: the service ends the connection without a reply
		if c := last(); c != nil {
			c.client.SetDeadline(time.Now().Add(lifeBound))
			c.client.Write([]byte("nul\x00"))
			buf := make([]byte, 64)
			for {
				if _, err := c.client.Read(buf); err != nil {
					break
				}
			}
			lr.waitClosed(c, "it sent a frame that is not a call")
			c.client.Close()
			lr.dropOpen(c)
		}
	case "cancel":
		lr.cancel()
		*cancelled = true
		for _, c := range append([]*CtlConn{}, lr.open...) {
			lr.waitClosed(c, "the serving context was cancelled")
			c.client.Close()
			lr.dropOpen(c)
		}
	case "bind2":
		p := filepath.Join(lr.r.WorkDir, fmt.Sprintf("b2-%d", lr.r.Seq()))
		err := lr.svc.Bind(context.Background(), "unix:"+p)
		if err == nil {
			lr.fail("second-bind-accepted", "Bind during serving returned nil")
		}
		lr.unaffected(cancelled)
	case "listen2":
		p := filepath.Join(lr.r.WorkDir, fmt.Sprintf("l2-%d", lr.r.Seq()))
		ch := make(chan error, 1)
		go func() { ch <- lr.svc.Listen(context.Background(), "unix:"+p, 0) }()
		select {
		case err := <-ch:
			if err == nil {
				lr.fail("second-listen-accepted", "Listen during serving returned nil")
			}
		case <-time.After(lifeBound):
			lr.fail("second-listen-accepted", "Listen during serving did not return an error within %v (it is serving)", lifeBound)
		}
		lr.unaffected(cancelled)
	}
}

// unaffected: after a refused second bind/listen the first serving call still answers.
func (lr *lifeRun) unaffected(cancelled *bool) {
	if *cancelled {
		return
	}
	c := lr.connect(true)
	if c == nil {
		if len(lr.viol) == 0 {
			lr.fail("first-serving-disturbed", "after a refused second bind/listen the serving call no longer accepts connections")
		}
		return
	}
	if err := roundTrip(c.client, lifeBound); err != nil {
		lr.fail("first-serving-disturbed", "after a refused second bind/listen a call on a new connection failed: %v", err)
	}
	c.client.Close()
	lr.waitClosed(c, "client closed it")
}

func runC14Hist(r *fw.Run, h *c14Hist) []string {
	lr := &lifeRun{r: r, h: h}
	svc, err := varlink.NewService("Verif", "Life", "1", "u")
	if err != nil {
		return []string{"new-service\x00" + err.Error()}
	}
	lr.svc = svc
	log := newEvLog(r)
	L := newCtlListener(r)
	lr.L = L
	svc.RegisterInterface(&ScriptDisp{Name: "org.example.script", Desc: defaultDesc("org.example.script"), Log: log, Hook: func(name string) {
		if name == "shutdown" {
			lr.shutdown()
		}
	}})
	svc.VerifSetListener(L)
	lr.ctx, lr.cancel = context.WithCancel(context.Background())
	defer lr.cancel()
	to := time.Duration(0)
	if h.Timeout {
		to = time.Hour
	}
	lr.done = make(chan error, 1)
	go func() {
		err := svc.DoListen(lr.ctx, to)
		L.Rec("serve-return", fmt.Sprint(err))
		lr.done <- err
	}()
	if !L.WaitParked(lifeBound) {
		r.Inconclusive("accept loop did not reach Accept")
		L.Close()
		return nil
	}
	cancelled := false
	final := ""
	for _, s := range h.Steps {
		if strings.HasPrefix(s, "sd-") {
			final = s
			break
		}
		lr.step(s, &cancelled)
		if len(lr.viol) > 0 {
			break
		}
	}
	if len(lr.viol) > 0 {
		L.Close()
		svc.Shutdown()
		return lr.viol
	}
	fired := make(chan struct{})
	var once sync.Once
	hook := func() { lr.shutdown(); once.Do(func() { close(fired) }) }
	placed := final
	switch final {
	case "sd-before-accept":
		L.mu.Lock()
		L.hookSetDeadline = hook
		L.mu.Unlock()
	case "sd-accept-return":
		L.mu.Lock()
		L.hookBeforeConn = hook
		L.mu.Unlock()
	}
	switch final {
	case "sd-parked":
		L.WaitParked(lifeBound)
		lr.shutdown()
	case "sd-before-accept", "sd-accept-return":
		lr.nextID++
		c, _ := L.NewConn(lr.nextID, h.Socketpair)
		lr.conns = append(lr.conns, c)
		select {
		case <-fired:
		case <-time.After(lifeBound):
			lr.fail("accept-not-reached", "the accept loop did not take its next step (%s) within %v", final, lifeBound)
			L.Close()
			svc.Shutdown()
			return lr.viol
		}
		// (the step may have been taken by the iteration that was still finishing the previous connection: then the
		// listener is already closed and this connection will never be accepted)
		L.waitUntil(lifeBound, func() bool { return c.accepted || L.closedReturns > 0 })
		if c.Accepted() {
			if cancelled {
				lr.waitClosed(c, "accepted under a cancelled serving context")
				c.client.Close()
			} else {
				lr.open = append(lr.open, c)
				// a connection accepted before Shutdown returned is served until it ends
				if err := roundTrip(c.client, lifeBound); err != nil {
					lr.fail("accepted-connection-not-served", "connection %d was accepted around Shutdown (%s) but a call on it failed: %v", c.id, final, err)
				}
			}
		}
	case "sd-in-handler":
		// Shutdown is called by a handler while it is answering a call on an open connection
		var c *CtlConn
		for i := len(lr.open) - 1; i >= 0 && !cancelled; i-- {
			if !lr.open[i].dirty {
				c = lr.open[i]
				break
			}
		}
		if c == nil && !cancelled {
			if c = lr.connect(true); c != nil {
				lr.open = append(lr.open, c)
			}
		}
		if c == nil {
			L.WaitParked(lifeBound)
			lr.shutdown()
			break
		}
		c.client.SetDeadline(time.Now().Add(lifeBound))
		c.client.Write([]byte(`{"method":"org.example.script.Stop","parameters":{"id":"stop","steps":[{"op":"hook","name":"shutdown"},{"op":"reply"}]}}` + "\x00"))
		buf := make([]byte, 0, 256)
		tmp := make([]byte, 256)
		gotReply := false
		for !gotReply {
			n, err := c.client.Read(tmp)
			buf = append(buf, tmp[:n]...)
			for _, b := range tmp[:n] {
				if b == 0 {
					gotReply = true
				}
			}
			if err != nil {
				break
			}
		}
		c.client.SetDeadline(time.Time{})
		if !gotReply {
			lr.fail("shutdown-from-handler", "a handler called Shutdown and then replied; the reply did not arrive within %v (got %q)", lifeBound, clip(string(buf), 100))
		}
	case "sd-async":
		var wg sync.WaitGroup
		wg.Add(1)
		go func() { defer wg.Done(); lr.shutdown() }()
		lr.nextID++
		c, _ := L.NewConn(lr.nextID, h.Socketpair)
		lr.conns = append(lr.conns, c)
		wg.Wait()
		// either it was accepted (then it must be released) or it never will be
		time.Sleep(200 * time.Microsecond)
		L.waitUntil(2*time.Millisecond, func() bool { return c.accepted })
		if c.Accepted() && !cancelled {
			lr.open = append(lr.open, c)
		} else if c.Accepted() {
			lr.waitClosed(c, "accepted under a cancelled serving context")
		}
	}
	_ = placed
	// listener must have been closed by the time Shutdown returned
	if st := L.State(); st.closeCalls == 0 {
		lr.fail("shutdown-did-not-close-listener", "Shutdown returned but Close was never called on the installed listener (loop parked in Accept: %v)", st.parked)
	}
	if h.Late {
		lr.nextID++
		lc, _ := L.NewConn(lr.nextID, h.Socketpair)
		lr.conns = append(lr.conns, lc)
		L.waitUntil(3*time.Millisecond, func() bool { return lc.accepted })
		if lc.Accepted() {
			if err := roundTrip(lc.client, 2*time.Second); err == nil {
				lr.fail("served-after-shutdown", "a connection that arrived after Shutdown had returned was accepted and served")
			}
			lc.client.Close()
		}
	}
	// drain: with connections still open the serving call must not return
	if len(lr.open) > 0 {
		select {
		case err := <-lr.done:
			lr.done <- err
			stillOpen := 0
			for _, c := range lr.open {
				if !c.Closed() {
					stillOpen++
				}
			}
			if stillOpen > 0 {
				lr.fail("returned-before-drain", "the serving call returned (%v) while %d accepted connections were still open", err, stillOpen)
			}
		case <-time.After(8 * time.Millisecond):
		}
	}
	for _, c := range append([]*CtlConn{}, lr.open...) {
		c.client.Close()
		lr.waitClosed(c, "client closed it after Shutdown")
		lr.dropOpen(c)
	}
	// terminal check
	select {
	case err := <-lr.done:
		if err != nil {
			lr.fail("serve-returned-error", "after Shutdown the serving call returned %v, expected nil", err)
		}
	case <-time.After(20 * time.Second):
		st := L.State()
		if st.parked && !st.closed {
			lr.fail("serve-never-returns", "Shutdown has returned and every accepted connection has ended, but the loop is parked in Accept and the listener was never closed: nothing can release it")
		} else {
			buf := make([]byte, 1<<16)
			n := runtime.Stack(buf, true)
			lr.fail("serve-never-returns", "the serving call did not return within 20 s after Shutdown and the end of all connections (listener closed=%v parked=%v active=%d)\n%s", st.closed, st.parked, svc.VerifActive(), clip(string(buf[:n]), 3000))
		}
		L.Close()
		return lr.viol
	}
	// accounting
	evs := L.Events()
	var serveRet, maxClose int64
	for _, e := range evs {
		switch e.Kind {
		case "serve-return":
			serveRet = e.Seq
		case "conn-close":
			if e.Seq > maxClose {
				maxClose = e.Seq
			}
		}
	}
	for _, c := range lr.conns {
		if c.Accepted() && !c.Closed() {
			lr.fail("connection-not-released", "connection %d was accepted but never closed by the service although serving has ended", c.id)
		}
	}
	if maxClose > serveRet && serveRet > 0 {
		lr.fail("returned-before-drain", "the serving call returned (seq %d) before an accepted connection was released (seq %d)", serveRet, maxClose)
	}
	if a := svc.VerifActive(); a > 0 {
		lr.fail("active-count", "after serving ended the active-connection count is %d, expected 0", a)
	}
	if len(lr.viol) > 0 {
		return lr.viol
	}
	// the same object can be bound and served again
	p := filepath.Join(r.WorkDir, fmt.Sprintf("rb-%d", r.Seq()))
	ctx2, cancel2 := context.WithCancel(context.Background())
	defer cancel2()
	if err := svc.Bind(ctx2, "unix:"+p); err != nil {
		lr.fail("rebind-failed", "Bind after serving ended returned %v", err)
		return lr.viol
	}
	done2 := make(chan error, 1)
	go func() { done2 <- svc.DoListen(ctx2, 0) }()
	var rerr error
	for try := 0; try < 2000; try++ {
		var c net.Conn
		c, rerr = net.DialTimeout("unix", p, 2*time.Second)
		if rerr == nil {
			rerr = roundTrip(c, lifeBound)
			c.Close()
			if rerr == nil {
				break
			}
		}
		time.Sleep(200 * time.Microsecond)
	}
	if rerr != nil {
		lr.fail("reserve-failed", "after re-binding the same service object it does not answer: %v", rerr)
	}
	svc.Shutdown()
	select {
	case err := <-done2:
		if err != nil {
			lr.fail("serve-returned-error", "second serving call returned %v after Shutdown", err)
		}
	case <-time.After(20 * time.Second):
		lr.fail("serve-never-returns", "the second serving call of the same object did not return within 20 s after Shutdown")
		return lr.viol
	}
	if len(lr.viol) > 0 || len(h.Steps)%3 != 0 {
		return lr.viol
	}
	// a third period, this time through Listen (which binds itself), on the same object
	p3 := filepath.Join(r.WorkDir, fmt.Sprintf("rb3-%d", r.Seq()))
	ctx3, cancel3 := context.WithCancel(context.Background())
	defer cancel3()
	done3 := make(chan error, 1)
	go func() { done3 <- svc.Listen(ctx3, "unix:"+p3, 0) }()
	rerr = fmt.Errorf("not reached")
	for try := 0; try < 4000 && rerr != nil; try++ {
		select {
		case e := <-done3:
			done3 <- e
			try = 4000
			rerr = fmt.Errorf("Listen returned %v", e)
			continue
		default:
		}
		if c, err := net.DialTimeout("unix", p3, 2*time.Second); err == nil {
			rerr = roundTrip(c, lifeBound)
			c.Close()
		} else {
			rerr = err
		}
		if rerr != nil {
			time.Sleep(200 * time.Microsecond)
		}
	}
	if rerr != nil {
		lr.fail("reserve-failed", "third serving period of the same object (Listen after DoListen twice) does not answer: %v", rerr)
	}
	svc.Shutdown()
	select {
	case err := <-done3:
		if err != nil && rerr == nil {
			lr.fail("serve-returned-error", "third serving call returned %v after Shutdown", err)
		}
	case <-time.After(20 * time.Second):
		lr.fail("serve-never-returns", "the third serving call of the same object did not return within 20 s after Shutdown")
	}
	return lr.viol
}

// c14BeforeServe: Shutdown is issued on a bound service before the serving call has started (race=false),
// or concurrently with its start (race=true). The serving call must return without serving anyone.
func c14BeforeServe(r *fw.Run, timeout, race bool, skipServe ...bool) []string {
	skip := len(skipServe) > 0 && skipServe[0] && !race // the first listener is never served: Shutdown, then bound again at once
	var viol []string
	fail := func(class, format string, a ...interface{}) { viol = append(viol, class+"\x00"+fmt.Sprintf(format, a...)) }
	svc, err := varlink.NewService("Verif", "Life", "1", "u")
	if err != nil {
		return nil
	}
	L := newCtlListener(r)
	svc.VerifSetListener(L)
	ctx, cancel := context.WithCancel(context.Background())
	defer cancel()
	to := time.Duration(0)
	if timeout {
		to = time.Hour
	}
	done := make(chan error, 1)
	serve := func() {
		err := svc.DoListen(ctx, to)
		L.Rec("serve-return", fmt.Sprint(err))
		done <- err
	}
	if race {
		go serve()
		L.Rec("shutdown-call", "")
		svc.Shutdown()
		L.Rec("shutdown-return", "")
	} else {
		L.Rec("shutdown-call", "")
		svc.Shutdown()
		L.Rec("shutdown-return", "")
		if skip {
			done <- nil
		} else {
			go serve()
		}
	}
	if st := L.State(); st.closeCalls == 0 {
		fail("shutdown-did-not-close-listener", "Shutdown on a bound service that is not serving yet returned without closing the listener")
	}
	// a connection arriving now must never be served
	c, _ := L.NewConn(1, false)
	if !skip {
		L.waitUntil(3*time.Millisecond, func() bool { return c.accepted })
	}
	if c.Accepted() {
		if err := roundTrip(c.client, 2*time.Second); err == nil {
			fail("served-after-shutdown", "Shutdown was issued before the serving call started; a connection arriving afterwards was accepted and served")
		}
	}
	c.client.Close()
	select {
	case <-done:
	case <-time.After(20 * time.Second):
		st := L.State()
		fail("serve-never-returns", "Shutdown was issued on the bound service before (or while) the serving call started; the serving call is still running 20 s later (listener closed=%v, loop parked in Accept=%v)", st.closed, st.parked)
		L.Close()
		return viol
	}
	// The same object, bound and served again (seeded change C14-O: state left by the Shutdown that came before serving
	// is only cleared at the end of a serving call that got as far as its teardown).
	L2 := newCtlListener(r)
	svc.VerifSetListener(L2)
	done2 := make(chan error, 1)
	go func() { done2 <- svc.DoListen(context.Background(), to) }()
	if !L2.WaitParked(lifeBound) {
		select {
		case e := <-done2:
			fail("cannot-serve-again", "after a Shutdown that came before its serving call, and that call's return, the object was given a new listener; DoListen returned %v at once", e)
		default:
			fail("accept-not-reached", "second period after a Shutdown that came before the first serving call: the accept loop does not reach Accept")
			svc.Shutdown()
			L2.Close()
		}
		return viol
	}
	lr := &lifeRun{r: r, h: &c14Hist{}, svc: svc, L: L2}
	if c2 := lr.connect(true); c2 != nil {
		if err := roundTrip(c2.client, lifeBound); err != nil {
			fail("accepted-connection-not-served", "second period after a Shutdown that came before the first serving call: %v", err)
		}
		c2.client.Close()
		lr.waitClosed(c2, "client closed it")
	}
	viol = append(viol, lr.viol...)
	svc.Shutdown()
	if st := L2.State(); st.closeCalls == 0 {
		fail("shutdown-did-not-close-listener", "second period of an object whose first Shutdown came before serving: Shutdown returned without closing the period's listener")
	}
	select {
	case e := <-done2:
		if e != nil {
			fail("shutdown-returned-error", "second period returned %v after Shutdown found the loop waiting in Accept", e)
		}
	case <-time.After(20 * time.Second):
		st := L2.State()
		fail("serve-never-returns", "second period of an object whose first Shutdown came before serving: the serving call is still running 20 s after Shutdown (listener closed=%v, loop parked in Accept=%v)", st.closed, st.parked)
		L2.Close()
	}
	return viol
}

// ---- history enumeration -------------------------------------------------------------------------

var c14Prefix = []string{"connect", "call", "callp", "close", "abort", "fail", "cancel", "bind2", "listen2"}
var c14Finals = []string{"sd-parked", "sd-before-accept", "sd-accept-return", "sd-async", "sd-in-handler"}

func c14Valid(steps []string) bool {
	open, total, cancelled, b2, l2, cp := 0, 0, false, 0, 0, 0
	for _, s := range steps {
		switch s {
		case "connect":
			total++
			if total > 3 {
				return false
			}
			if !cancelled {
				open++
			}
		case "call":
			if open == 0 || cancelled {
				return false
			}
		case "callp":
			cp++
			if open == 0 || cancelled || cp > 1 {
				return false
			}
		case "close", "abort", "fail":
			if open == 0 || cancelled {
				return false
			}
			open--
		case "cancel":
			if cancelled {
				return false
			}
			cancelled = true
			open = 0
		case "bind2":
			b2++
			if b2 > 1 {
				return false
			}
		case "listen2":
			l2++
			if l2 > 1 {
				return false
			}
		}
	}
	return true
}

func c14Enumerate(maxLen int) [][]string {
	var out [][]string
	var rec func(cur []string)
	rec = func(cur []string) {
		out = append(out, append([]string{}, cur...))
		if len(cur) == maxLen {
			return
		}
		for _, s := range c14Prefix {
			next := append(cur, s)
			if c14Valid(next) {
				rec(next)
			}
		}
	}
	rec(nil)
	return out
}

func runC14(r *fw.Run) {
	prefixes := c14Enumerate(r.Pick(4, 7))
	var hists []*c14Hist
	for i, p := range prefixes {
		for fi, f := range c14Finals {
			h := &c14Hist{Steps: append(append([]string{}, p...), f), Timeout: f == "sd-before-accept" || (i+fi)%2 == 0, Socketpair: (i+fi)%3 == 0, Late: (i+fi)%2 == 1}
			hists = append(hists, h)
		}
	}
	r.Count("exhaustive_prefix_len", int64(r.Pick(4, 7)))
	// random longer histories
	rng := rand.New(rand.NewSource(r.Seed*37 + 14))
	for k := 0; k < r.Pick(300, 20000); k++ {
		var steps []string
		n := 4 + rng.Intn(7)
		for len(steps) < n {
			s := c14Prefix[rng.Intn(len(c14Prefix))]
			if c14Valid(append(steps, s)) {
				steps = append(steps, s)
			} else if rng.Intn(4) == 0 {
				break
			}
		}
		hists = append(hists, &c14Hist{Steps: append(steps, c14Finals[rng.Intn(len(c14Finals))]), Timeout: true, Socketpair: rng.Intn(2) == 0, Late: rng.Intn(2) == 0})
	}
	fw.Parallel(16, len(hists), func(w, i int) {
		h := hists[i]
		if r.ViolationCount() > 12 {
			return
		}
		r.Journal(w, h)
		var viol []string
		t0 := time.Now()
		if p := catch(func() { viol = runC14Hist(r, h) }); p != "" {
			viol = append(viol, "panic\x00"+p)
		}
		if d := time.Since(t0); d > 3*time.Second {
			r.Note("slow history (%.1fs): %v timeout=%v socketpair=%v late=%v", d.Seconds(), h.Steps, h.Timeout, h.Socketpair, h.Late)
		}
		r.Done(w)
		for _, v := range viol {
			parts := strings.SplitN(v, "\x00", 2)
			r.Violation("C14 "+parts[0], fmt.Sprintf("history %v (timeout=%v socketpair=%v late=%v): %s", h.Steps, h.Timeout, h.Socketpair, h.Late, parts[1]), h)
		}
		b, _ := json.Marshal(h)
		r.Case(fw.HashBytes(b), len(h.Steps) > 1)
		r.Count("histories", 1)
		r.Distinct("shutdown_placements", h.Steps[len(h.Steps)-1])
		for _, s := range h.Steps {
			if s == "connect" {
				r.Count("connections_offered", 1)
			}
		}
		if i%400 == 0 {
			r.Sample(h)
		}
	})
	tA := time.Now()
	// Shutdown before / while the serving call starts
	for k := 0; k < r.Pick(60, 600); k++ {
		race := k%3 != 0
		for _, v := range c14BeforeServe(r, k%2 == 0, race, k%6 == 3) {
			parts := strings.SplitN(v, "\x00", 2)
			r.Violation("C14 "+parts[0], fmt.Sprintf("bound service, Shutdown before the serving call (racing=%v): %s", race, parts[1]), &c14Hist{Steps: []string{"sd-before-serve"}, Timeout: k%2 == 0, Late: race})
		}
		r.Case(fw.Hash("before-serve", fmt.Sprint(k%2 == 0, race, k%6 == 3)), true)
		r.Count("shutdown_before_serve_runs", 1)
		r.Distinct("shutdown_placements", map[bool]string{false: "sd-before-serve", true: "sd-racing-serve-start"}[race])
		if r.ViolationCount() > 12 {
			break
		}
	}
	for k := 0; k < r.Pick(12, 200) && r.ViolationCount() <= 12; k++ {
		r.Journal(0, map[string]interface{}{"what": "re-bind and re-serve while the previous Shutdown is still returning", "k": k})
		c14RebindDuringShutdown(r, k)
		r.Done(0)
	}
	r.Note("timing: before-serve part %.1fs", time.Since(tA).Seconds())
	// (B) real sockets
	for ci, cf := range []struct {
		tr     string
		listen bool
	}{{"unix", true}, {"unix", false}, {"tcp", true}, {"tcp", false}} {
		tB := time.Now()
		if !r.Thorough && ci >= 2 {
			epochs := 6
			c14Real(r, cf.tr, cf.listen, epochs, 3, r.Seed+int64(ci))
		} else {
			c14Real(r, cf.tr, cf.listen, r.Pick(15, 250), 4, r.Seed+int64(ci))
		}
		r.Note("timing: real sockets %s listen=%v %.1fs", cf.tr, cf.listen, time.Since(tB).Seconds())
		for k := 0; k < r.Pick(1, 6); k++ {
			r.Journal(0, map[string]interface{}{"what": "two service objects in one process", "address": cf.tr})
			c14TwoServices(r, cf.tr)
			r.Done(0)
			r.Journal(0, map[string]interface{}{"what": "contexts of earlier periods end during a later period", "transport": cf.tr, "listen": cf.listen})
			c14StaleContext(r, cf.tr, cf.listen, false)
			c14StaleContext(r, cf.tr, cf.listen, true)
			r.Done(0)
		}
	}
}

// c14RebindDuringShutdown: Shutdown is called on another goroutine and its listener's Close takes a while to return; the
// caller binds and serves the next period as soon as the first serving call has returned, i.e. possibly while that Shutdown
// is still on its way out. The new period must be unaffected by the old Shutdown: listener in place, clients served, ended
// only by its own Shutdown.
func c14RebindDuringShutdown(r *fw.Run, k int) {
	cse := map[string]interface{}{"what": "re-bind and re-serve while the previous Shutdown is still returning", "k": k}
	fail := func(class, format string, a ...interface{}) {
		r.Violation("C14 "+class, fmt.Sprintf("re-serve during a slow Shutdown: ")+fmt.Sprintf(format, a...), cse)
	}
	svc, err := varlink.NewService("Verif", "Rebind", "1", "u")
	if err != nil {
		return
	}
	L1 := newCtlListener(r)
	L1.closeLinger = time.Duration(20+10*(k%4)) * time.Millisecond
	svc.VerifSetListener(L1)
	done1 := make(chan error, 1)
	go func() { done1 <- svc.DoListen(context.Background(), 0) }()
	if !L1.WaitParked(lifeBound) {
		r.Inconclusive("rebind: accept loop did not reach Accept")
		L1.Close()
		return
	}
	sdDone := make(chan struct{})
	go func() { svc.Shutdown(); close(sdDone) }()
	select {
	case <-done1:
	case <-time.After(20 * time.Second):
		fail("serve-never-returns", "first period: serving call did not return within 20 s of Shutdown")
		return
	}
	// next period at once, on a fresh listener
	L2 := newCtlListener(r)
	svc.VerifSetListener(L2)
	done2 := make(chan error, 1)
	go func() { done2 <- svc.DoListen(context.Background(), 0) }()
	<-sdDone // the first Shutdown has returned by now at the latest
	time.Sleep(time.Millisecond)
	select {
	case e := <-done2:
		fail("period-ended-by-an-earlier-shutdown", "second period: the serving call returned %v although Shutdown was not called for it", e)
		return
	default:
	}
	if l, err := svc.GetListener(); err != nil || l != net.Listener(L2) {
		fail("period-ended-by-an-earlier-shutdown", "second period: GetListener returns (%v, %v), the period's listener was installed before serving began", l, err)
	}
	lr := &lifeRun{r: r, h: &c14Hist{}, svc: svc, L: L2}
	if L2.WaitParked(lifeBound) {
		if c := lr.connect(true); c != nil {
			if err := roundTrip(c.client, lifeBound); err != nil {
				fail("accepted-connection-not-served", "second period: %v", err)
			}
			c.client.Close()
			lr.waitClosed(c, "client closed it")
		}
	} else {
		fail("accept-not-reached", "second period: the accept loop is not waiting in Accept")
	}
	for _, v := range lr.viol {
		parts := strings.SplitN(v, "\x00", 2)
		fail(parts[0], "%s", parts[1])
	}
	svc.Shutdown()
	select {
	case e := <-done2:
		if e != nil {
			fail("shutdown-returned-error", "second period returned %v after its Shutdown", e)
		}
	case <-time.After(20 * time.Second):
		fail("serve-never-returns", "second period: serving call did not return within 20 s of its own Shutdown (listener closed: %v)", L2.State().closed)
		L2.Close()
	}
	r.Count("rebind_during_shutdown_runs", 1)
	r.Case(fw.Hash("rebind", fmt.Sprint(k%4)), true)
}

// c14TwoServices: two Service objects in one process, both given the address "tcp:127.0.0.1:0" (each gets a port of its own)
// or unix paths of their own. B serves and is shut down; A serves; B is bound and served again while A keeps serving: what one
// object does must not keep the other from being bound and served again, and each answers on its own endpoint.
func c14TwoServices(r *fw.Run, addrKind string) {
	cse := map[string]interface{}{"what": "two service objects in one process", "address": addrKind}
	fail := func(class, format string, a ...interface{}) {
		r.Violation("C14 "+class, fmt.Sprintf("two services (%s): ", addrKind)+fmt.Sprintf(format, a...), cse)
	}
	mk := func(name string) *varlink.Service {
		s, _ := varlink.NewService("Verif", name, "1", "u")
		return s
	}
	type run struct {
		svc  *varlink.Service
		done chan error
		netw string
		dial string
	}
	n := 0
	start := func(svc *varlink.Service, product string) *run {
		n++
		addr := "tcp:127.0.0.1:0"
		if addrKind == "unix" {
			addr = "unix:" + filepath.Join(r.WorkDir, fmt.Sprintf("two%d-%d", r.Seq(), n))
		}
		if err := svc.Bind(context.Background(), addr); err != nil {
			fail("cannot-bind-again", "%s: Bind(%q) returned %v", product, addr, err)
			return nil
		}
		l, _ := svc.GetListener()
		if l == nil {
			fail("cannot-bind-again", "%s: no listener after Bind(%q)", product, addr)
			return nil
		}
		x := &run{svc: svc, done: make(chan error, 1), netw: l.Addr().Network(), dial: l.Addr().String()}
		go func() { x.done <- svc.DoListen(context.Background(), 0) }()
		return x
	}
	call := func(x *run, product string) {
		var last error
		for try := 0; try < 400; try++ {
			if ok, wrong := c20Probe(x.netw, x.dial, product, 2*time.Second); ok {
				if wrong != "" {
					fail("accepted-connection-not-served", "%s: its endpoint %s answers with %q", product, x.dial, clip(wrong, 120))
				}
				return
			}
			last = fmt.Errorf("no reply")
			time.Sleep(500 * time.Microsecond)
		}
		fail("accepted-connection-not-served", "%s: no round trip on %s: %v", product, x.dial, last)
	}
	stop := func(x *run, product string) {
		x.svc.Shutdown()
		select {
		case e := <-x.done:
			if e != nil {
				fail("shutdown-returned-error", "%s: serving call returned %v after Shutdown", product, e)
			}
		case <-time.After(20 * time.Second):
			fail("serve-never-returns", "%s: serving call did not return within 20 s of Shutdown", product)
		}
	}
	A, B := mk("TwoA"), mk("TwoB")
	before := r.ViolationCount()
	b1 := start(B, "TwoB")
	if b1 == nil {
		return
	}
	call(b1, "TwoB")
	stop(b1, "TwoB")
	a1 := start(A, "TwoA")
	if a1 == nil {
		return
	}
	call(a1, "TwoA")
	b2 := start(B, "TwoB")
	if b2 != nil {
		call(b2, "TwoB")
		call(a1, "TwoA")
		stop(b2, "TwoB")
		call(a1, "TwoA")
	}
	stop(a1, "TwoA")
	if r.ViolationCount() == before {
		r.Count("two_service_runs", 1)
	}
	r.Case(fw.Hash("two-services", addrKind), true)
}

// c14StaleContext: every serve period gets a context of its own; the contexts of periods that are over are ended
// (cancel, or a deadline that passes) while a later period is serving. What an earlier period left behind must not end
// the later one: it keeps answering until its own Shutdown, then returns nil.
func c14StaleContext(r *fw.Run, transport string, useListen bool, byDeadline bool) {
	cse := map[string]interface{}{"what": "contexts of earlier periods end during a later period", "transport": transport, "listen": useListen, "by_deadline": byDeadline}
	fail := func(class, format string, a ...interface{}) {
		r.Violation("C14 "+class, fmt.Sprintf("%s listen=%v: ", transport, useListen)+fmt.Sprintf(format, a...), cse)
	}
	svc, err := varlink.NewService("Verif", "Periods", "1", "u")
	if err != nil {
		return
	}
	var cancels []context.CancelFunc
	var ctxs []context.Context
	defer func() {
		for _, c := range cancels {
			c()
		}
	}()
	for period := 1; period <= 3; period++ {
		network, dial := "unix", filepath.Join(r.WorkDir, fmt.Sprintf("sc%d", r.Seq()))
		addr := "unix:" + dial
		if transport == "tcp" {
			network, dial = "tcp", fmt.Sprintf("127.0.0.1:%d", freePort())
			addr = "tcp:" + dial
		}
		ctx, cancel := context.WithCancel(context.Background())
		if byDeadline {
			// passes while the NEXT period is serving, and well before that period's own (longer) deadline
			ctx, cancel = context.WithTimeout(context.Background(), time.Duration(period)*250*time.Millisecond)
		}
		cancels = append(cancels, cancel)
		ctxs = append(ctxs, ctx)
		started := time.Now()
		done := make(chan error, 1)
		if useListen {
			go func() { done <- svc.Listen(ctx, addr, 0) }()
		} else {
			if err := svc.Bind(ctx, addr); err != nil {
				fail("cannot-bind-again", "period %d: Bind(%s) returned %v", period, addr, err)
				return
			}
			go func() { done <- svc.DoListen(ctx, 0) }()
		}
		call := func() error {
			var last error
			for try := 0; try < 400; try++ {
				c, err := net.DialTimeout(network, dial, time.Second)
				if err == nil {
					err = roundTrip(c, 5*time.Second)
					c.Close()
					if err == nil {
						return nil
					}
				}
				last = err
				select {
				case e := <-done:
					done <- e
					return fmt.Errorf("the serving call has returned (%v); last client error: %v", e, last)
				default:
				}
				time.Sleep(500 * time.Microsecond)
			}
			return last
		}
		if byDeadline && time.Since(started) > 150*time.Millisecond {
			r.Inconclusive("stale-context: machine too slow to start period %d before its context deadline", period)
			svc.Shutdown()
			return
		}
		if err := call(); err != nil {
			if byDeadline && time.Since(started) > 200*time.Millisecond {
				r.Inconclusive("stale-context: period %d was not serving before its own context deadline: %v", period, err)
				svc.Shutdown()
				return
			}
			fail("accepted-connection-not-served", "period %d: no round trip: %v", period, err)
			svc.Shutdown()
			return
		}
		if period > 1 {
			// end the context of the previous period now, during this one
			if byDeadline {
				select {
				case <-ctxs[period-2].Done():
				case <-time.After(5 * time.Second):
				}
				time.Sleep(30 * time.Millisecond)
				if ctx.Err() != nil {
					r.Inconclusive("stale-context: machine too slow, period %d's own context has ended as well", period)
					svc.Shutdown()
					return
				}
			} else {
				cancels[period-2]()
				time.Sleep(30 * time.Millisecond)
			}
			select {
			case e := <-done:
				fail("period-ended-by-an-earlier-context", "period %d: the serving call returned %v although Shutdown was not called; the context of period %d had just ended", period, e, period-1)
				return
			default:
			}
			{
				if err := call(); err != nil {
					if ctx.Err() != nil {
						r.Inconclusive("stale-context: period %d's own context ended during the follow-up call", period)
						svc.Shutdown()
						return
					}
					fail("period-ended-by-an-earlier-context", "period %d: after the context of period %d was cancelled a new client is no longer served: %v", period, period-1, err)
					svc.Shutdown()
					return
				}
			}
		}
		svc.Shutdown()
		select {
		case e := <-done:
			if e != nil {
				fail("shutdown-returned-error", "period %d: serving call returned %v after Shutdown with no connection open", period, e)
				return
			}
		case <-time.After(20 * time.Second):
			fail("serve-never-returns", "period %d: serving call did not return within 20 s of Shutdown", period)
			return
		}
	}
	r.Count("stale_context_runs", 1)
	r.Case(fw.Hash("stale-context", transport, fmt.Sprint(useListen, byDeadline)), true)
}

// ---- (B) real-socket epochs, porcupine ---------------------------------------------------------------

type c14In struct {
	Op    string // bind | shutdown | rpc
	Epoch int
}

func c14Real(r *fw.Run, transport string, useListen bool, epochs, clients int, seed int64) {
	rng := rand.New(rand.NewSource(seed*41 + 7))
	svc, err := varlink.NewService("Verif", "Epochs", "1", "u")
	if err != nil {
		return
	}
	log := newEvLog(r)
	svc.RegisterInterface(&ScriptDisp{Name: "org.example.script", Desc: defaultDesc("org.example.script"), Log: log})
	var network, dial, addr string
	if transport == "tcp" {
		l, err := net.Listen("tcp", "127.0.0.1:0")
		if err != nil {
			r.Inconclusive("no tcp port: %v", err)
			return
		}
		dial = l.Addr().String()
		l.Close()
		network, addr = "tcp", "tcp:"+dial
	} else {
		dial = filepath.Join(r.WorkDir, fmt.Sprintf("ep-%d", r.Seq()))
		network, addr = "unix", "unix:"+dial
	}
	var mu sync.Mutex
	var ops []porcupine.Operation
	add := func(o porcupine.Operation) {
		mu.Lock()
		ops = append(ops, o)
		mu.Unlock()
	}
	var stop int32
	var wg sync.WaitGroup
	for cl := 0; cl < clients; cl++ {
		wg.Add(1)
		go func(cl int) {
			defer wg.Done()
			for atomic.LoadInt32(&stop) == 0 {
				t0 := r.Seq()
				ok := false
				c, err := net.DialTimeout(network, dial, 2*time.Second)
				if err == nil {
					ok = roundTrip(c, 5*time.Second) == nil
					c.Close()
				}
				t1 := r.Seq()
				if ok {
					add(porcupine.Operation{ClientId: cl + 1, Input: c14In{Op: "rpc"}, Call: t0, Output: true, Return: t1})
				} else {
					time.Sleep(50 * time.Microsecond)
				}
				r.Count("epoch_client_ops", 1)
			}
		}(cl)
	}
	viol := func(class, detail string) {
		r.Violation("C14 "+class, fmt.Sprintf("real sockets (%s, listen=%v): %s", transport, useListen, detail), map[string]interface{}{"transport": transport, "listen": useListen, "real": true})
	}
	for e := 0; e < epochs; e++ {
		ctx, cancel := context.WithCancel(context.Background())
		done := make(chan error, 1)
		t0 := r.Seq()
		if useListen {
			go func() { done <- svc.Listen(ctx, addr, 0) }()
		} else {
			var berr error
			for try := 0; try < 50; try++ {
				if berr = svc.Bind(ctx, addr); berr == nil {
					break
				}
				time.Sleep(2 * time.Millisecond)
			}
			if berr != nil {
				viol("rebind-failed", fmt.Sprintf("epoch %d: Bind(%s) returned %v", e, addr, berr))
				cancel()
				break
			}
			go func() { done <- svc.DoListen(ctx, 0) }()
		}
		// ready when a round trip by the controller succeeds
		ready := false
		dl := time.Now().Add(20 * time.Second)
		for time.Now().Before(dl) {
			select {
			case err := <-done:
				done <- err
				dl = time.Now()
				continue
			default:
			}
			c, err := net.DialTimeout(network, dial, 2*time.Second)
			if err == nil {
				err = roundTrip(c, 5*time.Second)
				c.Close()
				if err == nil {
					ready = true
					break
				}
			}
			time.Sleep(100 * time.Microsecond)
		}
		if !ready {
			select {
			case err := <-done:
				if transport == "tcp" && err != nil && strings.Contains(err.Error(), "address already in use") {
					r.Inconclusive("epoch %d: tcp port taken by another process: %v", e, err)
				} else {
					viol("reserve-failed", fmt.Sprintf("epoch %d: serving call returned %v before any round trip succeeded", e, err))
				}
			default:
				viol("reserve-failed", fmt.Sprintf("epoch %d: no round trip succeeded within 20 s", e))
				svc.Shutdown()
			}
			cancel()
			break
		}
		add(porcupine.Operation{ClientId: 0, Input: c14In{Op: "bind", Epoch: e}, Call: t0, Output: true, Return: r.Seq()})
		time.Sleep(time.Duration(rng.Intn(3000)) * time.Microsecond)
		// connections held by the controller across the shutdown: idle, mid-frame, and one that completed a call
		var held []net.Conn
		for k := 0; k < rng.Intn(4); k++ {
			c, err := net.DialTimeout(network, dial, 2*time.Second)
			if err != nil {
				continue
			}
			switch k % 3 {
			case 1:
				c.Write([]byte(`{"method":"org.varlink.service.Get`))
			case 2:
				roundTrip(c, 5*time.Second)
			}
			held = append(held, c)
		}
		if len(held) > 0 {
			// make sure they have been accepted: a later connection was served (FIFO accept queue)
			if c, err := net.DialTimeout(network, dial, 2*time.Second); err == nil {
				roundTrip(c, 5*time.Second)
				c.Close()
			}
		}
		s0 := r.Seq()
		svc.Shutdown()
		add(porcupine.Operation{ClientId: 0, Input: c14In{Op: "shutdown", Epoch: e}, Call: s0, Output: true, Return: r.Seq()})
		if len(held) > 0 {
			select {
			case err := <-done:
				done <- err
				if svc.VerifActive() > 0 {
					viol("returned-before-drain", fmt.Sprintf("epoch %d: serving call returned %v while %d connections were still active", e, err, svc.VerifActive()))
				}
			case <-time.After(5 * time.Millisecond):
			}
			for _, c := range held {
				c.Close()
			}
		}
		select {
		case err := <-done:
			if err != nil {
				viol("serve-returned-error", fmt.Sprintf("epoch %d: serving call returned %v after Shutdown", e, err))
			}
		case <-time.After(30 * time.Second):
			viol("serve-never-returns", fmt.Sprintf("epoch %d: serving call did not return within 30 s after Shutdown (active=%d)", e, svc.VerifActive()))
			cancel()
			atomic.StoreInt32(&stop, 1)
			wg.Wait()
			return
		}
		cancel()
		r.Count("epochs", 1)
		time.Sleep(time.Duration(rng.Intn(1500)) * time.Microsecond)
	}
	atomic.StoreInt32(&stop, 1)
	wg.Wait()
	model := porcupine.Model{
		Init: func() interface{} { return false },
		Step: func(st, in, out interface{}) (bool, interface{}) {
			switch in.(c14In).Op {
			case "bind":
				return true, true
			case "shutdown":
				return true, false
			}
			return st.(bool), st
		},
		DescribeOperation: func(in, out interface{}) string { return fmt.Sprintf("%+v", in) },
	}
	mu.Lock()
	hist := append([]porcupine.Operation{}, ops...)
	mu.Unlock()
	r.Count("porcupine_operations", int64(len(hist)))
	res, info := porcupine.CheckOperationsVerbose(model, hist, 90*time.Second)
	switch res {
	case porcupine.Ok:
		r.Count("porcupine_ok", 1)
	case porcupine.Unknown:
		r.Inconclusive("porcupine timed out on %d operations", len(hist))
	case porcupine.Illegal:
		// find a witness: an rpc that lies entirely between a shutdown's return and the next bind's call
		w := "porcupine: history is not linearizable against the bound/unbound model"
		var sd, bd []porcupine.Operation
		for _, o := range hist {
			switch o.Input.(c14In).Op {
			case "shutdown":
				sd = append(sd, o)
			case "bind":
				bd = append(bd, o)
			}
		}
		for _, o := range hist {
			if o.Input.(c14In).Op != "rpc" {
				continue
			}
			for _, s := range sd {
				next := int64(1) << 62
				for _, b := range bd {
					if b.Call > s.Return && b.Call < next {
						next = b.Call
					}
				}
				if o.Call > s.Return && o.Return < next {
					w = fmt.Sprintf("a client dialled and completed a GetInfo call entirely after Shutdown of epoch %d had returned and before the next bind began (call seq %d..%d, shutdown returned at %d, next bind at %d)", s.Input.(c14In).Epoch, o.Call, o.Return, s.Return, next)
				}
			}
		}
		_ = info
		viol("served-after-shutdown", w)
	}
	r.Case(fw.Hash("real", transport, fmt.Sprint(useListen, seed)), true)
}

func replayC14(r *fw.Run, raw json.RawMessage) {
	var h c14Hist
	if json.Unmarshal(raw, &h) != nil || len(h.Steps) == 0 {
		var m struct {
			Transport string `json:"transport"`
			Listen    bool   `json:"listen"`
		}
		if json.Unmarshal(raw, &m) == nil && m.Transport != "" {
			c14Real(r, m.Transport, m.Listen, 20, 4, r.Seed)
			r.Case(1, true)
			r.Case(2, true)
		}
		return
	}
	if len(h.Steps) == 1 && h.Steps[0] == "sd-before-serve" {
		for k := 0; k < 30; k++ {
			for _, v := range c14BeforeServe(r, h.Timeout, h.Late) {
				parts := strings.SplitN(v, "\x00", 2)
				r.Violation("C14 "+parts[0], parts[1], &h)
			}
		}
		r.Case(1, true)
		r.Case(2, true)
		return
	}
	for k := 0; k < 3; k++ {
		for _, v := range runC14Hist(r, &h) {
			parts := strings.SplitN(v, "\x00", 2)
			r.Violation("C14 "+parts[0], parts[1], &h)
		}
	}
	r.Case(1, true)
	r.Case(2, true)
}

func init() {
	fw.Register(&fw.Engine{
		ID: "C14", Level: "exploration",
		Rule: "(A) histories on a controlled net.Listener installed through the white-box accessor, DoListen running on it: every valid prefix over {connect, call, call followed in the same segment by the start of a frame that is never completed, close, abort mid-frame, handler fails, cancel serving context, second Bind, second Listen} up to length 4 (quick) / 7 (thorough), each ended by Shutdown at each of 4 placements - while Accept is parked, inside SetDeadline (before accept), inside Accept just before it returns a connection (between accept and handler start), from another goroutine racing a new connection - plus seeded random histories of length 4..10; connections are in-memory pipes or unix socketpairs. Oracle on event order only: every accepted connection is closed by the service exactly when its end is reached (client close, abort, handler error, context cancel) and counted out (active count 0 at the end); Close was called on the installed listener by the time Shutdown returned; a connection offered after Shutdown returned is never served; the serving call does not return while accepted connections are open, returns nil once they have ended (refuted logically when the loop is parked in Accept on a listener nobody closed), and the same object then binds, serves a call and shuts down again; second Bind/Listen during serving return an error and the first serving call still answers. (B) real unix/TCP sockets, Listen and Bind+DoListen: clients loop dial+GetInfo while a controller cycles serve -> Shutdown (with idle, mid-frame and used connections held across it) -> wait -> serve again on the same address; successful calls, binds and shutdowns are recorded with call/return stamps from one logical clock and checked with porcupine against the model 'ok only while bound'. non-trivial = history with >= 1 step before the shutdown; distinct by hash of the history. Further placements: Shutdown called by a handler while it answers a call; Shutdown before, and racing with, the start of the serving call (60 / 600 runs); every third history re-serves the object a third time through Listen. Three consecutive periods of one object, each with a context of its own; the context of the previous period is cancelled (or its deadline passes) while the next period serves: that period keeps answering until its own Shutdown. Two Service objects in one process given the same address string tcp:127.0.0.1:0 (or unix paths of their own): one is served, shut down and served again while the other keeps serving; each answers on its own endpoint. Re-bind and re-serve right after the serving call returned while the Shutdown that ended it (issued on another goroutine, listener Close lingering 20-50 ms) is still returning.",
		Assumptions: []string{"bounded progress: 10 s for a single step of the accept loop or the release of a connection, 20 s for the serving call to return", "the 8 ms drain grace and the 3 ms late-connection window are one-sided (a violation observed inside them is real; none observed proves nothing beyond them)"},
		Run:         runC14, Replay: replayC14, CrashIsViolation: true, MinEvals: 100,
		QuickTimeout: 15 * time.Minute, ThoroughTimeout: 60 * time.Minute,
	})
}
