// Package rt is the runtime that is copied into every batch module built by the e-gen engine
// (C07, C08). It drives generated client stubs and generated service dispatchers through
// reflection and judges what it observes against abstract values of the declared IDL types.
// It knows nothing about the generator's source: it sees the IDL tree (as JSON), the wire, the
// Go values handed to the implementation and the Go values returned by the client stubs.
package rt

import (
	"bytes"
	"context"
	"encoding/json"
	"fmt"
	"math"
	"math/rand"
	"net"
	"os"
	"reflect"
	"sort"
	"strings"
	"sync"
	"time"

	"github.com/varlink/go/varlink"
)

// ---- IDL tree (mirrors the harness' generator types) -----------------------------------------------

const (
	kBool = iota
	kInt
	kFloat
	kString
	kObject
	kArray
	kMaybe
	kMap
	kStruct
	kEnum
	kAlias
)

type Ty struct {
	K      int    `json:"k"`
	Elem   *Ty    `json:"elem,omitempty"`
	Alias  string `json:"alias,omitempty"`
	Fields []Fld  `json:"fields,omitempty"`
}

type Fld struct {
	Name string `json:"n"`
	T    *Ty    `json:"t,omitempty"`
}

type Mem struct {
	Kind byte   `json:"kind"`
	Name string `json:"name"`
	T    *Ty    `json:"t,omitempty"`
	In   *Ty    `json:"in,omitempty"`
	Out  *Ty    `json:"out,omitempty"`
}

type Desc struct {
	Name string `json:"name"`
	Mems []Mem  `json:"mems"`
}

// ---- registry ----------------------------------------------------------------------------------------

type Pkg struct {
	Dir           string
	NewDispatcher func(h *Handler) interface{}
	Clients       map[string]interface{}
	Errors        map[string]interface{}
	Info          func() (string, string)
	Overridden    map[string]bool
}

var pkgs = map[string]*Pkg{}

func Register(p *Pkg) { pkgs[p.Dir] = p }

type dispatcher interface {
	VarlinkDispatch(ctx context.Context, c varlink.Call, methodname string) error
	VarlinkGetName() string
	VarlinkGetDescription() string
}

// ---- abstract values ---------------------------------------------------------------------------------

type rawJSON string

type structV struct {
	Names []string
	Vals  []interface{}
}

type world struct {
	aliases map[string]*Ty
	rng     *rand.Rand
}

func (w *world) resolve(t *Ty) *Ty {
	for i := 0; t != nil && t.K == kAlias && i < 100; i++ {
		t = w.aliases[t.Alias]
	}
	return t
}

var genStrings = []string{"", "a", "hello world", "\u0000nul", "quote\" back\\slash", "éüß", "日本語", "\U0001F600", "<&>", " ", "line1\nline2\ttab\r", " ", strings.Repeat("long", 300)}
var genInts = []int64{0, 1, -1, 42, math.MaxInt64, math.MinInt64, 1 << 53, (1 << 53) + 1, -(1 << 53) - 1, math.MaxInt32 + 1}
var genFloats = []float64{0, 1, -1, 0.5, 0.1, 1e300, -1e-300, 5e-324, math.MaxFloat64, 3, 1 << 53, 123456.789}
var genObjects = []string{`{}`, `{"a":1}`, `[1,2,{"b":null}]`, `"str"`, `12345678901234567890`, `true`, `{"nested":{"deep":[[],{}]},"n":-0.0}`, `1.0e+2`}

func (w *world) gen(t *Ty, depth int) interface{} {
	r := w.rng
	switch t.K {
	case kBool:
		return r.Intn(2) == 0
	case kInt:
		if r.Intn(3) == 0 {
			return r.Int63() - r.Int63()
		}
		return genInts[r.Intn(len(genInts))]
	case kFloat:
		if r.Intn(3) == 0 {
			return r.NormFloat64() * 1e6
		}
		return genFloats[r.Intn(len(genFloats))]
	case kString:
		return genStrings[r.Intn(len(genStrings))]
	case kObject:
		return rawJSON(genObjects[r.Intn(len(genObjects))])
	case kEnum:
		return t.Fields[r.Intn(len(t.Fields))].Name
	case kAlias:
		return w.gen(w.resolve(t), depth-1)
	case kMaybe:
		if depth <= 0 || r.Intn(3) == 0 {
			return nil
		}
		return w.gen(t.Elem, depth-1)
	case kArray:
		n := 0
		if depth > 0 {
			n = r.Intn(4)
		}
		out := make([]interface{}, n)
		for i := range out {
			out[i] = w.gen(t.Elem, depth-1)
		}
		return out
	case kMap:
		n := 0
		if depth > 0 {
			n = r.Intn(4)
		}
		out := map[string]interface{}{}
		for i := 0; i < n; i++ {
			out[genStrings[r.Intn(len(genStrings))]+fmt.Sprint(i)] = w.gen(t.Elem, depth-1)
		}
		return out
	case kStruct:
		sv := &structV{}
		for _, f := range t.Fields {
			sv.Names = append(sv.Names, f.Name)
			sv.Vals = append(sv.Vals, w.gen(f.T, depth-1))
		}
		return sv
	}
	return nil
}

var rawType = reflect.TypeOf(json.RawMessage{})

// toGo builds a Go value of the generated type gt from the abstract value.
func (w *world) toGo(v interface{}, t *Ty, gt reflect.Type) (rv reflect.Value, err error) {
	defer func() {
		if x := recover(); x != nil {
			err = fmt.Errorf("toGo(%v into %v): %v", t.K, gt, x)
		}
	}()
	rv = reflect.New(gt).Elem()
	switch t.K {
	case kBool:
		rv.SetBool(v.(bool))
	case kInt:
		rv.SetInt(v.(int64))
	case kFloat:
		rv.SetFloat(v.(float64))
	case kString, kEnum:
		rv.SetString(v.(string))
	case kObject:
		rv.SetBytes([]byte(v.(rawJSON)))
	case kAlias:
		return w.toGo(v, w.resolve(t), gt)
	case kMaybe:
		if v == nil {
			return rv, nil
		}
		e, err := w.toGo(v, t.Elem, gt.Elem())
		if err != nil {
			return rv, err
		}
		p := reflect.New(gt.Elem())
		p.Elem().Set(e)
		rv.Set(p)
	case kArray:
		a := v.([]interface{})
		s := reflect.MakeSlice(gt, len(a), len(a))
		for i, x := range a {
			e, err := w.toGo(x, t.Elem, gt.Elem())
			if err != nil {
				return rv, err
			}
			s.Index(i).Set(e)
		}
		rv.Set(s)
	case kMap:
		m := v.(map[string]interface{})
		mv := reflect.MakeMapWithSize(gt, len(m))
		for k, x := range m {
			e, err := w.toGo(x, t.Elem, gt.Elem())
			if err != nil {
				return rv, err
			}
			mv.SetMapIndex(reflect.ValueOf(k).Convert(gt.Key()), e)
		}
		rv.Set(mv)
	case kStruct:
		sv := v.(*structV)
		if gt.Kind() != reflect.Struct || gt.NumField() != len(t.Fields) {
			return rv, fmt.Errorf("generated type %v does not have the %d declared fields", gt, len(t.Fields))
		}
		for i, f := range t.Fields {
			e, err := w.toGo(sv.Vals[i], f.T, gt.Field(i).Type)
			if err != nil {
				return rv, err
			}
			rv.Field(i).Set(e)
		}
	}
	return rv, nil
}

// fromGo maps a Go value of a generated type back to an abstract value.
func (w *world) fromGo(rv reflect.Value, t *Ty) (v interface{}, err error) {
	defer func() {
		if x := recover(); x != nil {
			err = fmt.Errorf("fromGo(%v from %v): %v", t.K, rv.Type(), x)
		}
	}()
	switch t.K {
	case kBool:
		return rv.Bool(), nil
	case kInt:
		return rv.Int(), nil
	case kFloat:
		return rv.Float(), nil
	case kString, kEnum:
		return rv.String(), nil
	case kObject:
		return rawJSON(rv.Bytes()), nil
	case kAlias:
		return w.fromGo(rv, w.resolve(t))
	case kMaybe:
		if rv.IsNil() {
			return nil, nil
		}
		return w.fromGo(rv.Elem(), t.Elem)
	case kArray:
		out := make([]interface{}, rv.Len())
		for i := range out {
			if out[i], err = w.fromGo(rv.Index(i), t.Elem); err != nil {
				return nil, err
			}
		}
		return out, nil
	case kMap:
		out := map[string]interface{}{}
		it := rv.MapRange()
		for it.Next() {
			e, err := w.fromGo(it.Value(), t.Elem)
			if err != nil {
				return nil, err
			}
			out[it.Key().String()] = e
		}
		return out, nil
	case kStruct:
		sv := &structV{}
		if rv.NumField() != len(t.Fields) {
			return nil, fmt.Errorf("generated type %v does not have the %d declared fields", rv.Type(), len(t.Fields))
		}
		for i, f := range t.Fields {
			e, err := w.fromGo(rv.Field(i), f.T)
			if err != nil {
				return nil, err
			}
			sv.Names = append(sv.Names, f.Name)
			sv.Vals = append(sv.Vals, e)
		}
		return sv, nil
	}
	return nil, fmt.Errorf("unknown kind %d", t.K)
}

func jsonEqualText(a, b string) bool {
	dec := func(s string) (interface{}, error) {
		d := json.NewDecoder(strings.NewReader(s))
		d.UseNumber()
		var v interface{}
		err := d.Decode(&v)
		return v, err
	}
	x, e1 := dec(a)
	y, e2 := dec(b)
	if e1 != nil || e2 != nil {
		return false
	}
	return reflect.DeepEqual(x, y)
}

// equalV: semantic equality of two abstract values of type t ("" = equal). nil and empty containers are equal.
func (w *world) equalV(a, b interface{}, t *Ty, path string) string {
	show := func(x interface{}) string {
		s := fmt.Sprintf("%#v", x)
		if len(s) > 100 {
			s = s[:100] + "…"
		}
		return s
	}
	switch t.K {
	case kAlias:
		return w.equalV(a, b, w.resolve(t), path)
	case kMaybe:
		if a == nil || b == nil {
			if a != nil || b != nil {
				return fmt.Sprintf("%s: optional present on one side only (%s vs %s)", path, show(a), show(b))
			}
			return ""
		}
		return w.equalV(a, b, t.Elem, path)
	case kObject:
		x, _ := a.(rawJSON)
		y, _ := b.(rawJSON)
		if !jsonEqualText(string(x), string(y)) {
			return fmt.Sprintf("%s: object %s vs %s", path, show(x), show(y))
		}
		return ""
	case kArray:
		x, _ := a.([]interface{})
		y, _ := b.([]interface{})
		if len(x) != len(y) {
			return fmt.Sprintf("%s: array length %d vs %d", path, len(x), len(y))
		}
		for i := range x {
			if d := w.equalV(x[i], y[i], t.Elem, fmt.Sprintf("%s[%d]", path, i)); d != "" {
				return d
			}
		}
		return ""
	case kMap:
		x, _ := a.(map[string]interface{})
		y, _ := b.(map[string]interface{})
		if len(x) != len(y) {
			return fmt.Sprintf("%s: map size %d vs %d", path, len(x), len(y))
		}
		for k, v := range x {
			u, ok := y[k]
			if !ok {
				return fmt.Sprintf("%s: key %q missing", path, k)
			}
			if d := w.equalV(v, u, t.Elem, path+"["+k+"]"); d != "" {
				return d
			}
		}
		return ""
	case kStruct:
		x, _ := a.(*structV)
		y, _ := b.(*structV)
		if x == nil || y == nil || len(x.Vals) != len(y.Vals) {
			return fmt.Sprintf("%s: struct shape differs", path)
		}
		for i, f := range t.Fields {
			if d := w.equalV(x.Vals[i], y.Vals[i], f.T, path+"."+f.Name); d != "" {
				return d
			}
		}
		return ""
	}
	if a != b {
		return fmt.Sprintf("%s: %s vs %s", path, show(a), show(b))
	}
	return ""
}

// matchWire compares a JSON value on the wire with the abstract value per the varlink JSON mapping.
func (w *world) matchWire(v interface{}, t *Ty, raw json.RawMessage, path string) string {
	s := strings.TrimSpace(string(raw))
	isNull := s == "null" || s == ""
	switch t.K {
	case kAlias:
		return w.matchWire(v, w.resolve(t), raw, path)
	case kMaybe:
		if v == nil {
			if !isNull {
				return fmt.Sprintf("%s: absent optional is %s on the wire", path, clip(s))
			}
			return ""
		}
		if isNull {
			return fmt.Sprintf("%s: present optional is null/absent on the wire", path)
		}
		return w.matchWire(v, t.Elem, raw, path)
	case kBool:
		if s != fmt.Sprint(v.(bool)) {
			return fmt.Sprintf("%s: bool %v is %s on the wire", path, v, clip(s))
		}
	case kInt:
		var n json.Number
		if json.Unmarshal(raw, &n) != nil || n.String() != fmt.Sprint(v.(int64)) {
			return fmt.Sprintf("%s: int %d is %s on the wire", path, v.(int64), clip(s))
		}
	case kFloat:
		var f float64
		if len(s) == 0 || s[0] == '"' || json.Unmarshal(raw, &f) != nil || f != v.(float64) {
			return fmt.Sprintf("%s: float %v is %s on the wire", path, v, clip(s))
		}
	case kString, kEnum:
		var x string
		if len(s) == 0 || s[0] != '"' || json.Unmarshal(raw, &x) != nil || x != v.(string) {
			return fmt.Sprintf("%s: string %q is %s on the wire", path, v, clip(s))
		}
	case kObject:
		if !jsonEqualText(string(v.(rawJSON)), s) {
			return fmt.Sprintf("%s: object %s is %s on the wire", path, clip(string(v.(rawJSON))), clip(s))
		}
	case kArray:
		a := v.([]interface{})
		if isNull && len(a) == 0 {
			return ""
		}
		var xs []json.RawMessage
		if len(s) == 0 || s[0] != '[' || json.Unmarshal(raw, &xs) != nil || len(xs) != len(a) {
			return fmt.Sprintf("%s: array of %d elements is %s on the wire", path, len(a), clip(s))
		}
		for i := range a {
			if d := w.matchWire(a[i], t.Elem, xs[i], fmt.Sprintf("%s[%d]", path, i)); d != "" {
				return d
			}
		}
	case kMap:
		m := v.(map[string]interface{})
		if isNull && len(m) == 0 {
			return ""
		}
		var xs map[string]json.RawMessage
		if len(s) == 0 || s[0] != '{' || json.Unmarshal(raw, &xs) != nil || len(xs) != len(m) {
			return fmt.Sprintf("%s: map of %d entries is %s on the wire", path, len(m), clip(s))
		}
		for k, x := range m {
			r, ok := xs[k]
			if !ok {
				return fmt.Sprintf("%s: key %q missing on the wire", path, k)
			}
			if d := w.matchWire(x, t.Elem, r, path+"["+k+"]"); d != "" {
				return d
			}
		}
	case kStruct:
		sv := v.(*structV)
		var xs map[string]json.RawMessage
		if len(s) == 0 || s[0] != '{' || json.Unmarshal(raw, &xs) != nil {
			return fmt.Sprintf("%s: struct is %s on the wire", path, clip(s))
		}
		declared := map[string]bool{}
		for i, f := range t.Fields {
			declared[f.Name] = true
			r, present := xs[f.Name]
			if !present {
				r = nil
				// only an absent optional may be left out: every other declared field name must be on the wire
				if rt := w.resolve(f.T); !(rt != nil && rt.K == kMaybe && sv.Vals[i] == nil) {
					return fmt.Sprintf("%s.%s: declared field is missing on the wire", path, f.Name)
				}
			}
			if d := w.matchWire(sv.Vals[i], f.T, r, path+"."+f.Name); d != "" {
				if !present {
					return fmt.Sprintf("%s.%s: member missing on the wire (%s)", path, f.Name, d)
				}
				return d
			}
		}
		for k := range xs {
			if !declared[k] {
				return fmt.Sprintf("%s: member %q on the wire is not a declared field name", path, k)
			}
		}
	}
	return ""
}

func clip(s string) string {
	if len(s) > 120 {
		return s[:120] + "…"
	}
	return s
}

// ---- handler (service implementation side) --------------------------------------------------------------

type Plan struct {
	Replies  [][]interface{} // values of each reply (all but the last are sent with Continues)
	Err      string          // error member to reply instead of the last reply
	ErrVals  []interface{}
	NoReply  bool
	ReadRaw  int // after the reply read this many raw bytes from the connection (upgrade)
}

type Observed struct {
	Method               string
	Args                 []reflect.Value
	More, Oneway, Upgrade bool
	ReplyErrs            []error
	Raw                  []byte
	Done                 bool
}

type Handler struct {
	mu   sync.Mutex
	plan *Plan
	obs  []*Observed
	w    *world
	desc *Desc
}

type flagger interface {
	WantsMore() bool
	IsOneway() bool
	WantsUpgrade() bool
}

func (h *Handler) member(kind byte, name string) *Mem {
	for i := range h.desc.Mems {
		if h.desc.Mems[i].Kind == kind && h.desc.Mems[i].Name == name {
			return &h.desc.Mems[i]
		}
	}
	return nil
}

// Handle is called by the generated glue for every overridden method.
func (h *Handler) Handle(ctx context.Context, method string, c interface{}, args ...interface{}) error {
	h.mu.Lock()
	plan := h.plan
	o := &Observed{Method: method}
	h.obs = append(h.obs, o)
	h.mu.Unlock()
	defer func() {
		h.mu.Lock()
		o.Done = true
		h.mu.Unlock()
	}()
	for _, a := range args {
		o.Args = append(o.Args, reflect.ValueOf(a))
	}
	if f, ok := c.(flagger); ok {
		o.More, o.Oneway, o.Upgrade = f.WantsMore(), f.IsOneway(), f.WantsUpgrade()
	}
	if plan == nil {
		return nil
	}
	cv := reflect.ValueOf(c)
	m := h.member('m', method)
	callReply := func(name string, t *Ty, vals []interface{}) error {
		fn := cv.MethodByName("Reply" + name)
		if !fn.IsValid() {
			return fmt.Errorf("generated VarlinkCall has no method Reply%s", name)
		}
		in := []reflect.Value{reflect.ValueOf(ctx)}
		nf := 0
		if t != nil {
			nf = len(t.Fields)
		}
		if fn.Type().NumIn() != 1+nf {
			return fmt.Errorf("Reply%s takes %d parameters, the description declares %d fields", name, fn.Type().NumIn()-1, nf)
		}
		for i := 0; i < nf; i++ {
			gv, err := h.w.toGo(vals[i], t.Fields[i].T, fn.Type().In(1+i))
			if err != nil {
				return err
			}
			in = append(in, gv)
		}
		out := fn.Call(in)
		if e, _ := out[0].Interface().(error); e != nil {
			return e
		}
		return nil
	}
	setContinues := func(b bool) {
		f := cv.Elem().FieldByName("Call").FieldByName("Continues")
		f.SetBool(b)
	}
	for i, rep := range plan.Replies {
		last := i == len(plan.Replies)-1
		if last && plan.Err != "" {
			break
		}
		setContinues(!last)
		o.ReplyErrs = append(o.ReplyErrs, callReply(method, m.Out, rep))
	}
	if plan.Err != "" {
		setContinues(false)
		em := h.member('e', plan.Err)
		var et *Ty
		if em != nil {
			et = em.T
		}
		o.ReplyErrs = append(o.ReplyErrs, callReply(plan.Err, et, plan.ErrVals))
	}
	if plan.ReadRaw > 0 {
		conn := cv.Elem().FieldByName("Call").FieldByName("Conn").Interface().(varlink.ReadWriterContext)
		for len(o.Raw) < plan.ReadRaw {
			buf := make([]byte, 64)
			n, err := conn.Read(ctx, buf)
			h.mu.Lock()
			o.Raw = append(o.Raw, buf[:n]...)
			h.mu.Unlock()
			if err != nil {
				break
			}
		}
		return fmt.Errorf("upgraded")
	}
	return nil
}

// ---- recording proxy -------------------------------------------------------------------------------------

type proxy struct {
	l    net.Listener
	addr string
	mu   sync.Mutex
	c2s  []byte
	s2c  []byte
}

func newProxy(name, target string) (*proxy, error) {
	l, err := net.Listen("unix", name)
	if err != nil {
		return nil, err
	}
	p := &proxy{l: l, addr: name}
	go func() {
		for {
			c, err := l.Accept()
			if err != nil {
				return
			}
			s, err := net.Dial("unix", target)
			if err != nil {
				c.Close()
				continue
			}
			pump := func(dst, src net.Conn, rec *[]byte) {
				buf := make([]byte, 65536)
				for {
					n, err := src.Read(buf)
					if n > 0 {
						p.mu.Lock()
						*rec = append(*rec, buf[:n]...)
						p.mu.Unlock()
						dst.Write(buf[:n])
					}
					if err != nil {
						if u, ok := dst.(*net.UnixConn); ok {
							u.CloseWrite()
						}
						return
					}
				}
			}
			go pump(s, c, &p.c2s)
			go pump(c, s, &p.s2c)
		}
	}()
	return p, nil
}

func (p *proxy) take() (c2s, s2c [][]byte) {
	p.mu.Lock()
	defer p.mu.Unlock()
	split := func(b *[]byte) (out [][]byte) {
		for {
			i := bytes.IndexByte(*b, 0)
			if i < 0 {
				return
			}
			out = append(out, append([]byte{}, (*b)[:i]...))
			*b = (*b)[i+1:]
		}
	}
	return split(&p.c2s), split(&p.s2c)
}

// ---- driver ---------------------------------------------------------------------------------------------

type Violation struct {
	Pkg    string `json:"pkg"`
	Method string `json:"method"`
	Class  string `json:"class"`
	Detail string `json:"detail"`
}

type Result struct {
	Infos      map[string][2]string `json:"infos"`
	Violations []Violation          `json:"violations"`
	Counters   map[string]int64     `json:"counters"`
	Kinds      []string             `json:"kinds"`
}

type Job struct {
	Mode   string           `json:"mode"` // info | exec
	Seed   int64            `json:"seed"`
	Sets   int              `json:"sets"`
	Descs  map[string]*Desc `json:"descs"`
	Socket string           `json:"socket"` // prefix for abstract socket names
}

type wireCall struct {
	Method     string          `json:"method"`
	Parameters json.RawMessage `json:"parameters"`
	More       bool            `json:"more"`
	Oneway     bool            `json:"oneway"`
	Upgrade    bool            `json:"upgrade"`
}

type wireReply struct {
	Parameters json.RawMessage `json:"parameters"`
	Continues  bool            `json:"continues"`
	Error      string          `json:"error"`
}

func Main() {
	if len(os.Args) < 3 {
		fmt.Fprintln(os.Stderr, "usage: batch <job.json> <result.json>")
		os.Exit(2)
	}
	jb, err := os.ReadFile(os.Args[1])
	if err != nil {
		fmt.Fprintln(os.Stderr, err)
		os.Exit(2)
	}
	var job Job
	if err := json.Unmarshal(jb, &job); err != nil {
		fmt.Fprintln(os.Stderr, err)
		os.Exit(2)
	}
	res := &Result{Infos: map[string][2]string{}, Counters: map[string]int64{}}
	kinds := map[string]bool{}
	var dirs []string
	for d := range pkgs {
		dirs = append(dirs, d)
	}
	sort.Strings(dirs)
	for _, d := range dirs {
		p := pkgs[d]
		n, t := p.Info()
		res.Infos[d] = [2]string{n, t}
		if job.Mode == "exec" && job.Descs[d] != nil && len(res.Violations) <= 12 {
			func() {
				defer func() {
					if x := recover(); x != nil {
						res.Violations = append(res.Violations, Violation{Pkg: d, Class: "panic", Detail: fmt.Sprint(x)})
					}
				}()
				runPkg(p, job.Descs[d], &job, res, kinds)
			}()
		}
	}
	for k := range kinds {
		res.Kinds = append(res.Kinds, k)
	}
	sort.Strings(res.Kinds)
	out, _ := json.Marshal(res)
	if err := os.WriteFile(os.Args[2], out, 0644); err != nil {
		fmt.Fprintln(os.Stderr, err)
		os.Exit(2)
	}
}

func typeKinds(t *Ty, kinds map[string]bool, pos string) {
	if t == nil {
		return
	}
	kinds[fmt.Sprintf("%s:%d", pos, t.K)] = true
	typeKinds(t.Elem, kinds, pos)
	for _, f := range t.Fields {
		typeKinds(f.T, kinds, pos)
	}
}

func runPkg(p *Pkg, d *Desc, job *Job, res *Result, kinds map[string]bool) {
	w := &world{aliases: map[string]*Ty{}, rng: rand.New(rand.NewSource(job.Seed ^ int64(len(p.Dir))*7919 + int64(len(d.Mems))))}
	for _, m := range d.Mems {
		if m.Kind == 't' {
			w.aliases[m.Name] = m.T
		}
	}
	viol := func(method, class, format string, a ...interface{}) {
		if len(res.Violations) < 200 {
			res.Violations = append(res.Violations, Violation{Pkg: p.Dir, Method: method, Class: class, Detail: fmt.Sprintf(format, a...)})
		}
	}
	h := &Handler{w: w, desc: d}
	disp, ok := p.NewDispatcher(h).(dispatcher)
	if !ok {
		viol("", "not-a-dispatcher", "VarlinkNew's result does not offer VarlinkDispatch/VarlinkGetName/VarlinkGetDescription")
		return
	}
	svc, err := varlink.NewService("Verif", "Gen", "1", "u")
	if err != nil {
		return
	}
	if err := svc.RegisterInterface(disp); err != nil {
		viol("", "register", "%v", err)
		return
	}
	sname := fmt.Sprintf("@%s-%s-s", job.Socket, p.Dir)
	pname := fmt.Sprintf("@%s-%s-p", job.Socket, p.Dir)
	ctx, cancel := context.WithCancel(context.Background())
	defer cancel()
	if err := svc.Bind(ctx, "unix:"+sname); err != nil {
		viol("", "bind", "%v", err)
		return
	}
	done := make(chan error, 1)
	go func() { done <- svc.DoListen(ctx, 0) }()
	defer func() {
		svc.Shutdown()
		select {
		case <-done:
		case <-time.After(10 * time.Second):
		}
	}()
	px, err := newProxy(pname, sname)
	if err != nil {
		viol("", "proxy", "%v", err)
		return
	}
	defer px.l.Close()
	var conn *varlink.Connection
	connect := func() bool {
		if conn != nil {
			conn.Close()
		}
		cctx, ccancel := context.WithTimeout(ctx, 10*time.Second)
		defer ccancel()
		for try := 0; try < 200; try++ {
			conn, err = varlink.NewConnection(cctx, "unix:"+pname)
			if err == nil {
				var v string
				if conn.GetInfo(cctx, &v, nil, nil, nil, nil) == nil {
					px.take()
					return true
				}
				conn.Close()
			}
			time.Sleep(time.Millisecond)
		}
		viol("", "connect", "cannot reach the service: %v", err)
		return false
	}
	if !connect() {
		return
	}
	defer func() { conn.Close() }()

	var errs []Mem
	for _, m := range d.Mems {
		if m.Kind == 'e' {
			errs = append(errs, m)
		}
	}
	genVals := func(t *Ty) []interface{} {
		if t == nil {
			return nil
		}
		out := make([]interface{}, len(t.Fields))
		for i, f := range t.Fields {
			out[i] = w.gen(f.T, 3)
		}
		return out
	}
	wrap := func(t *Ty, vals []interface{}) *structV {
		sv := &structV{Vals: vals}
		if t != nil {
			for _, f := range t.Fields {
				sv.Names = append(sv.Names, f.Name)
			}
		}
		return sv
	}
	emptyStruct := &Ty{K: kStruct}
	errTurn := 0
	for _, m := range d.Mems {
		if m.Kind != 'm' || len(res.Violations) > 12 {
			continue
		}
		typeKinds(m.In, kinds, "in")
		typeKinds(m.Out, kinds, "out")
		stub := reflect.ValueOf(p.Clients[m.Name])
		if !stub.IsValid() {
			viol(m.Name, "no-client-stub", "no generated client stub")
			continue
		}
		full := d.Name + "." + m.Name
		rctx, rcancel := context.WithTimeout(ctx, 20*time.Second)
		callArgs := func(fn reflect.Value, skip int, vals []interface{}) ([]reflect.Value, error) {
			if fn.Type().NumIn() != skip+len(m.In.Fields) {
				return nil, fmt.Errorf("stub takes %d value parameters, the description declares %d input fields", fn.Type().NumIn()-skip, len(m.In.Fields))
			}
			var out []reflect.Value
			for i, f := range m.In.Fields {
				gv, err := w.toGo(vals[i], f.T, fn.Type().In(skip+i))
				if err != nil {
					return nil, err
				}
				out = append(out, gv)
			}
			return out, nil
		}
		outVals := func(rets []reflect.Value) ([]interface{}, error) {
			var out []interface{}
			for i, f := range m.Out.Fields {
				v, err := w.fromGo(rets[i], f.T)
				if err != nil {
					return nil, err
				}
				out = append(out, v)
			}
			return out, nil
		}
		if !p.Overridden[m.Name] {
			// not overridden: MethodNotImplemented
			fn := stub.MethodByName("Call")
			in, err := callArgs(fn, 2, genVals(m.In))
			if err != nil {
				viol(m.Name, "stub-shape", "%v", err)
				rcancel()
				continue
			}
			rets := fn.Call(append([]reflect.Value{reflect.ValueOf(rctx), reflect.ValueOf(conn)}, in...))
			e, _ := rets[len(rets)-1].Interface().(error)
			ni, ok := e.(*varlink.MethodNotImplemented)
			if !ok {
				viol(m.Name, "not-implemented", "the implementation does not override %s; the client got %T %v, expected *varlink.MethodNotImplemented", m.Name, e, e)
			} else if ni.Method != full && ni.Method != m.Name {
				viol(m.Name, "not-implemented", "MethodNotImplemented carries %q, expected %q", ni.Method, full)
			}
			res.Counters["not_implemented_checks"]++
			if len(m.In.Fields) == 0 {
				onewayBarrier(rctx, conn, full, nil, "a call to the not overridden method "+m.Name, viol, m.Name, res.Counters)
			} else {
				onewayBarrier(rctx, conn, full, json.RawMessage(`{}`), "a call to the not overridden method "+m.Name, viol, m.Name, res.Counters)
			}
			px.take()
			rcancel()
			continue
		}
		nsets := job.Sets
		if len(errs) > 2 {
			nsets += 2 * len(errs) // enough turns for every error on every kind of stub
		}
		for set := 0; set < nsets; set++ {
			if len(res.Violations) > 12 {
				break // the tree is broken; every further case would only add bounded waits
			}
			V := genVals(m.In)
			scenario := []string{"call", "error", "more", "oneway", "upgrade", "more-error", "upgrade-error", "call"}[set%8]
			if set >= job.Sets {
				scenario = []string{"error", "more-error", "upgrade-error"}[set%3]
			}
			base := strings.TrimSuffix(scenario, "-error")
			isErr := scenario == "error" || strings.HasSuffix(scenario, "-error")
			if isErr && len(errs) == 0 {
				isErr = false
				if scenario == "error" {
					base = "call"
				}
				scenario = base
			}
			if scenario == "error" {
				base = "call"
			}
			plan := &Plan{}
			nrep := 1
			if base == "more" {
				nrep = 1 + w.rng.Intn(4)
				if isErr {
					nrep = 2 + w.rng.Intn(2)
				}
			}
			for i := 0; i < nrep; i++ {
				plan.Replies = append(plan.Replies, genVals(m.Out))
			}
			var em Mem
			if isErr {
				// every declared error is used in turn (so the first and the last one are certainly exercised)
				em = errs[errTurn%len(errs)]
				errTurn++
				plan.Err = em.Name
				plan.ErrVals = genVals(em.T)
			}
			if scenario == "oneway" {
				plan.NoReply = true
				plan.Replies = plan.Replies[:1]
			}
			h.mu.Lock()
			h.plan = plan
			h.obs = nil
			h.mu.Unlock()
			px.take()
			var clientOuts [][]interface{}
			var clientFlags []uint64
			var clientErr error
			var sendErr error
			switch base {
			case "call":
				fn := stub.MethodByName("Call")
				in, err := callArgs(fn, 2, V)
				if err != nil {
					viol(m.Name, "stub-shape", "%v", err)
					continue
				}
				rets := fn.Call(append([]reflect.Value{reflect.ValueOf(rctx), reflect.ValueOf(conn)}, in...))
				clientErr, _ = rets[len(rets)-1].Interface().(error)
				if clientErr == nil {
					o, err := outVals(rets)
					if err != nil {
						viol(m.Name, "stub-shape", "%v", err)
						continue
					}
					clientOuts = append(clientOuts, o)
					clientFlags = append(clientFlags, 0)
				}
			case "more", "oneway":
				fn := stub.MethodByName("Send")
				in, err := callArgs(fn, 3, V)
				if err != nil {
					viol(m.Name, "stub-shape", "%v", err)
					continue
				}
				fl := uint64(varlink.More)
				if scenario == "oneway" {
					fl = varlink.Oneway
				}
				rets := fn.Call(append([]reflect.Value{reflect.ValueOf(rctx), reflect.ValueOf(conn), reflect.ValueOf(fl)}, in...))
				sendErr, _ = rets[1].Interface().(error)
				if sendErr == nil && base == "more" {
					recv := rets[0]
					for i := 0; i < nrep; i++ {
						rr := recv.Call([]reflect.Value{reflect.ValueOf(rctx)})
						e, _ := rr[len(rr)-1].Interface().(error)
						if e != nil {
							clientErr = e
							break
						}
						o, err := outVals(rr)
						if err != nil {
							viol(m.Name, "stub-shape", "%v", err)
							break
						}
						clientOuts = append(clientOuts, o)
						clientFlags = append(clientFlags, rr[len(rr)-2].Uint())
					}
				}
				if scenario == "oneway" {
					// barrier: a GetInfo on the same connection
					var v string
					if err := conn.GetInfo(rctx, &v, nil, nil, nil, nil); err != nil {
						viol(m.Name, "oneway", "after a oneway call the connection is not usable: %v", err)
					}
				}
			case "upgrade":
				fn := stub.MethodByName("Upgrade")
				in, err := callArgs(fn, 2, V)
				if err != nil {
					viol(m.Name, "stub-shape", "%v", err)
					continue
				}
				if !isErr {
					plan.ReadRaw = 5
				}
				rets := fn.Call(append([]reflect.Value{reflect.ValueOf(rctx), reflect.ValueOf(conn)}, in...))
				sendErr, _ = rets[1].Interface().(error)
				if sendErr == nil {
					rr := rets[0].Call([]reflect.Value{reflect.ValueOf(rctx)})
					e, _ := rr[len(rr)-1].Interface().(error)
					if e != nil {
						clientErr = e
					} else {
						o, err := outVals(rr)
						if err != nil {
							viol(m.Name, "stub-shape", "%v", err)
						} else {
							clientOuts = append(clientOuts, o)
							clientFlags = append(clientFlags, rr[len(rr)-3].Uint())
						}
						if rw, ok := rr[len(rr)-2].Interface().(varlink.ReadWriterContext); ok && rw != nil {
							rw.Write(rctx, []byte("HELLO"))
						} else {
							viol(m.Name, "upgrade", "Upgrade's receive returned no connection object")
						}
					}
				}
			}
			res.Counters["calls"]++
			kinds["scenario:"+scenario] = true
			if sendErr != nil {
				viol(m.Name, "send-failed", "%s: the generated stub's send failed: %v", scenario, sendErr)
				connect()
				continue
			}
			// give the handler a moment to finish (it runs in the service's goroutine)
			var o *Observed
			for try := 0; try < 15000; try++ {
				h.mu.Lock()
				if len(h.obs) > 0 {
					o = h.obs[0]
				}
				n := len(h.obs)
				done := o != nil && o.Done
				h.mu.Unlock()
				if done {
					if n > 1 {
						viol(m.Name, "dispatch-count", "one call, the implementation was invoked %d times", n)
					}
					break
				}
				o = nil
				time.Sleep(200 * time.Microsecond)
			}
			c2s, s2c := px.take()
			if o == nil {
				viol(m.Name, "not-dispatched", "%s: the implementation was not invoked (client error: %v)", scenario, clientErr)
				connect()
				continue
			}
			// (1) request frame
			if len(c2s) < 1 {
				viol(m.Name, "no-request-frame", "no request frame seen")
			} else {
				var wc wireCall
				if err := json.Unmarshal(c2s[0], &wc); err != nil {
					viol(m.Name, "request-frame", "request frame is not a call object: %v", err)
				} else {
					if wc.Method != full {
						viol(m.Name, "request-method", "request frame has method %q, expected %q", wc.Method, full)
					}
					if wc.More != (base == "more") || wc.Oneway != (scenario == "oneway") || wc.Upgrade != (base == "upgrade") {
						viol(m.Name, "request-flags", "%s: request frame has more=%v oneway=%v upgrade=%v", scenario, wc.More, wc.Oneway, wc.Upgrade)
					}
					if len(m.In.Fields) > 0 || (len(wc.Parameters) > 0 && string(wc.Parameters) != "null") {
						if dd := w.matchWire(wrap(m.In, V), m.In, wc.Parameters, "parameters"); dd != "" {
							viol(m.Name, "request-parameters", "request parameters do not encode the input values: %s\n frame: %s", dd, clip(string(c2s[0])))
						}
					}
					res.Counters["frames_compared"]++
				}
			}
			// flags as the implementation sees them
			if o.More != (base == "more") || o.Oneway != (scenario == "oneway") || o.Upgrade != (base == "upgrade") {
				viol(m.Name, "flags-at-implementation", "%s: implementation saw more=%v oneway=%v upgrade=%v", scenario, o.More, o.Oneway, o.Upgrade)
			}
			// (2) arguments
			if len(o.Args) != len(m.In.Fields) {
				viol(m.Name, "argument-count", "implementation got %d arguments, %d input fields declared", len(o.Args), len(m.In.Fields))
			} else {
				for i, f := range m.In.Fields {
					got, err := w.fromGo(o.Args[i], f.T)
					if err != nil {
						viol(m.Name, "argument-shape", "%v", err)
						continue
					}
					if dd := w.equalV(V[i], got, f.T, f.Name); dd != "" {
						viol(m.Name, "argument-values", "the implementation received a different value than the client passed: %s", dd)
					}
					res.Counters["values_compared"]++
				}
			}
			for i, e := range o.ReplyErrs {
				if e != nil && scenario != "oneway" {
					viol(m.Name, "reply-helper-failed", "reply helper #%d returned %v", i, e)
				}
			}
			// (3) reply frames
			wantFrames := len(plan.Replies)
			if scenario == "oneway" {
				wantFrames = 0
			}
			// the oneway barrier adds one GetInfo reply
			if scenario == "oneway" {
				if len(s2c) != 1 {
					viol(m.Name, "oneway", "a oneway call must produce no reply; %d frames came back (incl. the barrier's one)", len(s2c))
				}
			} else if len(s2c) != wantFrames {
				viol(m.Name, "reply-count", "%s: %d reply frames on the wire, the implementation sent %d", scenario, len(s2c), wantFrames)
			} else {
				for i, fr := range s2c {
					var wr wireReply
					if err := json.Unmarshal(fr, &wr); err != nil {
						viol(m.Name, "reply-frame", "reply frame is not a reply object: %v", err)
						continue
					}
					last := i == len(s2c)-1
					if wr.Continues == last {
						viol(m.Name, "reply-continues", "reply %d of %d has continues=%v", i, len(s2c), wr.Continues)
					}
					if last && plan.Err != "" {
						if wr.Error != d.Name+"."+plan.Err {
							viol(m.Name, "error-name", "error frame has error=%q, expected %q", wr.Error, d.Name+"."+plan.Err)
						}
						et := em.T
						if et == nil {
							et = emptyStruct
						}
						if len(et.Fields) > 0 || (len(wr.Parameters) > 0 && string(wr.Parameters) != "null") {
							if dd := w.matchWire(wrap(et, plan.ErrVals), et, wr.Parameters, "parameters"); dd != "" {
								viol(m.Name, "error-parameters", "error parameters do not encode the values given to the helper: %s\n frame: %s", dd, clip(string(fr)))
							}
						}
					} else {
						if wr.Error != "" {
							viol(m.Name, "reply-frame", "unexpected error %q in reply %d", wr.Error, i)
						}
						if len(m.Out.Fields) > 0 || (len(wr.Parameters) > 0 && string(wr.Parameters) != "null") {
							if dd := w.matchWire(wrap(m.Out, plan.Replies[i]), m.Out, wr.Parameters, "parameters"); dd != "" {
								viol(m.Name, "reply-parameters", "reply parameters do not encode the values given to the helper: %s\n frame: %s", dd, clip(string(fr)))
							}
						}
					}
					res.Counters["frames_compared"]++
				}
			}
			// (4) what the client returned
			sc := scenario
			if isErr {
				sc = "error"
			}
			switch sc {
			case "error":
				if clientErr == nil {
					viol(m.Name, "client-error", "%s: the implementation replied error %s, the client stub returned success", scenario, plan.Err)
					break
				}
				// the replies that came before the error (more-sequence)
				if len(clientOuts) != len(plan.Replies)-1 {
					viol(m.Name, "client-reply-count", "%s: client got %d replies before the error, %d were sent", scenario, len(clientOuts), len(plan.Replies)-1)
				} else {
					for i := range clientOuts {
						for j, f := range m.Out.Fields {
							if dd := w.equalV(plan.Replies[i][j], clientOuts[i][j], f.T, f.Name); dd != "" {
								viol(m.Name, "client-values", "reply %d before the error: the client returned a different value than the implementation sent: %s", i, dd)
							}
						}
						if clientFlags[i]&varlink.Continues == 0 {
							viol(m.Name, "client-continues", "reply %d before the error: client flags %d", i, clientFlags[i])
						}
					}
				}
				want := reflect.PtrTo(reflect.TypeOf(p.Errors[plan.Err]))
				if reflect.TypeOf(clientErr) != want {
					viol(m.Name, "client-error-type", "%s: the implementation replied error %s; the client stub returned %T %v, expected %v", scenario, plan.Err, clientErr, clientErr, want)
					break
				}
				kinds["error-type:generated"] = true
				if em.T != nil {
					got, err := w.fromGo(reflect.ValueOf(clientErr).Elem(), em.T)
					if err != nil {
						viol(m.Name, "client-error-shape", "%v", err)
					} else if dd := w.equalV(wrap(em.T, plan.ErrVals), got, em.T, plan.Err); dd != "" {
						viol(m.Name, "client-error-values", "typed error fields differ from what the implementation sent: %s", dd)
					}
				}
			case "oneway":
			default:
				if clientErr != nil {
					viol(m.Name, "client-failed", "%s: the client stub returned %T %v", scenario, clientErr, clientErr)
					break
				}
				want := len(plan.Replies)
				if len(clientOuts) != want {
					viol(m.Name, "client-reply-count", "client got %d replies, %d were sent", len(clientOuts), want)
					break
				}
				for i := range clientOuts {
					for j, f := range m.Out.Fields {
						if dd := w.equalV(plan.Replies[i][j], clientOuts[i][j], f.T, f.Name); dd != "" {
							viol(m.Name, "client-values", "reply %d: the client returned a different value than the implementation sent: %s", i, dd)
						}
						res.Counters["values_compared"]++
					}
					last := i == len(clientOuts)-1
					if (clientFlags[i]&varlink.Continues != 0) == last {
						viol(m.Name, "client-continues", "reply %d of %d: client flags %d", i, len(clientOuts), clientFlags[i])
					}
				}
			}
			if base == "upgrade" && isErr {
				connect()
			}
			if scenario == "upgrade" {
				if string(o.Raw) != "HELLO" {
					viol(m.Name, "upgrade-stream", "after the upgraded call the client wrote HELLO on the returned connection; the implementation read %q from Call.Conn", o.Raw)
				}
				// the upgraded connection cannot be reused
				if !connect() {
					rcancel()
					return
				}
			}
		}
		// (5) undecodable / missing parameters through the raw client
		if len(m.In.Fields) > 0 {
			h.mu.Lock()
			h.plan = nil
			h.obs = nil
			h.mu.Unlock()
			var out json.RawMessage
			e := conn.Call(rctx, full, nil, &out)
			if ip, ok := e.(*varlink.InvalidParameter); !ok {
				viol(m.Name, "missing-parameters", "a call without parameters was answered with %T %v, expected InvalidParameter", e, e)
			} else if ip.Parameter != "parameters" {
				kinds["invalid-parameter:"+ip.Parameter] = true
			}
			e = conn.Call(rctx, full, json.RawMessage(`[1,2,3]`), &out)
			if _, ok := e.(*varlink.InvalidParameter); !ok {
				viol(m.Name, "undecodable-parameters", "a call whose parameters are an array was answered with %T %v, expected InvalidParameter", e, e)
			}
			h.mu.Lock()
			if len(h.obs) > 0 {
				viol(m.Name, "undecodable-parameters", "the implementation was invoked for a call with undecodable parameters")
			}
			h.mu.Unlock()
			res.Counters["invalid_parameter_checks"] += 2
			onewayBarrier(rctx, conn, full, json.RawMessage(`[1,2,3]`), "a call with undecodable parameters", viol, m.Name, res.Counters)
			onewayBarrier(rctx, conn, full, nil, "a call without parameters", viol, m.Name, res.Counters)
			px.take()
		}
		rcancel()
	}
	// unknown method
	rctx, rcancel := context.WithTimeout(ctx, 10*time.Second)
	var out json.RawMessage
	e := conn.Call(rctx, d.Name+".NopeNotThere", nil, &out)
	if nf, ok := e.(*varlink.MethodNotFound); !ok || nf.Method != "NopeNotThere" {
		viol("NopeNotThere", "method-not-found", "an unknown method was answered with %T %v, expected MethodNotFound(NopeNotThere)", e, e)
	}
	res.Counters["method_not_found_checks"]++
	onewayBarrier(rctx, conn, d.Name+".NopeNotThere", nil, "a call to an unknown method", viol, "NopeNotThere", res.Counters)
	rcancel()
	res.Counters["packages_executed"]++
}

// onewayBarrier: a oneway call that ends in a service-level error (method not implemented / not found, undecodable
// parameters) must stay unanswered: the next ordinary call on the connection gets its own reply.
func onewayBarrier(ctx context.Context, conn *varlink.Connection, method string, params interface{}, what string, viol func(string, string, string, ...interface{}), name string, counters map[string]int64) {
	if _, err := conn.Send(ctx, method, params, varlink.Oneway); err != nil {
		viol(name, "oneway", "%s: Send with the oneway flag failed: %v", what, err)
		return
	}
	var vendor string
	if err := conn.GetInfo(ctx, &vendor, nil, nil, nil, nil); err != nil {
		viol(name, "oneway", "%s sent oneway; the next call on the connection (GetInfo) returned %T %v - the oneway call was answered", what, err, err)
	}
	counters["oneway_service_error_barriers"]++
}
