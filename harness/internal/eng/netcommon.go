package eng

// Shared machinery of the network engines: event log, scripted dispatcher, service rig,
// raw client with segmentation schedules.

import (
	"bytes"
	"math"
	"context"
	"encoding/json"
	"errors"
	"fmt"
	"io"
	"net"
	"os"
	"path/filepath"
	"runtime"
	"strings"
	"sync"
	"sync/atomic"
	"syscall"
	"time"

	"github.com/varlink/go/varlink"

	"verif/harness/internal/fw"
)

// ---- event log ---------------------------------------------------------------------------

type Ev struct {
	Seq    int64  `json:"seq"`
	Peer   string `json:"peer,omitempty"`
	Kind   string `json:"kind"` // start | step | end
	Iface  string `json:"iface,omitempty"`
	Method string `json:"method,omitempty"`
	CallID string `json:"id,omitempty"`
	Step   int    `json:"step,omitempty"`
	Res    string `json:"res,omitempty"`   // step: nil | err ; end: nil | err
	Flags  string `json:"flags,omitempty"` // start: m/o/u as the handler sees them
	Params string `json:"params,omitempty"`
	NoPar  bool   `json:"nopar,omitempty"` // start: GetParameters failed (absent parameters)
	CtxErr bool   `json:"ctxerr,omitempty"`
}

// EvLog is the handler side event log. seq comes from the run's single logical clock.
type EvLog struct {
	mu       sync.Mutex
	r        *fw.Run
	evs      []Ev
	gauge    map[string]int
	gaugeMax map[string]int
}

func newEvLog(r *fw.Run) *EvLog {
	return &EvLog{r: r, gauge: map[string]int{}, gaugeMax: map[string]int{}}
}

func (l *EvLog) add(e Ev) {
	l.mu.Lock()
	e.Seq = l.r.Seq()
	switch e.Kind {
	case "start":
		l.gauge[e.Peer]++
		if l.gauge[e.Peer] > l.gaugeMax[e.Peer] {
			l.gaugeMax[e.Peer] = l.gauge[e.Peer]
		}
	case "end":
		l.gauge[e.Peer]--
	}
	l.evs = append(l.evs, e)
	l.mu.Unlock()
}

// Take returns and clears the log (call only at quiescent points).
func (l *EvLog) Take() (evs []Ev, gaugeMax map[string]int) {
	l.mu.Lock()
	evs, gaugeMax = l.evs, l.gaugeMax
	l.evs, l.gaugeMax, l.gauge = nil, map[string]int{}, map[string]int{}
	l.mu.Unlock()
	return
}

// hasStart reports whether the handler of the call with this id has been entered.
func (l *EvLog) hasStart(id string) bool {
	l.mu.Lock()
	defer l.mu.Unlock()
	for i := len(l.evs) - 1; i >= 0; i-- {
		if l.evs[i].Kind == "start" && l.evs[i].CallID == id {
			return true
		}
	}
	return false
}

func (l *EvLog) Len() int {
	l.mu.Lock()
	defer l.mu.Unlock()
	return len(l.evs)
}

// ---- scripted dispatcher -------------------------------------------------------------------

type Step struct {
	Op    string          `json:"op"` // reply | error | builtin | yield | hook | badreply (C16 only: unencodable value)
	Cont  bool            `json:"cont,omitempty"`
	Name  string          `json:"name,omitempty"` // error name / builtin kind
	Arg   string          `json:"arg,omitempty"`  // builtin argument
	NoPar bool            `json:"nopar,omitempty"`
	Raw   json.RawMessage `json:"raw,omitempty"` // explicit parameters object instead of the tagged payload
	N     int             `json:"n,omitempty"`   // yield: rounds; sleep: milliseconds
	// TO: the reply is made under a context derived from the handler's with this timeout (ms), released right after
	TO int `json:"to_ms,omitempty"`
	// RawKind: the reply value is an empty json.RawMessage ("empty"), a nil one ("nil"), a nil *json.RawMessage ("nilptr") or one holding a lone brace ("invalid")
	RawKind string `json:"rawkind,omitempty"`
}

type CallScript struct {
	ID    string          `json:"id"`
	Steps []Step          `json:"steps,omitempty"`
	Fail  bool            `json:"fail,omitempty"`
	Pad   json.RawMessage `json:"pad,omitempty"`
}

// payload is what a scripted reply carries when the step has no explicit Raw.
func stepPayload(id string, i int, pad json.RawMessage) json.RawMessage {
	if len(pad) == 0 {
		pad = json.RawMessage("null")
	}
	b, _ := json.Marshal(id)
	return json.RawMessage(fmt.Sprintf(`{"id":%s,"step":%d,"pad":%s}`, b, i, pad))
}

type ScriptDisp struct {
	Name string
	Desc string
	Log  *EvLog
	Hook func(name string) // step {op: hook, name: ...}: lets a history act from inside a handler (e.g. call Shutdown)
	// DescHook, when set, runs inside VarlinkGetDescription (the library calls that from RegisterInterface)
	DescHook func()
}

func (d *ScriptDisp) VarlinkGetName() string { return d.Name }
func (d *ScriptDisp) VarlinkGetDescription() string {
	if d.DescHook != nil {
		d.DescHook()
	}
	return d.Desc
}

func peerOf(c varlink.ReadWriterContext) string {
	if g, ok := c.(varlink.GetNetConn); ok {
		if nc := g.NetConn(); nc != nil {
			if a := nc.RemoteAddr(); a != nil {
				return a.String()
			}
		}
	}
	return fmt.Sprintf("%p", c)
}

func flagString(more, oneway, upgrade bool) string {
	s := ""
	if more {
		s += "m"
	}
	if oneway {
		s += "o"
	}
	if upgrade {
		s += "u"
	}
	return s
}

func resString(err error) string {
	if err == nil {
		return "nil"
	}
	return "err"
}

func (d *ScriptDisp) VarlinkDispatch(ctx context.Context, c varlink.Call, method string) error {
	peer := peerOf(c.Conn)
	var raw json.RawMessage
	perr := c.GetParameters(&raw)
	var cs CallScript
	if perr == nil {
		if json.Unmarshal(raw, &cs) != nil {
			cs = CallScript{}
		}
	}
	d.Log.add(Ev{Kind: "start", Peer: peer, Iface: d.Name, Method: method, CallID: cs.ID, Flags: flagString(c.WantsMore(), c.IsOneway(), c.WantsUpgrade()),
		Params: string(raw), NoPar: perr != nil, CtxErr: ctx.Err() != nil})
	if cs.ID == "" && len(cs.Steps) == 0 {
		// unscripted call: one fixed reply
		err := c.Reply(ctx, json.RawMessage(`{"noscript":true}`))
		d.Log.add(Ev{Kind: "step", Peer: peer, CallID: cs.ID, Step: 0, Res: resString(err)})
		d.Log.add(Ev{Kind: "end", Peer: peer, CallID: cs.ID, Res: "nil"})
		return nil
	}
	for i, st := range cs.Steps {
		var err error
		var par interface{}
		if !st.NoPar {
			if len(st.Raw) > 0 {
				par = st.Raw
			} else {
				par = stepPayload(cs.ID, i, cs.Pad)
			}
		}
		switch st.RawKind {
		case "empty":
			par = json.RawMessage{}
		case "nil":
			par = json.RawMessage(nil)
		case "nilptr":
			par = (*json.RawMessage)(nil)
		case "invalid":
			par = json.RawMessage("{")
		}
		rctx, rcancel := ctx, context.CancelFunc(func() {})
		if st.TO > 0 {
			rctx, rcancel = context.WithTimeout(ctx, time.Duration(st.TO)*time.Millisecond)
		}
		switch st.Op {
		case "sleep":
			rcancel()
			time.Sleep(time.Duration(st.N) * time.Millisecond)
			continue
		case "reply":
			c.Continues = st.Cont
			err = c.Reply(rctx, par)
		case "error":
			err = c.ReplyError(rctx, st.Name, par)
		case "badreply":
			// a handler bug: a value that cannot be encoded as JSON; Reply reports an error, nothing goes out
			err = c.Reply(ctx, map[string]interface{}{"x": math.NaN()})
		case "builtin":
			switch st.Name {
			case "InterfaceNotFound":
				err = c.ReplyInterfaceNotFound(ctx, st.Arg)
			case "MethodNotFound":
				err = c.ReplyMethodNotFound(ctx, st.Arg)
			case "MethodNotImplemented":
				err = c.ReplyMethodNotImplemented(ctx, st.Arg)
			default:
				err = c.ReplyInvalidParameter(ctx, st.Arg)
			}
		case "hook":
			if d.Hook != nil {
				d.Hook(st.Name)
			}
			continue
		case "yield":
			for k := 0; k < st.N; k++ {
				if k%4 == 3 {
					time.Sleep(20 * time.Microsecond)
				} else {
					runtime.Gosched()
				}
			}
			continue
		default:
			continue
		}
		rcancel()
		d.Log.add(Ev{Kind: "step", Peer: peer, CallID: cs.ID, Step: i, Res: resString(err)})
	}
	if cs.Fail {
		d.Log.add(Ev{Kind: "end", Peer: peer, CallID: cs.ID, Res: "err"})
		return errors.New("scripted handler failure")
	}
	d.Log.add(Ev{Kind: "end", Peer: peer, CallID: cs.ID, Res: "nil"})
	return nil
}

// ---- service rig -------------------------------------------------------------------------

var rigCounter int64

type RigOpt struct {
	Transport string // unix | abstract | tcp
	UseListen bool   // Listen(address) instead of Bind + DoListen
	Timeout   time.Duration
	Ifaces    []string // names of scripted interfaces, registration order
	Descs     map[string]string
	Identity  [4]string
	// ConcurrentReg: the interfaces are registered from goroutines released at the same instant (before serving); the
	// order in which GetInfo then lists them is whatever it is, but every one of them is listed once and routable
	ConcurrentReg bool
	// noLate: every interface is registered before Bind (set internally when the tree under test refuses a registration
	// between Bind and DoListen, which the statement "registering while listening is refused" permits)
	noLate bool
}

type Rig struct {
	Svc    *varlink.Service
	Addr   string // varlink address
	Net    string // network for raw dialing
	Dial   string // address for raw dialing
	Log    *EvLog
	Reg    *MReg
	done   chan error
	ctx    context.Context
	cancel context.CancelFunc
	r      *fw.Run
	path   string
	tainted bool // a round found connections that were never released
	hmu     sync.Mutex
	waits   map[string]chan struct{}
}

// waitCh returns the channel a handler step {op: hook, name: "wait:<x>"} blocks on until Release(x).
func (g *Rig) waitCh(name string) chan struct{} {
	g.hmu.Lock()
	defer g.hmu.Unlock()
	if g.waits == nil {
		g.waits = map[string]chan struct{}{}
	}
	ch := g.waits[name]
	if ch == nil {
		ch = make(chan struct{})
		g.waits[name] = ch
	}
	return ch
}

func (g *Rig) Release(name string) {
	ch := g.waitCh(name)
	select {
	case <-ch:
	default:
		close(ch)
	}
}

func (g *Rig) hook(name string) {
	if strings.HasPrefix(name, "wait:") {
		select {
		case <-g.waitCh(name):
		case <-time.After(60 * time.Second):
		}
	}
}

func defaultDesc(name string) string {
	return "interface " + name + "\nmethod M() -> ()\n"
}

func newRig(r *fw.Run, o RigOpt) (*Rig, error) {
	id := o.Identity
	if id == [4]string{} {
		id = [4]string{"Verif", "Rig", "1", "http://example.org/"}
	}
	svc, err := varlink.NewService(id[0], id[1], id[2], id[3])
	if err != nil {
		return nil, err
	}
	g := &Rig{Svc: svc, Log: newEvLog(r), r: r, done: make(chan error, 1)}
	g.Reg = &MReg{Vendor: id[0], Product: id[1], Version: id[2], URL: id[3], Names: []string{"org.varlink.service"},
		Descs: map[string]string{}, Scripted: map[string]bool{}}
	if o.ConcurrentReg {
		gate := make(chan struct{})
		errs := make([]error, len(o.Ifaces))
		var wg sync.WaitGroup
		for i, n := range o.Ifaces {
			desc := defaultDesc(n)
			if d, ok := o.Descs[n]; ok {
				desc = d
			}
			g.Reg.Descs[n] = desc
			g.Reg.Scripted[n] = true
			wg.Add(1)
			go func(i int, n, desc string) {
				defer wg.Done()
				<-gate
				errs[i] = svc.RegisterInterface(&ScriptDisp{Name: n, Desc: desc, Log: g.Log, Hook: g.hook})
			}(i, n, desc)
		}
		close(gate)
		wg.Wait()
		for i, e := range errs {
			if e != nil {
				return nil, &probeMismatch{fmt.Sprintf("RegisterInterface(%q), one of %d distinct names registered at the same time on a service that is not serving, returned %v", o.Ifaces[i], len(o.Ifaces), e)}
			}
		}
	}
	n := atomic.AddInt64(&rigCounter, 1)
	// Every other Bind + DoListen rig registers the second half of its interfaces between Bind and DoListen: accepted
	// registrations must be listed and routable whenever they were made (seeded change C04-O: a lookup table frozen at Bind).
	var late []string
	early := o.Ifaces
	if !o.UseListen && !o.ConcurrentReg && !o.noLate && n%2 == 0 && len(o.Ifaces) > 0 {
		early, late = o.Ifaces[:len(o.Ifaces)/2], o.Ifaces[len(o.Ifaces)/2:]
	}
	register := func(n string) error {
		desc := defaultDesc(n)
		if d, ok := o.Descs[n]; ok {
			desc = d
		}
		if err := svc.RegisterInterface(&ScriptDisp{Name: n, Desc: desc, Log: g.Log, Hook: g.hook}); err != nil {
			return err
		}
		g.Reg.Names = append(g.Reg.Names, n)
		g.Reg.Descs[n] = desc
		g.Reg.Scripted[n] = true
		return nil
	}
	for _, n := range early {
		if o.ConcurrentReg {
			break
		}
		if err := register(n); err != nil {
			return nil, fmt.Errorf("register %q: %v", n, err)
		}
	}
	switch o.Transport {
	case "tcp":
		g.Addr = "tcp:127.0.0.1:0"
		g.Net = "tcp"
	case "abstract":
		name := fmt.Sprintf("@vfs-%d-%d", os.Getpid(), n)
		g.Addr = "unix:" + name
		g.Net, g.Dial = "unix", name
	default:
		g.path = filepath.Join(r.WorkDir, fmt.Sprintf("s%d", n))
		g.Addr = "unix:" + g.path
		g.Net, g.Dial = "unix", g.path
	}
	g.ctx, g.cancel = context.WithCancel(context.Background())
	if o.UseListen {
		go func() { g.done <- svc.Listen(g.ctx, g.Addr, o.Timeout) }()
	} else {
		if err := svc.Bind(g.ctx, g.Addr); err != nil {
			return nil, fmt.Errorf("bind %s: %v", g.Addr, err)
		}
		for _, n := range late {
			if err := register(n); err != nil {
				// refused between Bind and DoListen: legitimate; start over with everything registered first
				svc.Shutdown()
				g.cancel()
				o.noLate = true
				r.Count("registrations_refused_between_bind_and_serve", 1)
				return newRig(r, o)
			}
			r.Count("registrations_between_bind_and_serve", 1)
		}
		go func() { g.done <- svc.DoListen(g.ctx, o.Timeout) }()
	}
	// wait until the listener exists, learn the TCP port
	deadline := time.Now().Add(20 * time.Second)
	for {
		l, _ := svc.GetListener()
		if l != nil {
			if o.Transport == "tcp" {
				g.Dial = l.Addr().String()
				g.Addr = "tcp:" + g.Dial
			}
			break
		}
		select {
		case err := <-g.done:
			return nil, fmt.Errorf("serving call returned early: %v", err)
		default:
		}
		if time.Now().After(deadline) {
			return nil, fmt.Errorf("listener did not appear")
		}
		time.Sleep(200 * time.Microsecond)
	}
	// readiness probe
	for {
		if err := g.Probe(); err == nil {
			break
		} else if _, wrong := err.(*probeMismatch); wrong {
			g.Stop()
			return nil, err
		} else if time.Now().After(deadline) {
			return nil, fmt.Errorf("service not answering: %v", err)
		}
		time.Sleep(500 * time.Microsecond)
	}
	if o.ConcurrentReg {
		// the listing order is the service's choice; it must be a permutation of what was registered
		got, err := g.listed()
		want := map[string]int{}
		for _, n := range o.Ifaces {
			want[n]++
		}
		bad := err != nil || len(got) != len(o.Ifaces)+1 || got[0] != "org.varlink.service"
		for _, n := range got[min(1, len(got)):] {
			want[n]--
		}
		for _, c := range want {
			bad = bad || c != 0
		}
		if bad {
			g.Stop()
			return nil, &probeMismatch{fmt.Sprintf("%d distinct names were registered at the same time (all calls returned nil); GetInfo lists %q (%v)", len(o.Ifaces), got, err)}
		}
		g.Reg.Names = got
	}
	return g, nil
}

// listed returns the interface names GetInfo reports on a fresh raw connection.
func (g *Rig) listed() ([]string, error) {
	c, err := net.DialTimeout(g.Net, g.Dial, 5*time.Second)
	if err != nil {
		return nil, err
	}
	defer c.Close()
	c.SetDeadline(time.Now().Add(10 * time.Second))
	if _, err := c.Write([]byte("{\"method\":\"org.varlink.service.GetInfo\"}\x00")); err != nil {
		return nil, err
	}
	var buf []byte
	tmp := make([]byte, 4096)
	for {
		n, err := c.Read(tmp)
		buf = append(buf, tmp[:n]...)
		if i := bytes.IndexByte(buf, 0); i >= 0 {
			var rep struct {
				Parameters struct {
					Interfaces []string `json:"interfaces"`
				} `json:"parameters"`
			}
			if err := json.Unmarshal(buf[:i], &rep); err != nil {
				return nil, err
			}
			return rep.Parameters.Interfaces, nil
		}
		if err != nil {
			return nil, err
		}
	}
}

// probeMismatch: the service answered the probe, but not with its GetInfo reply.
type probeMismatch struct{ s string }

func (p *probeMismatch) Error() string { return p.s }

// rigFailure reports a rig that could not be brought up: a wrong GetInfo answer is a violation
// (a complete well-formed call not answered as specified), anything else is inconclusive.
func rigFailure(r *fw.Run, prop string, err error, c interface{}) {
	if pm, ok := err.(*probeMismatch); ok {
		r.Violation(prop+" probe-mismatch", pm.s, c)
		return
	}
	r.Inconclusive("rig: %v", err)
}

// Probe performs one GetInfo round trip on a fresh raw connection.
func (g *Rig) Probe() error {
	c, err := net.DialTimeout(g.Net, g.Dial, 5*time.Second)
	if err != nil {
		return err
	}
	defer c.Close()
	c.SetDeadline(time.Now().Add(10 * time.Second))
	if _, err := c.Write([]byte("{\"method\":\"org.varlink.service.GetInfo\"}\x00")); err != nil {
		return err
	}
	buf := make([]byte, 0, 512)
	tmp := make([]byte, 512)
	for {
		n, err := c.Read(tmp)
		buf = append(buf, tmp[:n]...)
		if i := strings.IndexByte(string(buf), 0); i >= 0 {
			var rep struct {
				Parameters struct {
					Product string `json:"product"`
				} `json:"parameters"`
			}
			if json.Unmarshal(buf[:i], &rep) != nil || rep.Parameters.Product != g.Reg.Product {
				return &probeMismatch{fmt.Sprintf("GetInfo on a fresh connection was answered with %q", buf[:i])}
			}
			return nil
		}
		if err != nil {
			return err
		}
	}
}

// Restart stops serving, registers more scripted interfaces on the SAME service object and serves it again on a
// fresh unix address (Bind + DoListen).
func (g *Rig) Restart(more []string) error {
	if _, ok := g.Stop(); !ok {
		return fmt.Errorf("serving call did not return after Shutdown")
	}
	for _, n := range more {
		desc := defaultDesc(n)
		if err := g.Svc.RegisterInterface(&ScriptDisp{Name: n, Desc: desc, Log: g.Log}); err != nil {
			return fmt.Errorf("register %q after shutdown: %v", n, err)
		}
		g.Reg.Names = append(g.Reg.Names, n)
		g.Reg.Descs[n] = desc
		g.Reg.Scripted[n] = true
	}
	n := atomic.AddInt64(&rigCounter, 1)
	g.path = filepath.Join(g.r.WorkDir, fmt.Sprintf("s%d", n))
	g.Addr, g.Net, g.Dial = "unix:"+g.path, "unix", g.path
	g.ctx, g.cancel = context.WithCancel(context.Background())
	g.done = make(chan error, 1)
	if err := g.Svc.Bind(g.ctx, g.Addr); err != nil {
		return fmt.Errorf("re-bind %s: %v", g.Addr, err)
	}
	go func() { g.done <- g.Svc.DoListen(g.ctx, 0) }()
	deadline := time.Now().Add(20 * time.Second)
	for {
		err := g.Probe()
		if err == nil {
			return nil
		}
		if _, wrong := err.(*probeMismatch); wrong || time.Now().After(deadline) {
			return err
		}
		time.Sleep(500 * time.Microsecond)
	}
}

// Stop shuts the service down and waits for the serving call to return.
// ok is false if it did not return within the bound.
func (g *Rig) Stop() (err error, ok bool) {
	g.Svc.Shutdown()
	select {
	case err = <-g.done:
		g.cancel()
		return err, true
	case <-time.After(30 * time.Second):
		g.cancel()
		return nil, false
	}
}

// WaitIdle polls the white-box counter until no accepted connection is being handled.
func (g *Rig) WaitIdle(bound time.Duration) bool {
	deadline := time.Now().Add(bound)
	if g.Svc.VerifActive() < 0 {
		// the tree under test does not expose a connection count (see overlay/varlink_whitebox_noactive.go)
		time.Sleep(30 * time.Millisecond)
		return true
	}
	for {
		if g.Svc.VerifActive() == 0 {
			return true
		}
		if time.Now().After(deadline) {
			return false
		}
		time.Sleep(200 * time.Microsecond)
	}
}

// ---- raw client --------------------------------------------------------------------------

var peerCounter int64

// dialRaw connects with a unique, known local address so that handler events can be
// attributed to the connection by the peer address the service sees.
func dialRaw(network, addr string) (net.Conn, string, error) {
	n := atomic.AddInt64(&peerCounter, 1)
	d := net.Dialer{Timeout: 10 * time.Second}
	var local string
	if network == "unix" {
		local = fmt.Sprintf("@vfc-%d-%d", os.Getpid(), n)
		d.LocalAddr = &net.UnixAddr{Name: local, Net: "unix"}
	} else {
		ip := net.IPv4(127, byte(1+(n>>16)%250), byte(n>>8), byte(n))
		d.LocalAddr = &net.TCPAddr{IP: ip}
	}
	c, err := d.Dial(network, addr)
	if err != nil {
		return nil, "", err
	}
	if network != "unix" {
		local = c.LocalAddr().String()
	}
	return c, local, nil
}

type Seg struct {
	Cuts   []int `json:"cuts,omitempty"`   // ascending offsets where a write ends (the end of data is implied)
	Pauses []int `json:"pauses,omitempty"` // per write: 0 none, 1 Gosched, n>1 sleep n microseconds
}

const (
	endHalfClose = iota // write everything, shutdown(SHUT_WR), read to EOF
	endHardClose        // write everything, close at once without reading
	endKeepOpen         // write everything, read until quiet is decided by caller (not used for EOF oracle)
)

type Exchange struct {
	Got      []byte
	EOF      bool // stream ended (EOF or connection reset)
	Reset    bool
	WriteErr error
	Stalled  bool
	Local    string
}

func isReset(err error) bool {
	return errors.Is(err, syscall.ECONNRESET) || errors.Is(err, syscall.EPIPE)
}

// rawExchange writes data under the segmentation schedule and reads the reply stream.
// rawStall: connect, write data, never read; when release is closed, close the connection.
func rawStall(h *exchangeHooks, network, addr string, data []byte, release <-chan struct{}, firstByte func()) (*Exchange, error) {
	c, local, err := dialRaw(network, addr)
	if h != nil && h.afterDial != nil {
		h.afterDial()
	}
	if err != nil {
		return nil, err
	}
	ex := &Exchange{Local: local}
	if len(data) > 0 {
		c.SetWriteDeadline(time.Now().Add(20 * time.Second))
		if _, err := c.Write(data); err != nil {
			ex.WriteErr = err
		}
		// take the first byte of whatever comes back (the service has begun to answer), then stop reading for good
		c.SetReadDeadline(time.Now().Add(10 * time.Second))
		one := make([]byte, 1)
		c.Read(one)
	}
	if firstByte != nil {
		firstByte()
	}
	<-release
	c.Close()
	return ex, nil
}

// afterDialHook, when set in a context of one round, is called by rawExchange right after the connection is established
// (used to hold many connections open at the same time before any of them sends).
type exchangeHooks struct{ afterDial func() }

func rawExchange(network, addr string, data []byte, seg Seg, end int, stall time.Duration, slowReadUS ...int) (*Exchange, error) {
	return rawExchangeH(nil, network, addr, data, seg, end, stall, slowReadUS...)
}

func rawExchangeH(h *exchangeHooks, network, addr string, data []byte, seg Seg, end int, stall time.Duration, slowReadUS ...int) (*Exchange, error) {
	c, local, err := dialRaw(network, addr)
	if h != nil && h.afterDial != nil {
		h.afterDial()
	}
	if err != nil {
		return nil, err
	}
	defer c.Close()
	ex := &Exchange{Local: local}
	rdone := make(chan struct{})
	if end != endHardClose {
		go func() {
			defer close(rdone)
			buf := make([]byte, 32768)
			for {
				c.SetReadDeadline(time.Now().Add(stall))
				n, err := c.Read(buf)
				ex.Got = append(ex.Got, buf[:n]...)
				if len(slowReadUS) > 0 && slowReadUS[0] > 0 {
					time.Sleep(time.Duration(slowReadUS[0]) * time.Microsecond)
				}
				if err != nil {
					if err == io.EOF {
						ex.EOF = true
					} else if isReset(err) {
						ex.EOF, ex.Reset = true, true
					} else if ne, ok := err.(net.Error); ok && ne.Timeout() {
						ex.Stalled = true
					} else {
						ex.EOF = true
					}
					return
				}
			}
		}()
	} else {
		close(rdone)
	}
	prev := 0
	cuts := append(append([]int{}, seg.Cuts...), len(data))
	for i, cut := range cuts {
		if cut > len(data) {
			cut = len(data)
		}
		if cut <= prev {
			continue
		}
		c.SetWriteDeadline(time.Now().Add(stall))
		if _, err := c.Write(data[prev:cut]); err != nil {
			ex.WriteErr = err
			break
		}
		prev = cut
		if i < len(seg.Pauses) {
			switch p := seg.Pauses[i]; {
			case p == 1:
				runtime.Gosched()
			case p > 1:
				time.Sleep(time.Duration(p) * time.Microsecond)
			}
		}
	}
	switch end {
	case endHalfClose:
		switch cc := c.(type) {
		case *net.UnixConn:
			cc.CloseWrite()
		case *net.TCPConn:
			cc.CloseWrite()
		}
		<-rdone
	case endHardClose:
		c.Close()
	}
	return ex, nil
}

// segFor builds one of the standard partitions of n bytes. kind: 0 one write, 1 one byte per
// write, 2 random cuts with pauses, 3 cuts at the given frame boundaries, 4 cuts around buffer sizes.
func segFor(rng interface{ Intn(int) int }, kind, n int, bounds []int) Seg {
	var s Seg
	switch kind {
	case 1:
		for i := 1; i < n; i++ {
			s.Cuts = append(s.Cuts, i)
		}
	case 2:
		k := 1 + rng.Intn(8)
		last := 0
		for i := 0; i < k && last < n-1; i++ {
			last += 1 + rng.Intn(max(1, (n-last)/2))
			if last >= n {
				break
			}
			s.Cuts = append(s.Cuts, last)
			s.Pauses = append(s.Pauses, []int{0, 1, 1, 30, 200}[rng.Intn(5)])
		}
	case 3:
		for _, b := range bounds {
			if b > 0 && b < n {
				s.Cuts = append(s.Cuts, b)
				s.Pauses = append(s.Pauses, rng.Intn(2))
			}
		}
	case 5:
		// long pauses: inside the first frame and after every frame
		if len(bounds) > 0 && bounds[0] > 2 {
			s.Cuts = append(s.Cuts, bounds[0]/2)
			s.Pauses = append(s.Pauses, 400000)
		}
		for _, b := range bounds {
			if b > 0 && b < n {
				s.Cuts = append(s.Cuts, b)
				s.Pauses = append(s.Pauses, 400000)
			}
		}
	case 4:
		for _, b := range []int{4095, 4096, 4097, 8191, 8192, 8193} {
			if b < n {
				s.Cuts = append(s.Cuts, b)
				s.Pauses = append(s.Pauses, 1)
			}
		}
	}
	return s
}
