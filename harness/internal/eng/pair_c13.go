package eng

// C13 - introspection reports exactly what was registered (engine e-pair).

import (
	"sync/atomic"
	"context"
	"encoding/json"
	"fmt"
	"math/rand"
	"path/filepath"
	"strings"
	"sync"
	"time"

	"github.com/varlink/go/varlink"

	"verif/harness/internal/fw"
)

type c13Op struct {
	Op   string `json:"op"` // register | serve | shutdown
	Name string `json:"name,omitempty"`
	Text string `json:"text,omitempty"`
	Big  int    `json:"big,omitempty"` // description of this many bytes instead of Text
	Idle bool   `json:"idle,omitempty"` // serve: with a short idle timeout; the following shutdown op waits for the timeout return instead
}

type c13Hist struct {
	Identity  [4]string `json:"identity"`
	Transport string    `json:"transport"`
	UseListen bool      `json:"use_listen"`
	Ops       []c13Op   `json:"ops"`
}

// resolverDisp answers org.varlink.resolver.GetInfo / Resolve from a snapshot of the model.
type resolverDisp struct {
	mu       sync.Mutex
	identity [4]string
	names    []string
	addrs    map[string]string
	resolves int
}

func (d *resolverDisp) VarlinkGetName() string { return "org.varlink.resolver" }
func (d *resolverDisp) VarlinkGetDescription() string {
	return "interface org.varlink.resolver\nmethod Resolve(interface: string) -> (address: string)\nmethod GetInfo() -> (vendor: string, product: string, version: string, url: string, interfaces: []string)\n"
}
func (d *resolverDisp) VarlinkDispatch(ctx context.Context, c varlink.Call, m string) error {
	d.mu.Lock()
	defer d.mu.Unlock()
	switch m {
	case "GetInfo":
		return c.Reply(ctx, map[string]interface{}{"vendor": d.identity[0], "product": d.identity[1], "version": d.identity[2], "url": d.identity[3], "interfaces": d.names})
	case "Resolve":
		d.resolves++
		var in struct {
			Interface string `json:"interface"`
		}
		if c.GetParameters(&in) != nil {
			return c.ReplyInvalidParameter(ctx, "parameters")
		}
		a, ok := d.addrs[in.Interface]
		if !ok {
			return c.ReplyError(ctx, "org.varlink.resolver.InterfaceNotFound", map[string]string{"interface": in.Interface})
		}
		return c.Reply(ctx, map[string]string{"address": a})
	}
	return c.ReplyMethodNotFound(ctx, m)
}

func c13Strings(rng *rand.Rand, jg *JGen) string {
	switch rng.Intn(8) {
	case 0:
		return ""
	case 1:
		return "Example Vendor <&>   \U0001F600"
	case 2:
		return "line1\nline2\ttab\r\n\u0000nul\u001f"
	}
	var s string
	json.Unmarshal([]byte(jg.StringLit()), &s)
	if !validUTF8(s) {
		return "fallback"
	}
	return s
}

func c13Desc(rng *rand.Rand, jg *JGen, name string) string {
	switch rng.Intn(6) {
	case 0:
		return ""
	case 1:
		return "# Doc with `backticks`, \"quotes\", <&>,  , \U0001F600 and a NUL \u0000\r\ninterface " + name + "\r\n\r\nmethod M() -> ()\r\n"
	case 2:
		return "   \n\n" + defaultDesc(name) + "\n\n\n"
	}
	return "interface " + name + "\n# " + c13Strings(rng, jg) + "\nmethod M(a: int) -> (b: string)\n"
}

func genC13(rng *rand.Rand, jg *JGen, maxOps int, big bool) *c13Hist {
	h := &c13Hist{Transport: []string{"unix", "unix", "abstract", "tcp"}[rng.Intn(4)], UseListen: rng.Intn(2) == 0}
	for i := range h.Identity {
		h.Identity[i] = c13Strings(rng, jg)
	}
	pool := []string{"a.b", "a.b.c", "com.example.one", "com.example.two", "com.example.é", "x", "org.varlink.service", "org.varlink.servic", "A.B", "a.b ", "io.systemd.Thing", "1.2.3"}
	n := 3 + rng.Intn(maxOps-2)
	serving := false
	for i := 0; i < n; i++ {
		k := rng.Intn(10)
		switch {
		case k < 5:
			nm := pool[rng.Intn(len(pool))]
			op := c13Op{Op: "register", Name: nm, Text: c13Desc(rng, jg, nm)}
			if big && rng.Intn(10) == 0 {
				op.Big = 1 << 20
			}
			h.Ops = append(h.Ops, op)
		case k < 8 && !serving:
			h.Ops = append(h.Ops, c13Op{Op: "serve", Idle: rng.Intn(4) == 0})
			serving = true
		case serving:
			h.Ops = append(h.Ops, c13Op{Op: "shutdown"})
			serving = false
		default:
			h.Ops = append(h.Ops, c13Op{Op: "serve"})
			serving = true
		}
	}
	if !serving {
		h.Ops = append(h.Ops, c13Op{Op: "serve"})
	}
	return h
}

type c13State struct {
	names []string
	descs map[string]string
}

func runC13Hist(r *fw.Run, h *c13Hist) {
	report := func(class, detail string) {
		r.Violation("C13 "+class, detail, h)
	}
	svc, err := varlink.NewService(h.Identity[0], h.Identity[1], h.Identity[2], h.Identity[3])
	if err != nil {
		report("new-service", err.Error())
		return
	}
	st := &c13State{names: []string{"org.varlink.service"}, descs: map[string]string{}}
	rd := &resolverDisp{identity: h.Identity, addrs: map[string]string{}}
	if err := svc.RegisterInterface(rd); err != nil {
		report("register-refused", fmt.Sprintf("registering org.varlink.resolver on a fresh service: %v", err))
		return
	}
	st.names = append(st.names, "org.varlink.resolver")
	st.descs["org.varlink.resolver"] = rd.VarlinkGetDescription()
	log := newEvLog(r)
	serving := false
	idleServe := false
	var keep *varlink.Connection
	var done chan error
	var addr string
	var cancel context.CancelFunc
	epoch := 0

	observe := func(when string) {
		ctx, cl := context.WithTimeout(context.Background(), 60*time.Second)
		defer cl()
		conn, err := varlink.NewConnection(ctx, addr)
		if err != nil {
			report("connect", fmt.Sprintf("%s: cannot connect to the serving service at %s: %v", when, addr, err))
			return
		}
		defer conn.Close()
		// the caller's variables hold values from an earlier call: whatever the service reports must replace them
		v, p, ver, u := "stale vendor", "stale product", "stale version", "stale url"
		ifs := []string{"stale.one", "stale.two", "stale.three", "stale.four", "stale.five", "stale.six", "stale.seven", "stale.eight"}
		keep := ifs
		if err := conn.GetInfo(ctx, &v, &p, &ver, &u, &ifs); err != nil {
			report("getinfo-failed", fmt.Sprintf("%s: %v", when, err))
			return
		}
		if [4]string{v, p, ver, u} != h.Identity {
			report("identity", fmt.Sprintf("%s: GetInfo returned %q, created with %q", when, []string{v, p, ver, u}, h.Identity[:]))
		}
		if keep[0] != "stale.one" || keep[7] != "stale.eight" {
			report("caller-slice-overwritten", fmt.Sprintf("%s: GetInfo wrote into the backing array of the slice the caller passed in: %q", when, keep))
		}
		if len(ifs) != len(st.names) || strings.Join(ifs, "\x00") != strings.Join(st.names, "\x00") {
			report("interface-list", fmt.Sprintf("%s: GetInfo lists %q, registration order is %q", when, ifs, st.names))
		}
		// nil out-pointers must be accepted
		if err := conn.GetInfo(ctx, nil, nil, nil, nil, nil); err != nil {
			report("getinfo-failed", fmt.Sprintf("%s: GetInfo with nil out-pointers: %v", when, err))
		}
		for _, n := range st.names {
			d, err := conn.GetInterfaceDescription(ctx, n)
			if err != nil {
				report("description-failed", fmt.Sprintf("%s: GetInterfaceDescription(%q): %v", when, n, err))
				continue
			}
			if n == "org.varlink.service" {
				if !strings.Contains(d, "interface org.varlink.service") {
					report("description-changed", fmt.Sprintf("%s: description of org.varlink.service: %q", when, clip(d, 100)))
				}
				continue
			}
			if d != st.descs[n] {
				report("description-changed", fmt.Sprintf("%s: GetInterfaceDescription(%q) returned %q, registered %q", when, n, clip(d, 200), clip(st.descs[n], 200)))
			}
			r.Count("descriptions_compared", 1)
		}
		known := map[string]bool{}
		for _, n := range st.names {
			known[n] = true
		}
		for _, n := range st.names {
			for _, nm := range []string{n + "x", n[:len(n)-1], strings.ToUpper(n), n + ".", "." + n, " " + n, ""} {
				if known[nm] {
					continue
				}
				_, err := conn.GetInterfaceDescription(ctx, nm)
				ip, ok := err.(*varlink.InvalidParameter)
				if !ok || ip.Parameter != "interface" {
					report("unknown-name-description", fmt.Sprintf("%s: GetInterfaceDescription(%q) for an unregistered name returned %T %v, expected InvalidParameter(interface)", when, nm, err, err))
				}
				r.Count("near_miss_names", 1)
			}
		}
		// the resolver helpers against a dispatcher answering from the same model
		rd.mu.Lock()
		rd.names = append([]string{}, st.names...)
		rd.addrs = map[string]string{}
		for i, n := range st.names {
			rd.addrs[n] = fmt.Sprintf("unix:/run/%d/%s;mode=0600", i, n)
		}
		before := rd.resolves
		rd.mu.Unlock()
		rs, err := varlink.NewResolver(ctx, addr)
		if err != nil {
			report("resolver-connect", fmt.Sprintf("%s: %v", when, err))
			return
		}
		defer rs.Close()
		rv, rp, rver, ru := "stale vendor", "stale product", "stale version", "stale url"
		rifs := []string{"stale"}
		if err := rs.GetInfo(ctx, &rv, &rp, &rver, &ru, &rifs); err != nil {
			report("resolver-getinfo-failed", fmt.Sprintf("%s: %v", when, err))
		} else if [4]string{rv, rp, rver, ru} != h.Identity || strings.Join(rifs, "\x00") != strings.Join(st.names, "\x00") {
			report("resolver-getinfo", fmt.Sprintf("%s: Resolver.GetInfo returned %q %q, the resolver answered %q %q", when, []string{rv, rp, rver, ru}, rifs, h.Identity[:], st.names))
		}
		if err := rs.GetInfo(ctx, nil, nil, nil, nil, nil); err != nil {
			report("resolver-getinfo-failed", fmt.Sprintf("%s: nil out-pointers: %v", when, err))
		}
		own, err := rs.Resolve(ctx, "org.varlink.resolver")
		if err != nil || own != addr {
			report("resolver-own-address", fmt.Sprintf("%s: Resolve(org.varlink.resolver) = %q, %v; expected the resolver's own address %q", when, own, err, addr))
		}
		rd.mu.Lock()
		if rd.resolves != before {
			report("resolver-own-address", fmt.Sprintf("%s: Resolve(org.varlink.resolver) made a call to the resolver", when))
		}
		rd.mu.Unlock()
		for i, n := range st.names {
			if n == "org.varlink.resolver" {
				continue
			}
			a, err := rs.Resolve(ctx, n)
			want := fmt.Sprintf("unix:/run/%d/%s;mode=0600", i, n)
			if err != nil || a != want {
				report("resolver-resolve", fmt.Sprintf("%s: Resolve(%q) = %q, %v; the resolver answered %q", when, n, a, err, want))
			}
			r.Count("resolver_calls", 1)
		}
		if _, err := rs.Resolve(ctx, "not.registered.anywhere"); err == nil {
			report("resolver-resolve", fmt.Sprintf("%s: Resolve of an unknown name succeeded", when))
		}
		r.Count("observations", 1)
	}

	for i, op := range h.Ops {
		when := fmt.Sprintf("after op %d (%s %s)", i, op.Op, op.Name)
		switch op.Op {
		case "register":
			text := op.Text
			if op.Big > 0 {
				text = "interface " + op.Name + "\n# " + strings.Repeat("0123456789abcdef", op.Big/16) + "\nmethod M() -> ()\n"
			}
			err := svc.RegisterInterface(&ScriptDisp{Name: op.Name, Desc: text, Log: log})
			dup := false
			for _, n := range st.names {
				if n == op.Name {
					dup = true
				}
			}
			wantRefused := dup || serving
			r.Count("registrations", 1)
			if wantRefused {
				r.Count("refusals_expected", 1)
				if err == nil {
					report("registration-not-refused", fmt.Sprintf("%s: RegisterInterface(%q) returned nil (duplicate=%v, serving=%v)", when, op.Name, dup, serving))
					// the model follows the library so later observations are about consistency
					if !dup {
						st.names = append(st.names, op.Name)
					}
					st.descs[op.Name] = text
				}
			} else {
				if err != nil {
					report("registration-refused", fmt.Sprintf("%s: RegisterInterface(%q) returned %v for a new name on a service that is not serving", when, op.Name, err))
				} else {
					st.names = append(st.names, op.Name)
					st.descs[op.Name] = text
				}
			}
		case "serve":
			if serving {
				continue
			}
			epoch++
			var ctx context.Context
			ctx, cancel = context.WithCancel(context.Background())
			switch h.Transport {
			case "tcp":
				addr = "tcp:127.0.0.1:0"
			case "abstract":
				addr = fmt.Sprintf("unix:@vf13-%d-%d", r.Seq(), epoch)
			default:
				addr = "unix:" + filepath.Join(r.WorkDir, fmt.Sprintf("i%d", r.Seq()))
			}
			done = make(chan error, 1)
			idleTimeout := time.Duration(0)
			idleServe = op.Idle
			if op.Idle {
				idleTimeout = 60 * time.Millisecond
			}
			if h.UseListen {
				go func(a string) { done <- svc.Listen(ctx, a, idleTimeout) }(addr)
			} else {
				if err := svc.Bind(ctx, addr); err != nil {
					report("bind-failed", fmt.Sprintf("%s: Bind(%q): %v", when, addr, err))
					cancel()
					return
				}
				go func() { done <- svc.DoListen(ctx, idleTimeout) }()
			}
			// wait for the listener, learn the port
			dl := time.Now().Add(20 * time.Second)
			for {
				l, _ := svc.GetListener()
				if l != nil {
					if h.Transport == "tcp" {
						addr = "tcp:" + l.Addr().String()
					}
					break
				}
				if time.Now().After(dl) {
					r.Inconclusive("listener did not appear")
					cancel()
					return
				}
				time.Sleep(200 * time.Microsecond)
			}
			// a completed round trip proves that the service is serving
			ok := false
			for time.Now().Before(dl) {
				cctx, cl := context.WithTimeout(context.Background(), 5*time.Second)
				c, err := varlink.NewConnection(cctx, addr)
				if err == nil {
					err = c.GetInfo(cctx, nil, nil, nil, nil, nil)
					if err == nil && idleServe {
						keep = c // held open until the idle period is meant to begin, so the service cannot time out in between
					} else {
						c.Close()
					}
				}
				cl()
				if err == nil {
					ok = true
					break
				}
				time.Sleep(300 * time.Microsecond)
			}
			if !ok && idleServe {
				select {
				case e := <-done:
					if _, isTo := e.(varlink.ServiceTimeoutError); isTo {
						// the machine was too slow to connect within the idle period: the service is simply not serving any more
						r.Count("idle_serve_expired_before_first_client", 1)
						cancel()
						continue
					}
					done <- e
				default:
				}
			}
			if !ok {
				report("not-serving", fmt.Sprintf("%s: no GetInfo round trip succeeded within 20 s", when))
				cancel()
				return
			}
			serving = true
		case "shutdown":
			if !serving {
				continue
			}
			if idleServe {
				// no client is connected any more: the serving call ends by its idle timeout
				if keep != nil {
					keep.Close()
					keep = nil
				}
				select {
				case e := <-done:
					if _, isTo := e.(varlink.ServiceTimeoutError); !isTo {
						report("idle-serve-return", fmt.Sprintf("%s: serving with an idle timeout returned %v", when, e))
					}
					r.Count("serve_periods_ended_by_idle_timeout", 1)
				case <-time.After(30 * time.Second):
					report("no-return-after-idle", fmt.Sprintf("%s: serving with a 60 ms idle timeout did not stop within 30 s although no client is connected", when))
					svc.Shutdown()
					cancel()
					return
				}
				cancel()
				serving = false
				continue
			}
			svc.Shutdown()
			select {
			case <-done:
			case <-time.After(30 * time.Second):
				report("no-return-after-shutdown", when)
				cancel()
				return
			}
			cancel()
			serving = false
		}
		if serving {
			observe(when)
		}
	}
	if keep != nil {
		keep.Close()
	}
	if serving {
		svc.Shutdown()
		select {
		case <-done:
		case <-time.After(30 * time.Second):
			report("no-return-after-shutdown", "end of history")
		}
		cancel()
	}
}

func runC13(r *fw.Run) {
	n := r.Pick(600, 10000)
	maxOps := r.Pick(12, 40)
	workers := 8
	hists := make([]*c13Hist, n)
	rng := rand.New(rand.NewSource(r.Seed*29 + 13))
	jg := &JGen{R: rng}
	for i := range hists {
		hists[i] = genC13(rng, jg, maxOps, r.Thorough || i%40 == 0)
	}
	fw.Parallel(workers, n, func(w, i int) {
		h := hists[i]
		r.Journal(w, h)
		if p := catch(func() { runC13Hist(r, h) }); p != "" {
			r.Violation("C13 panic", p, h)
		}
		r.Done(w)
		b, _ := json.Marshal(h)
		r.Case(fw.HashBytes(b), true)
		r.Count("operations", int64(len(h.Ops)))
		if i%30 == 0 {
			r.Sample(h)
		}
	})
	for k := 0; k < r.Pick(20, 300) && r.ViolationCount() <= 12; k++ {
		r.Journal(0, map[string]interface{}{"what": "overlapping registrations", "k": k})
		c13RacingRegistrations(r, k)
		r.Done(0)
	}
	// the same name registered from 2 .. 8 goroutines released at the same instant, on a fresh service each time: in any
	// order of the calls exactly one of them is the first, so exactly one may return nil (seeded change C13-P: the check and
	// the insert in two critical sections). Under the failpoint pass the window between the two is held open.
	for k := 0; k < r.Pick(600, 6000) && r.ViolationCount() <= 12; k++ {
		svc, err := varlink.NewService("Verif", "Instant", "1", "u")
		if err != nil {
			break
		}
		n := 2 + k%7
		name := fmt.Sprintf("org.example.instant%d", k)
		if k%4 == 0 {
			r.StepFP()
		}
		var gate int32 // a spinning barrier: the calls begin within nanoseconds of each other
		errs := make([]error, n)
		var wg sync.WaitGroup
		for i := 0; i < n; i++ {
			wg.Add(1)
			go func(i int) {
				defer wg.Done()
				d := &ScriptDisp{Name: name, Desc: defaultDesc(name)}
				atomic.AddInt32(&gate, 1)
				for spin := 0; atomic.LoadInt32(&gate) < int32(n) && spin < 2000000; spin++ {
				}
				errs[i] = svc.RegisterInterface(d)
			}(i)
		}
		wg.Wait()
		okN := 0
		for _, e := range errs {
			if e == nil {
				okN++
			}
		}
		if okN != 1 {
			r.Violation("C13 registration-not-refused", fmt.Sprintf("%d goroutines registered the name %q at the same instant on a service that is not serving: %d of the calls returned nil (exactly one of them can have been the first)", n, name, okN),
				map[string]interface{}{"what": "same name registered at the same instant", "goroutines": n})
		}
		r.Count("same_instant_duplicate_rounds", 1)
	}
}

// c13RacingRegistrations: registrations whose VarlinkGetDescription (user code the library calls from RegisterInterface)
// takes its time, so that two registrations of one name, or a registration and the start of serving, overlap. Whatever
// the interleaving: a name is listed at most once, RegisterInterface returns nil for exactly the listed registrations, and
// what a listening service reports does not change.
func c13RacingRegistrations(r *fw.Run, k int) {
	cse := map[string]interface{}{"what": "overlapping registrations", "k": k}
	svc, err := varlink.NewService("Verif", "Racing", "1", "u")
	if err != nil {
		return
	}
	log := newEvLog(r)
	// (a) two registrations of the same name meet inside VarlinkGetDescription (or pass each other after 20 ms)
	var inside int32
	meet := func() {
		atomic.AddInt32(&inside, 1)
		for dl := time.Now().Add(20 * time.Millisecond); atomic.LoadInt32(&inside) < 2 && time.Now().Before(dl); {
			time.Sleep(50 * time.Microsecond)
		}
	}
	name := fmt.Sprintf("org.example.twice%d", k)
	errs := make([]error, 2)
	var wg sync.WaitGroup
	for i := 0; i < 2; i++ {
		wg.Add(1)
		go func(i int) {
			defer wg.Done()
			errs[i] = svc.RegisterInterface(&ScriptDisp{Name: name, Desc: defaultDesc(name) + fmt.Sprintf("# copy %d\n", i), Log: log, DescHook: meet})
		}(i)
	}
	wg.Wait()
	okN := 0
	for _, e := range errs {
		if e == nil {
			okN++
		}
	}
	// (b) a registration that is inside VarlinkGetDescription while serving starts
	p := filepath.Join(r.WorkDir, fmt.Sprintf("rr%d", r.Seq()))
	addr := "unix:" + p
	late := fmt.Sprintf("org.example.late%d", k)
	started := make(chan struct{})
	lateErr := make(chan error, 1)
	go func() {
		lateErr <- svc.RegisterInterface(&ScriptDisp{Name: late, Desc: defaultDesc(late), Log: log, DescHook: func() {
			close(started)
			time.Sleep(time.Duration(5+k%4*10) * time.Millisecond)
		}})
	}()
	select {
	case <-started:
	case <-time.After(5 * time.Second):
	}
	ctx, cancel := context.WithCancel(context.Background())
	defer cancel()
	done := make(chan error, 1)
	go func() { done <- svc.Listen(ctx, addr, 0) }()
	info := func() ([]string, error) {
		var last error
		for try := 0; try < 2000; try++ {
			cctx, ccl := context.WithTimeout(context.Background(), 5*time.Second)
			conn, err := varlink.NewConnection(cctx, addr)
			if err == nil {
				var names []string
				err = conn.GetInfo(cctx, nil, nil, nil, nil, &names)
				conn.Close()
				ccl()
				if err == nil {
					return names, nil
				}
			} else {
				ccl()
			}
			last = err
			time.Sleep(500 * time.Microsecond)
		}
		return nil, last
	}
	first, err1 := info()
	lerr := <-lateErr
	second, err2 := info()
	svc.Shutdown()
	select {
	case <-done:
	case <-time.After(20 * time.Second):
	}
	if err1 != nil || err2 != nil {
		r.Inconclusive("racing registrations: GetInfo failed: %v %v", err1, err2)
		return
	}
	count := func(l []string, n string) int {
		c := 0
		for _, x := range l {
			if x == n {
				c++
			}
		}
		return c
	}
	if c := count(second, name); c != 1 || okN != 1 {
		r.Violation("C13 registration-not-refused", fmt.Sprintf("two overlapping RegisterInterface calls for %q returned %v and %v; GetInfo lists the name %d time(s) (%q) - exactly one must succeed and the name be listed once", name, errs[0], errs[1], c, second), cse)
	}
	if strings.Join(first, "\x00") != strings.Join(second, "\x00") {
		r.Violation("C13 interface-list", fmt.Sprintf("what a listening service reports changed: GetInfo listed %q, then - after a RegisterInterface call that had begun before serving started returned %v - %q", first, lerr, second), cse)
	}
	if (lerr == nil) != (count(second, late) == 1) {
		r.Violation("C13 registration-not-refused", fmt.Sprintf("RegisterInterface(%q), begun before serving started, returned %v, but GetInfo lists the name %d time(s)", late, lerr, count(second, late)), cse)
	}
	r.Count("racing_registration_runs", 1)
	r.Case(fw.Hash("racing-reg", fmt.Sprint(k%4)), true)
}

func replayC13(r *fw.Run, raw json.RawMessage) {
	var h c13Hist
	if json.Unmarshal(raw, &h) != nil || len(h.Ops) == 0 {
		return
	}
	runC13Hist(r, &h)
	r.Case(1, true)
	r.Case(2, true)
}

func init() {
	fw.Register(&fw.Engine{
		ID: "C13", Level: "exploration",
		Rule: "a case = a history on one Service object: identity strings (empty, controls incl. NUL, <&>, U+2028, non-BMP, generated hostile strings) and a sequence of 3..12 (thorough 40) operations over {register(name, description text), start serving (Listen or Bind+DoListen; unix, abstract, TCP), shutdown + wait, serve again}; names collide on purpose (duplicates, org.varlink.service itself, near-misses), descriptions are arbitrary Unicode incl. empty, CRLF, backticks, 1 MiB. After every operation performed while serving, a real client observes and the result is compared with a 20-line model (names in registration order, descriptions, serving flag): RegisterInterface refused exactly when duplicate or serving and then leaves everything unchanged; Connection.GetInfo field for field (also with nil out-pointers); GetInterfaceDescription(n) byte for byte for every listed n and InvalidParameter(interface) for 7 near-misses of every name; Resolver.GetInfo / Resolve against a dispatcher registered as org.varlink.resolver that answers from the same model, Resolve(org.varlink.resolver) answered locally without a call. Register-while-serving is issued only after a completed round trip. distinct by hash of the history. A quarter of the serve periods run with a 60 ms idle timeout and end by ServiceTimeoutError once the harness closes its keep-alive connection; the out-variables passed to GetInfo hold stale values. Registrations whose VarlinkGetDescription takes its time: two of one name meeting inside it, and one that is inside it while serving starts - a name is listed at most once, nil is returned for exactly the listed registrations, a listening service's GetInfo does not change.",
		Assumptions: []string{"interface names are non-empty (an empty name cannot be described; outside the statement)", "identity strings and descriptions are valid UTF-8"},
		Run:         runC13, Replay: replayC13, CrashIsViolation: true, MinEvals: 50,
		QuickTimeout: 15 * time.Minute, ThoroughTimeout: 60 * time.Minute,
	})
}
