package eng

// C15 - the idle timeout fires only when idle, and then always (engine e-life).
// (A) controlled listener with a virtual deadline: the harness, not the clock, decides when an
// armed deadline expires. (B) real clock, one-sided margins.

import (
	"context"
	"encoding/json"
	"fmt"
	"net"
	"os"
	"path/filepath"
	"strings"
	"sync"
	"time"

	"github.com/varlink/go/varlink"

	"verif/harness/internal/fw"
)

type c15Hist struct {
	Steps      []string `json:"steps"`
	NoTimeout  bool     `json:"no_timeout"` // serve with timeout 0: must never arm, never stop by itself
	Socketpair bool     `json:"socketpair"`
	Reuse      bool     `json:"reuse"` // afterwards serve the same object once more, untimed after timed and vice versa
	// Prelude: before the history, the same object serves a first period that is ended by Shutdown while two
	// connections are still open (they drain afterwards)
	Prelude bool `json:"prelude"`
}

func runC15Hist(r *fw.Run, h *c15Hist) []string {
	lr := &lifeRun{r: r, h: &c14Hist{Socketpair: h.Socketpair}, noDeadline: h.NoTimeout}
	svc, err := varlink.NewService("Verif", "Idle", "1", "u")
	if err != nil {
		return []string{"new-service\x00" + err.Error()}
	}
	lr.svc = svc
	log := newEvLog(r)
	svc.RegisterInterface(&ScriptDisp{Name: "org.example.script", Desc: defaultDesc("org.example.script"), Log: log})
	if h.Prelude {
		L0 := newCtlListener(r)
		svc.VerifSetListener(L0)
		ctx0, cancel0 := context.WithCancel(context.Background())
		done0 := make(chan error, 1)
		go func() { done0 <- svc.DoListen(ctx0, 0) }()
		lr0 := &lifeRun{r: r, h: &c14Hist{Socketpair: h.Socketpair}, svc: svc, L: L0}
		if L0.WaitParked(lifeBound) {
			var cs []*CtlConn
			for k := 0; k < 2; k++ {
				if c := lr0.connect(true); c != nil {
					roundTrip(c.client, lifeBound)
					cs = append(cs, c)
				}
			}
			svc.Shutdown()
			time.Sleep(500 * time.Microsecond)
			for _, c := range cs {
				c.client.Close()
				lr0.waitClosed(c, "client closed it after Shutdown")
			}
		}
		select {
		case <-done0:
		case <-time.After(20 * time.Second):
			L0.Close()
		}
		cancel0()
		if len(lr0.viol) > 0 {
			return lr0.viol
		}
	}
	L := newCtlListener(r)
	lr.L = L
	svc.VerifSetListener(L)
	lr.ctx, lr.cancel = context.WithCancel(context.Background())
	defer lr.cancel()
	to := 50 * time.Millisecond // the value is irrelevant: the controlled listener ignores the clock
	if h.NoTimeout {
		to = 0
	}
	lr.done = make(chan error, 1)
	go func() {
		err := svc.DoListen(lr.ctx, to)
		L.Rec("serve-return", fmt.Sprint(err))
		lr.done <- err
	}()
	if !L.WaitParked(lifeBound) {
		r.Inconclusive("accept loop did not reach Accept")
		L.Close()
		return nil
	}
	stopped := false
	cancelled := false

	// idleExpiry: no connection is open; the next expiry must stop the service with the timeout error
	idleExpiry := func() {
		dl := time.Now().Add(lifeBound)
		if svc.VerifActive() < 0 {
			time.Sleep(50 * time.Millisecond) // no count to wait for (overlay/varlink_whitebox_noactive.go): give the handlers time to finish
		}
		for svc.VerifActive() > 0 {
			if time.Now().After(dl) {
				lr.fail("active-count", "every connection has been closed by the service but the active count stays at %d", svc.VerifActive())
				return
			}
			time.Sleep(30 * time.Microsecond)
		}
		if !L.WaitParked(lifeBound) {
			lr.fail("accept-not-reached", "accept loop is not waiting in Accept")
			return
		}
		// nothing is open: the loop must be waiting in Accept with a deadline armed (a design that arms it when the last
		// connection ends may do so a moment after the count reached zero)
		L.waitUntil(lifeBound, func() bool { return L.armed && L.parked })
		st := L.State()
		if !st.armed {
			lr.fail("accept-unarmed", "the service was started with an idle timeout; no connection is open, but %v after the last one ended the loop waits in Accept without a deadline: it can never time out", lifeBound)
			return
		}
		enters := st.enters
		L.InjectExpiry()
		r.Count("expiries_injected_idle", 1)
		select {
		case err := <-lr.done:
			stopped = true
			if _, ok := err.(varlink.ServiceTimeoutError); !ok {
				lr.fail("wrong-timeout-error", "idle expiry: the serving call returned %T %v, expected ServiceTimeoutError", err, err)
			}
			if L.State().closeCalls == 0 {
				lr.fail("timeout-did-not-release-listener", "the serving call ended with ServiceTimeoutError but Close was never called on the listener: the endpoint stays bound")
			}
		case <-time.After(lifeBound):
			if L.State().enters > enters {
				lr.fail("idle-expiry-ignored", "expiry with no connection open and active count 0: the loop went back into Accept instead of stopping")
			} else {
				lr.fail("idle-expiry-ignored", "expiry with no connection open: the serving call did not return within %v", lifeBound)
			}
		}
	}
	// busyExpiry: a connection is verifiably open; the expiry must not stop the service
	busyExpiry := func() {
		c := lr.open[len(lr.open)-1]
		if err := roundTrip(c.client, lifeBound); err != nil {
			lr.fail("accepted-connection-not-served", "connection %d is open, a call on it failed: %v", c.id, err)
			return
		}
		if !L.WaitParked(lifeBound) {
			lr.fail("accept-not-reached", "accept loop is not waiting in Accept")
			return
		}
		st := L.State()
		if !st.armed {
			// no deadline while a connection is open: nothing can expire now. That is a possible design (the deadline is armed
			// when the last connection ends); whether it is armed when it matters is judged at the idle expiry
			r.Count("busy_accepts_without_deadline", 1)
			return
		}
		enters := st.enters
		L.InjectExpiry()
		r.Count("expiries_injected_open", 1)
		ok := L.waitUntil(lifeBound, func() bool { return L.enters > enters && L.parked })
		select {
		case err := <-lr.done:
			lr.done <- err
			stopped = true
			lr.fail("stopped-while-connection-open", "an expiry while connection %d was open ended serving (%v)", c.id, err)
			return
		default:
		}
		if !ok {
			lr.fail("stopped-while-connection-open", "after an expiry while connection %d was open the loop did not go back into Accept within %v", c.id, lifeBound)
			stopped = true
			return
		}
		if !L.State().armed {
			r.Count("busy_accepts_without_deadline", 1) // judged at the idle expiry, see above
		}
		// the open connection is still served
		if err := roundTrip(c.client, lifeBound); err != nil {
			lr.fail("accepted-connection-not-served", "after an expiry the open connection %d no longer answers: %v", c.id, err)
		}
		r.Count("rearm_checks", 1)
	}

	for _, s := range h.Steps {
		if stopped || len(lr.viol) > 0 {
			break
		}
		if s != "expiry" {
			lr.step(s, &cancelled)
			continue
		}
		if h.NoTimeout {
			continue
		}
		if len(lr.open) > 0 {
			busyExpiry()
		} else {
			idleExpiry()
		}
	}
	if len(lr.viol) == 0 && !stopped {
		for _, c := range append([]*CtlConn{}, lr.open...) {
			c.client.Close()
			lr.waitClosed(c, "client closed it")
			lr.dropOpen(c)
		}
		if h.NoTimeout {
			// never armed, never stops by itself
			L.mu.Lock()
			ever := L.everArmed
			L.mu.Unlock()
			if ever {
				lr.fail("armed-without-timeout", "started with timeout 0 but the service armed a listener deadline")
			}
			select {
			case err := <-lr.done:
				lr.done <- err
				lr.fail("stopped-without-timeout", "started with timeout 0 but the serving call returned %v by itself", err)
			case <-time.After(2 * time.Millisecond):
			}
			svc.Shutdown()
			select {
			case err := <-lr.done:
				if err != nil {
					lr.fail("serve-returned-error", "after Shutdown the serving call returned %v", err)
				}
			case <-time.After(20 * time.Second):
				lr.fail("serve-never-returns", "no return within 20 s after Shutdown")
			}
			stopped = true
		} else if len(lr.viol) == 0 {
			idleExpiry()
		}
	}
	if !stopped {
		L.Close()
		svc.Shutdown()
	}
	for _, c := range lr.conns {
		c.client.Close()
	}
	if stopped && len(lr.viol) == 0 && h.Reuse {
		// the same object served again the other way round: untimed after timed must never arm a deadline,
		// timed after untimed must arm one before every Accept
		L2 := newCtlListener(r)
		svc.VerifSetListener(L2)
		ctx2, cancel2 := context.WithCancel(context.Background())
		defer cancel2()
		to2 := time.Duration(0)
		if h.NoTimeout {
			to2 = 50 * time.Millisecond
		}
		done2 := make(chan error, 1)
		go func() { done2 <- svc.DoListen(ctx2, to2) }()
		if L2.WaitParked(lifeBound) {
			// one connection comes and goes, so that the loop iterates
			lr2 := &lifeRun{r: r, h: &c14Hist{Socketpair: h.Socketpair}, svc: svc, L: L2}
			if c := lr2.connect(true); c != nil {
				if err := roundTrip(c.client, lifeBound); err != nil {
					lr.fail("accepted-connection-not-served", "second serving period of the same object: %v", err)
				}
				c.client.Close()
				lr2.waitClosed(c, "client closed it")
			}
			L2.WaitParked(lifeBound)
			if to2 != 0 {
				// nothing is open any more: the loop must (soon) wait in Accept with a deadline armed
				L2.waitUntil(lifeBound, func() bool { return L2.armed && L2.parked })
			}
			L2.mu.Lock()
			ever, armed := L2.everArmed, L2.armed
			L2.mu.Unlock()
			if to2 == 0 && ever {
				lr.fail("armed-without-timeout", "the same service object was first served with an idle timeout and then without one: the second serving call armed a listener deadline (it would stop by itself)")
			}
			if to2 != 0 && !armed {
				lr.fail("accept-unarmed", "the same service object was first served without a timeout and then with one: with no connection open the second serving call waits in Accept without an armed deadline")
			}
			select {
			case e := <-done2:
				done2 <- e
				lr.fail("stopped-without-timeout", "second serving period of the same object returned %v by itself", e)
			case <-time.After(2 * time.Millisecond):
			}
			lr.viol = append(lr.viol, lr2.viol...)
			r.Count("reuse_checks", 1)
		}
		svc.Shutdown()
		select {
		case <-done2:
		case <-time.After(20 * time.Second):
			lr.fail("serve-never-returns", "second serving period: no return within 20 s after Shutdown")
			L2.Close()
		}
	}
	return lr.viol
}

func c15Enumerate(maxLen int, alpha []string) [][]string {
	var out [][]string
	var rec func(cur []string, open, total int)
	rec = func(cur []string, open, total int) {
		if len(cur) > 0 {
			out = append(out, append([]string{}, cur...))
		}
		if len(cur) == maxLen {
			return
		}
		for _, s := range alpha {
			o, t := open, total
			switch s {
			case "connect":
				if total >= 3 {
					continue
				}
				o++
				t++
			case "call":
				if open == 0 {
					continue
				}
			case "ccsd":
				if total >= 3 {
					continue
				}
				t++
			case "close", "abort", "fail", "junk":
				if open == 0 {
					continue
				}
				o--
			case "expiry":
				if open == 0 {
					// an idle expiry ends the history
					out = append(out, append(append([]string{}, cur...), s))
					continue
				}
			}
			rec(append(cur, s), o, t)
		}
	}
	rec(nil, 0, 0)
	return out
}

func runC15(r *fw.Run) {
	hs := c15Enumerate(r.Pick(5, 10), []string{"connect", "call", "close", "abort", "expiry"})
	// connections that the service itself ends (a handler that fails, a frame that is not a call) count as ended too
	seenH := map[string]bool{}
	for _, h := range hs {
		seenH[strings.Join(h, " ")] = true
	}
	for _, h := range c15Enumerate(r.Pick(5, 7), []string{"connect", "call", "close", "fail", "junk", "ccsd", "expiry"}) {
		if !seenH[strings.Join(h, " ")] {
			hs = append(hs, h)
		}
	}
	var hists []*c15Hist
	for i, s := range hs {
		hists = append(hists, &c15Hist{Steps: s, Socketpair: i%3 == 0, Reuse: i%4 == 0, Prelude: i%6 == 1})
		if i%5 == 0 {
			hists = append(hists, &c15Hist{Steps: s, NoTimeout: true, Socketpair: i%2 == 0, Reuse: i%10 == 0})
		}
	}
	r.Count("exhaustive_history_len", int64(r.Pick(5, 10)))
	fw.Parallel(16, len(hists), func(w, i int) {
		h := hists[i]
		if r.ViolationCount() > 12 {
			return
		}
		r.Journal(w, h)
		var viol []string
		t0 := time.Now()
		defer func() {
			if d := time.Since(t0); d > 3*time.Second {
				r.Note("slow history (%.1fs): %v no_timeout=%v reuse=%v prelude=%v", d.Seconds(), h.Steps, h.NoTimeout, h.Reuse, h.Prelude)
			}
		}()
		if p := catch(func() { viol = runC15Hist(r, h) }); p != "" {
			viol = append(viol, "panic\x00"+p)
		}
		r.Done(w)
		for _, v := range viol {
			parts := strings.SplitN(v, "\x00", 2)
			r.Violation("C15 "+parts[0], fmt.Sprintf("history %v (no_timeout=%v socketpair=%v): %s", h.Steps, h.NoTimeout, h.Socketpair, parts[1]), h)
		}
		b, _ := json.Marshal(h)
		r.Case(fw.HashBytes(b), len(h.Steps) > 1)
		r.Count("histories", 1)
		if i%300 == 0 {
			r.Sample(h)
		}
	})
	// (B) real clock
	n := r.Pick(1, 12)
	for k := 0; k < n; k++ {
		for _, cf := range []struct {
			tr     string
			listen bool
		}{{"unix", true}, {"tcp", false}, {"unix", false}, {"tcp", true}} {
			c15Real(r, cf.tr, cf.listen)
			c15RealLate(r, cf.tr, cf.listen, "")
			c15RealLate(r, cf.tr, cf.listen, []string{"early", "far"}[k%2])
			c15Bystanders(r, cf.tr, cf.listen)
		}
	}
}

type c15RealCase struct {
	Real      bool   `json:"real"`
	Transport string `json:"transport"`
	Listen    bool   `json:"listen"`
	// CtxDeadline: "" (serving context without deadline) | early (its deadline passes 0.85 T after the start, i.e. inside
	// the idle period that the late connection starts) | far (100 T)
	CtxDeadline string `json:"ctx_deadline,omitempty"`
}

func c15Real(r *fw.Run, transport string, useListen bool) {
	const T = 150 * time.Millisecond
	cse := &c15RealCase{Real: true, Transport: transport, Listen: useListen}
	viol := func(class, format string, a ...interface{}) {
		r.Violation("C15 "+class, fmt.Sprintf("real clock (%s, listen=%v, T=%v): ", transport, useListen, T)+fmt.Sprintf(format, a...), cse)
	}
	svc, err := varlink.NewService("Verif", "IdleReal", "1", "u")
	if err != nil {
		return
	}
	var network, dial, addr string
	if transport == "tcp" {
		l, err := net.Listen("tcp", "127.0.0.1:0")
		if err != nil {
			r.Inconclusive("no tcp port: %v", err)
			return
		}
		dial = l.Addr().String()
		l.Close()
		network, addr = "tcp", "tcp:"+dial
	} else {
		dial = filepath.Join(r.WorkDir, fmt.Sprintf("idle-%d", r.Seq()))
		network, addr = "unix", "unix:"+dial
	}
	ctx, cancel := context.WithCancel(context.Background())
	defer cancel()
	done := make(chan error, 1)
	if useListen {
		go func() { done <- svc.Listen(ctx, addr, T) }()
	} else {
		if err := svc.Bind(ctx, addr); err != nil {
			r.Inconclusive("bind %s: %v", addr, err)
			return
		}
		go func() { done <- svc.DoListen(ctx, T) }()
	}
	// connection 1: connect as soon as possible and keep it open
	var c1 net.Conn
	dl := time.Now().Add(20 * time.Second)
	for time.Now().Before(dl) {
		c, err := net.DialTimeout(network, dial, time.Second)
		if err == nil {
			if roundTrip(c, 5*time.Second) == nil {
				c1 = c
				break
			}
			c.Close()
		}
		select {
		case e := <-done:
			// the machine was too slow to connect within the first idle period: no verdict
			r.Inconclusive("service timed out (%v) before the first client could connect", e)
			return
		default:
		}
		time.Sleep(200 * time.Microsecond)
	}
	if c1 == nil {
		r.Inconclusive("could not connect the first client")
		svc.Shutdown()
		return
	}
	// while connection 1 stays open across more than 2 periods, a second client must be served
	time.Sleep(2*T + T/2)
	select {
	case e := <-done:
		done <- e
		viol("stopped-while-connection-open", "the serving call returned %v although a connection has been open all the time", e)
		c1.Close()
		return
	default:
	}
	c2, err := net.DialTimeout(network, dial, 5*time.Second)
	if err != nil {
		viol("stopped-while-connection-open", "connection 1 has been open for 2.5 periods; a second client can no longer connect: %v", err)
		c1.Close()
		svc.Shutdown()
		return
	}
	if err := roundTrip(c2, 10*time.Second); err != nil {
		viol("stopped-while-connection-open", "connection 1 has been open for 2.5 periods; a second client connected but is not served: %v", err)
	}
	if err := roundTrip(c1, 10*time.Second); err != nil {
		viol("accepted-connection-not-served", "the long-lived connection no longer answers: %v", err)
	}
	r.Count("real_clock_busy_checks", 1)
	// many connections that all end at the same instant: the count of open connections must still reach zero
	var many []net.Conn
	for k := 0; k < 24; k++ {
		if c, err := net.DialTimeout(network, dial, 5*time.Second); err == nil {
			if k%2 == 0 {
				roundTrip(c, 10*time.Second)
			} else {
				c.Write([]byte(`{"method":"org.varlink.serv`))
			}
			many = append(many, c)
		}
	}
	var cw sync.WaitGroup
	gate := make(chan struct{})
	for _, c := range append(many, c1, c2) {
		cw.Add(1)
		go func(c net.Conn) { defer cw.Done(); <-gate; c.Close() }(c)
	}
	close(gate)
	cw.Wait()
	r.Count("simultaneous_closes", int64(len(many)+2))
	// once the last connection has ended the next expiry stops the service
	select {
	case e := <-done:
		if _, ok := e.(varlink.ServiceTimeoutError); !ok {
			viol("wrong-timeout-error", "after the last connection was closed the serving call returned %T %v, expected ServiceTimeoutError", e, e)
			return
		}
	case <-time.After(30 * time.Second):
		viol("idle-expiry-ignored", "all connections closed, but the serving call did not stop within 30 s (200 periods)")
		svc.Shutdown()
		return
	}
	r.Count("real_clock_idle_returns", 1)
	// released just as by a shutdown
	if c, err := net.DialTimeout(network, dial, 2*time.Second); err == nil {
		served := roundTrip(c, 2*time.Second) == nil
		c.Close()
		viol("timeout-did-not-release-listener", "after the serving call returned ServiceTimeoutError a client can still connect to %s (served=%v): it waits for a service that is gone", addr, served)
	}
	if network == "unix" {
		if _, err := os.Stat(dial); err == nil {
			viol("timeout-did-not-release-listener", "after the timeout return the socket file %s still exists", dial)
		}
	}
	// the same address can be served again at once
	svc2, _ := varlink.NewService("Verif", "IdleReal2", "1", "u")
	ctx2, cancel2 := context.WithCancel(context.Background())
	defer cancel2()
	done2 := make(chan error, 1)
	go func() { done2 <- svc2.Listen(ctx2, addr, 0) }()
	ok := false
	var lastErr error
	dl = time.Now().Add(10 * time.Second)
	for time.Now().Before(dl) {
		select {
		case e := <-done2:
			lastErr = e
			dl = time.Now()
			continue
		default:
		}
		c, err := net.DialTimeout(network, dial, time.Second)
		if err == nil {
			var info struct {
				Parameters struct {
					Product string `json:"product"`
				} `json:"parameters"`
			}
			c.SetDeadline(time.Now().Add(5 * time.Second))
			c.Write([]byte("{\"method\":\"org.varlink.service.GetInfo\"}\x00"))
			buf := make([]byte, 4096)
			n, _ := c.Read(buf)
			c.Close()
			if i := strings.IndexByte(string(buf[:n]), 0); i > 0 && json.Unmarshal(buf[:i], &info) == nil && info.Parameters.Product == "IdleReal2" {
				ok = true
				break
			}
		}
		time.Sleep(300 * time.Microsecond)
	}
	if !ok {
		viol("address-not-reusable", "after the timeout return a new service cannot serve %s at once: %v", addr, lastErr)
	}
	svc2.Shutdown()
	select {
	case <-done2:
	case <-time.After(10 * time.Second):
	}
	r.Count("real_clock_runs", 1)
	r.Case(fw.Hash("real", transport, fmt.Sprint(useListen)), true)
}

// c15RealLate: the idle period counts from the last new connection, not from the start of serving. One-sided and
// exact: a correct service re-arms the deadline after it has accepted the connection, so it cannot stop earlier than
// T after the instant t0 at which the client began to dial.
func c15RealLate(r *fw.Run, transport string, useListen bool, ctxDeadline string) {
	const T = 400 * time.Millisecond
	cse := &c15RealCase{true, transport, useListen, ctxDeadline}
	svc, err := varlink.NewService("Verif", "IdleLate", "1", "u")
	if err != nil {
		return
	}
	var network, dial, addr string
	if transport == "tcp" {
		l, err := net.Listen("tcp", "127.0.0.1:0")
		if err != nil {
			return
		}
		dial = l.Addr().String()
		l.Close()
		network, addr = "tcp", "tcp:"+dial
	} else {
		dial = filepath.Join(r.WorkDir, fmt.Sprintf("late-%d", r.Seq()))
		network, addr = "unix", "unix:"+dial
	}
	ctx, cancel := context.WithCancel(context.Background())
	switch ctxDeadline {
	case "early":
		ctx, cancel = context.WithTimeout(context.Background(), T*85/100)
	case "far":
		ctx, cancel = context.WithTimeout(context.Background(), 100*T)
	}
	defer cancel()
	done := make(chan error, 1)
	if useListen {
		go func() { done <- svc.Listen(ctx, addr, T) }()
	} else {
		if err := svc.Bind(ctx, addr); err != nil {
			r.Inconclusive("bind %s: %v", addr, err)
			return
		}
		go func() { done <- svc.DoListen(ctx, T) }()
	}
	time.Sleep(T * 6 / 10)
	t0 := time.Now()
	c, err := net.DialTimeout(network, dial, time.Second)
	if err != nil {
		select {
		case <-done:
			r.Inconclusive("late connection: the service had already timed out (slow machine)")
		default:
			svc.Shutdown()
			r.Inconclusive("late connection: dial failed: %v", err)
		}
		return
	}
	if err := roundTrip(c, 5*time.Second); err != nil {
		c.Close()
		svc.Shutdown()
		r.Inconclusive("late connection: %v", err)
		return
	}
	c.Close()
	select {
	case e := <-done:
		stopped := time.Now()
		if _, ok := e.(varlink.ServiceTimeoutError); !ok {
			r.Violation("C15 wrong-timeout-error", fmt.Sprintf("real clock (%s, listen=%v): returned %T %v", transport, useListen, e, e), cse)
			return
		}
		if d := stopped.Sub(t0); d < T {
			r.Violation("C15 idle-period-not-restarted-by-connection", fmt.Sprintf("real clock (%s, listen=%v, T=%v, serving context deadline: %q): a client connected %v after serving started and closed again; the service stopped only %v after that client began to dial - the listener had seen a new connection within the period", transport, useListen, T, ctxDeadline, T*6/10, d.Round(time.Millisecond)), cse)
		}
		r.Count("real_clock_late_connection_checks", 1)
	case <-time.After(60 * T):
		r.Violation("C15 idle-expiry-ignored", fmt.Sprintf("real clock (%s, listen=%v): no stop within 60 T after the only connection had ended", transport, useListen), cse)
		svc.Shutdown()
	}
	r.Case(fw.Hash("real-late", transport, fmt.Sprint(useListen), ctxDeadline), true)
}

// c15Bystanders: other connections of the same process - a client Connection to another service, and with it that other
// service's accepted connection - are open all the time. They are no business of the idle-timeout service: it stops one
// period after its own last connection.
func c15Bystanders(r *fw.Run, transport string, useListen bool) {
	other, err := varlink.NewService("Verif", "Bystander", "1", "u")
	if err != nil {
		return
	}
	p := filepath.Join(r.WorkDir, fmt.Sprintf("by%d", r.Seq()))
	ctx, cancel := context.WithCancel(context.Background())
	defer cancel()
	if err := other.Bind(ctx, "unix:"+p); err != nil {
		r.Inconclusive("bystander service: %v", err)
		return
	}
	done := make(chan error, 1)
	go func() { done <- other.DoListen(ctx, 0) }()
	defer func() {
		other.Shutdown()
		select {
		case <-done:
		case <-time.After(10 * time.Second):
		}
	}()
	cctx, ccancel := context.WithTimeout(context.Background(), 10*time.Second)
	conn, err := varlink.NewConnection(cctx, "unix:"+p)
	if err == nil {
		var v string
		err = conn.GetInfo(cctx, &v, nil, nil, nil, nil)
	}
	ccancel()
	if err != nil {
		r.Inconclusive("bystander connection: %v", err)
		return
	}
	defer conn.Close()
	c15RealLate(r, transport, useListen, "")
	r.Count("real_clock_runs_with_bystander_connections", 1)
}

func replayC15(r *fw.Run, raw json.RawMessage) {
	var rc c15RealCase
	if json.Unmarshal(raw, &rc) == nil && rc.Real {
		c15Real(r, rc.Transport, rc.Listen)
		c15RealLate(r, rc.Transport, rc.Listen, rc.CtxDeadline)
		r.Case(1, true)
		r.Case(2, true)
		return
	}
	var h c15Hist
	if json.Unmarshal(raw, &h) != nil || len(h.Steps) == 0 {
		return
	}
	for _, v := range runC15Hist(r, &h) {
		parts := strings.SplitN(v, "\x00", 2)
		r.Violation("C15 "+parts[0], parts[1], &h)
	}
	r.Case(1, true)
	r.Case(2, true)
}

func init() {
	fw.Register(&fw.Engine{
		ID: "C15", Level: "exploration",
		Rule: "(A) every valid history over {connect, call, close, abort mid-frame, accept-timeout expiry} up to length 5 (quick) / 10 (thorough), and over {connect, call, close, handler fails, frame that is not a call, connection that comes and goes while the loop is inside SetDeadline, expiry} up to length 5 / 7, on a controlled listener whose deadline is virtual: SetDeadline(non-zero) arms it and the harness decides when an armed deadline expires by making the parked Accept return a timeout error. Oracle on event order: an expiry injected while a connection is verifiably open (a round trip on it just completed) must be followed by the loop re-arming the deadline and re-entering Accept, the connection still being served; an expiry injected once every connection has been closed by the service and the active count has reached 0 must make the serving call return ServiceTimeoutError with Close called on the listener; entering Accept unarmed although a timeout was requested is reported (it could never time out); every history ends with an idle expiry. A fifth of the histories run with timeout 0: the listener must never be armed, the serving call must not return by itself, Shutdown returns nil. (B) real clock, T = 150 ms, unix and TCP, Listen and Bind+DoListen, one-sided: with one connection open for 2.5 T a second client must still be served; after the last close the call must return ServiceTimeoutError within 200 T; then a dial must fail, the unix socket file must be gone, and a new service must serve the same address at once. non-trivial = history of >= 2 steps; distinct by hash of the history. A quarter of the histories afterwards serve the same object again the other way round (untimed after timed must never arm, timed after untimed must be armed whenever it waits in Accept with no connection open); a sixth are preceded by a period that is ended by Shutdown while two connections are still open. Real clock also: 26 connections closing at the same instant; a connection made at 0.6 T must postpone the stop to at least T after the client began to dial (exact, one-sided), also when the serving context carries a deadline of its own that passes inside that period (0.85 T after the start) or far later, and while a client Connection to another service of the same process (and that service's accepted connection) stays open.",
		Assumptions: []string{"bounded progress: 10 s for the accept loop to take its next step", "real-clock part: only margins that hold for a correct service under any load are asserted"},
		Run:         runC15, Replay: replayC15, CrashIsViolation: true, MinEvals: 100,
		QuickTimeout: 15 * time.Minute, ThoroughTimeout: 60 * time.Minute,
	})
}
