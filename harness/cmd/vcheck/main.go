// vcheck: driver of the runtime monitors.
//
//	vcheck <ID> quick|thorough [--replay file]     parent: runs the engine in a child, decides, writes evidence
//	vcheck --child <ID> <tier> <seed> <workdir> [replay-file]
//	vcheck --helper <name> args...                  helper subprocesses (bridge, activation)
package main

import (
	"encoding/json"
	"fmt"
	"os"
	"os/exec"
	"path/filepath"
	"sort"
	"strconv"
	"strings"
	"time"

	"verif/harness/internal/fp"
	"verif/harness/internal/fw"
	"verif/harness/internal/helpers"
	"verif/harness/internal/racelog"

	_ "verif/harness/internal/eng"
)

func env(k, d string) string {
	if v := os.Getenv(k); v != "" {
		return v
	}
	return d
}

func main() {
	if len(os.Args) >= 2 && os.Args[1] == "--helper" {
		helpers.Main(os.Args[2:])
		return
	}
	if len(os.Args) >= 2 && os.Args[1] == "--child" {
		child(os.Args[2:])
		return
	}
	if len(os.Args) >= 2 && os.Args[1] == "--list" {
		fmt.Println(strings.Join(fw.IDs(), " "))
		return
	}
	os.Exit(parent(os.Args[1:]))
}

func child(a []string) {
	if len(a) < 4 {
		fmt.Fprintln(os.Stderr, "child: bad args")
		os.Exit(3)
	}
	id, tier, workdir := a[0], a[1], a[3]
	seed, _ := strconv.ParseInt(a[2], 10, 64)
	e := fw.Lookup(id)
	if e == nil {
		fmt.Fprintln(os.Stderr, "child: unknown engine", id)
		os.Exit(3)
	}
	r := fw.NewRun(tier, seed, workdir, env("VERIF_REPO", "/repo"))
	stopFP := func() fp.Stats { return fp.Stats{} }
	if os.Getenv("VERIF_FP") == "1" {
		if !fp.Available() {
			fmt.Fprintln(os.Stderr, "child: failpoint pass asked for, but this build has no failpoints")
			os.Exit(3)
		}
		r.FP = true
		r.FPStep = fp.Step
		stopFP = fp.Start(seed)
	}
	if len(a) >= 5 {
		b, err := os.ReadFile(a[4])
		if err != nil {
			fmt.Fprintln(os.Stderr, "child: replay:", err)
			os.Exit(3)
		}
		var rp struct {
			Case json.RawMessage `json:"case"`
		}
		if err := json.Unmarshal(b, &rp); err != nil || rp.Case == nil {
			fmt.Fprintln(os.Stderr, "child: replay file has no case")
			os.Exit(3)
		}
		if e.Replay == nil {
			fmt.Fprintln(os.Stderr, "child: engine has no replay")
			os.Exit(3)
		}
		e.Replay(r, rp.Case)
	} else {
		e.Run(r)
	}
	if r.FP {
		st := stopFP()
		r.Count("sites", int64(st.Sites))
		r.Count("sites_activated", int64(st.SitesEnabled))
		r.Count("sites_hit_while_active", int64(st.SitesHit))
		r.Count("delays_injected", st.Hits)
		r.Count("epochs", st.Epochs)
		for _, s := range st.HitSites {
			r.Distinct("site_hit", s)
		}
	}
	res := r.Result(id, true)
	b, _ := json.Marshal(res)
	tmp := filepath.Join(workdir, "result.json.tmp")
	if err := os.WriteFile(tmp, b, 0644); err != nil {
		fmt.Fprintln(os.Stderr, "child: write result:", err)
		os.Exit(3)
	}
	os.Rename(tmp, filepath.Join(workdir, "result.json"))
}

type finding struct {
	Status    string `json:"status"`
	Property  string `json:"property"`
	Signature string `json:"signature"`
	Commit    string `json:"commit"`
	What      string `json:"what"`
}

func loadFindings(root string) []finding {
	var f struct {
		Findings []finding `json:"findings"`
	}
	b, err := os.ReadFile(filepath.Join(root, "KNOWN_FINDINGS.json"))
	if err != nil {
		return nil
	}
	if err := json.Unmarshal(b, &f); err != nil {
		fmt.Fprintln(os.Stderr, "KNOWN_FINDINGS.json:", err)
		os.Exit(3)
	}
	return f.Findings
}

func parent(a []string) int {
	if len(a) < 1 {
		fmt.Fprintln(os.Stderr, "usage: vcheck <ID> quick|thorough [--replay file]")
		return 3
	}
	id := a[0]
	tier := "quick"
	replay := ""
	for i := 1; i < len(a); i++ {
		switch a[i] {
		case "quick", "thorough":
			tier = a[i]
		case "--replay":
			if i+1 < len(a) {
				replay = a[i+1]
				i++
			}
		}
	}
	if t := os.Getenv("VERIF_TIER"); t == "quick" || t == "thorough" {
		tier = t
	}
	seed, err := strconv.ParseInt(env("VERIF_SEED", "1"), 10, 64)
	if err != nil {
		seed = 1
	}
	e := fw.Lookup(id)
	if e == nil {
		fmt.Fprintln(os.Stderr, "unknown property", id, "known:", fw.IDs())
		return 3
	}
	root := env("VERIF_ROOT", "/verif")
	workdir, err := os.MkdirTemp("", "vf."+id+".")
	if err != nil {
		fmt.Fprintln(os.Stderr, err)
		return 3
	}
	if os.Getenv("VERIF_KEEP") == "" {
		defer os.RemoveAll(workdir)
	} else {
		fmt.Println("workdir kept:", workdir)
	}

	bin, _ := os.Executable()
	if e.Race {
		bin = env("VCHECK_RACE_BIN", bin+"-race")
	}
	to := e.QuickTimeout
	if tier == "thorough" {
		to = e.ThoroughTimeout
	}
	if to == 0 {
		to = 20 * time.Minute
	}
	if v, err := strconv.Atoi(os.Getenv("VERIF_TIMEOUT")); err == nil && v > 0 {
		to = time.Duration(v) * time.Second
	}
	args := []string{"-s", "QUIT", "-k", "20", strconv.Itoa(int(to.Seconds())), bin, "--child", id, tier, strconv.FormatInt(seed, 10), workdir}
	if replay != "" {
		abs, _ := filepath.Abs(replay)
		args = append(args, abs)
	}
	cmd := exec.Command("timeout", args...)
	logf, _ := os.Create(filepath.Join(workdir, "child.log"))
	cmd.Stdout, cmd.Stderr = logf, logf
	cmd.Env = append(os.Environ(), "VERIF_WORKDIR="+workdir)
	if e.Race {
		cmd.Env = append(cmd.Env, "GORACE=halt_on_error=0 history_size=4 log_path="+filepath.Join(workdir, "race"))
	}
	start := time.Now()
	runErr := cmd.Run()
	logf.Close()
	wall := time.Since(start).Seconds()

	var res fw.Result
	rb, rerr := os.ReadFile(filepath.Join(workdir, "result.json"))
	died := rerr != nil
	if !died {
		if err := json.Unmarshal(rb, &res); err != nil {
			died = true
		}
	}
	logTail := tail(filepath.Join(workdir, "child.log"), 12000)

	if died {
		// Which journalled cases were in flight?
		curs, _ := filepath.Glob(filepath.Join(workdir, "cur.*"))
		sort.Strings(curs)
		var inflight [][]byte
		for _, c := range curs {
			if cb := fw.ReadJournal(c); cb != nil {
				inflight = append(inflight, cb)
			}
		}
		if e.CrashIsViolation && len(inflight) > 0 {
			res = fw.Result{Property: id, Tier: tier, Seed: seed}
			for _, cb := range inflight {
				if !json.Valid(cb) {
					cb, _ = json.Marshal(string(cb))
				}
				res.Violations = append(res.Violations, fw.Violation{Signature: "process-death " + crashKind(logTail),
					Detail: "child process died while this case was in flight (one of the in-flight cases is the culprit)\n" + logTail, Case: cb})
				res.ViolationsN++
			}
		} else {
			// a race build: reports written before the process died still count (a crash is often the second symptom of the race)
			raceSeen := false
			if e.Race {
				for _, rp := range racelog.Parse(workdir, "race") {
					raceSeen = raceSeen || rp.Relevant
				}
			}
			// a Go panic or fatal error whose first goroutine trace runs through the library is the library's crash, whichever
			// workload was running (not every workload keeps a journal entry)
			libCrash := e.CrashIsViolation && panicInLibrary(logTail)
			if !raceSeen && !libCrash {
				fmt.Printf("HARNESS-ERROR property=%s child died outside a journalled case (%v)\n%s\n", id, runErr, logTail)
				return 3
			}
			res = fw.Result{Property: id, Tier: tier, Seed: seed}
			if libCrash {
				cb, _ := json.Marshal(map[string]string{"what": "no journal entry: the crash happened in a workload that is not recorded case by case"})
				res.Violations = append(res.Violations, fw.Violation{Signature: "process-death " + crashKind(logTail),
					Detail: "the child process died with a panic / fatal error whose trace runs through the library\n" + logTail, Case: cb})
				res.ViolationsN++
			}
			if raceSeen {
				res.Notes = append(res.Notes, "the child process died before it finished ("+crashKind(logTail)+"); the race reports it had written are judged")
			}
		}
	}

	if e.Race {
		reps := racelog.Parse(workdir, "race")
		racelog.Fold(&res, reps)
	}

	// ---- failpoint pass --------------------------------------------------------------
	// The same engine once more, in the failpoint build, while the scheduler of internal/fp holds windows inside the
	// library open. Its violations are violations like any other (a delay is something a loaded machine does too); its
	// counters are reported under "fp_".
	fpSeeds := []int64{seed}
	if tier == "thorough" {
		// the thorough tier runs the failpoint pass under three seeds (workload and delay schedule both depend on it)
		fpSeeds = []int64{seed, seed + 1000, seed + 2000}
	}
	fpBin := os.Getenv("VCHECK_FP_BIN")
	for fpi, fpSeed := range fpSeeds {
		if !(e.FP && fpBin != "" && replay == "" && os.Getenv("VERIF_NO_FP") == "") {
			break
		}
		fpDir := filepath.Join(workdir, fmt.Sprintf("fp%d", fpi))
		os.MkdirAll(fpDir, 0755)
		fargs := []string{"-s", "QUIT", "-k", "20", strconv.Itoa(int(to.Seconds())), fpBin, "--child", id, tier, strconv.FormatInt(fpSeed, 10), fpDir}
		fcmd := exec.Command("timeout", fargs...)
		flog, _ := os.Create(filepath.Join(fpDir, "child.log"))
		fcmd.Stdout, fcmd.Stderr = flog, flog
		fcmd.Env = append(os.Environ(), "VERIF_WORKDIR="+fpDir, "VERIF_FP=1")
		fstart := time.Now()
		ferr := fcmd.Run()
		flog.Close()
		var fres fw.Result
		fb, frerr := os.ReadFile(filepath.Join(fpDir, "result.json"))
		if frerr != nil || json.Unmarshal(fb, &fres) != nil {
			ftail := tail(filepath.Join(fpDir, "child.log"), 12000)
			if e.CrashIsViolation && panicInLibrary(ftail) {
				cb, _ := json.Marshal(map[string]string{"what": "failpoint pass: the child died with a panic / fatal error whose trace runs through the library"})
				res.Violations = append(res.Violations, fw.Violation{Signature: "process-death " + crashKind(ftail), Detail: "[failpoint pass]\n" + ftail, Case: cb})
				res.ViolationsN++
			} else {
				fmt.Printf("HARNESS-ERROR property=%s failpoint pass: child died (%v)\n%s\n", id, ferr, ftail)
				return 3
			}
		} else {
			if res.Counters == nil {
				res.Counters = map[string]int64{}
			}
			if res.DistinctN == nil {
				res.DistinctN = map[string]int64{}
			}
			for _, v := range fres.Violations {
				v.Detail = "[failpoint pass: seeded delays inside the library, see DESIGN 4.0] " + v.Detail
				res.Violations = append(res.Violations, v)
			}
			res.ViolationsN += fres.ViolationsN
			for _, s := range fres.Inconclusive {
				res.Inconclusive = append(res.Inconclusive, "[failpoint pass] "+s)
			}
			res.InconclusiveN += fres.InconclusiveN
			res.Counters["fp_passes"]++
			res.Counters["fp_evaluations"] += fres.Evaluations
			res.Counters["fp_distinct_nontrivial"] += fres.Nontrivial
			res.Counters["fp_wall_ms"] += int64(time.Since(fstart).Milliseconds())
			for k, v := range fres.Counters {
				if k == "sites" || strings.HasPrefix(k, "max_") || strings.HasPrefix(k, "exhaustive") {
					res.Counters["fp_"+k] = v
				} else {
					res.Counters["fp_"+k] += v
				}
			}
			for k, v := range fres.DistinctN {
				if v > res.DistinctN["fp_"+k] {
					res.DistinctN["fp_"+k] = v // per pass; the largest is reported
				}
			}
			if ex := fres.DistinctEx["site_hit"]; len(ex) > 0 {
				if res.DistinctEx == nil {
					res.DistinctEx = map[string][]string{}
				}
				res.DistinctEx["fp_site_hit"] = ex
			}
			for _, n := range fres.Notes {
				res.Notes = append(res.Notes, "[failpoint pass] "+n)
			}
			if fres.Counters["delays_injected"] == 0 {
				fmt.Printf("HARNESS-ERROR property=%s failpoint pass injected no delay at all (sites=%d)\n", id, fres.Counters["sites"])
				return 3
			}
		}
	}
	if e.FP && fpBin == "" && replay == "" && os.Getenv("VERIF_NO_FP") == "" {
		res.Notes = append(res.Notes, "no failpoint build was available (VCHECK_FP_BIN unset): the failpoint pass did not run")
		fmt.Printf("NOTE property=%s the failpoint pass did not run (no failpoint build)\n", id)
	}
	wall = time.Since(start).Seconds()

	// ---- decide --------------------------------------------------------------------
	findings := loadFindings(root)
	known := map[string]finding{}
	for _, f := range findings {
		if f.Status == "known" && f.Property == id {
			known[f.Signature] = f
		}
	}
	seenKnown := map[string]bool{}
	var fresh []fw.Violation
	for _, v := range res.Violations {
		if f, ok := known[v.Signature]; ok {
			if !seenKnown[v.Signature] {
				seenKnown[v.Signature] = true
				fmt.Printf("KNOWN-FINDING: property=%s %s\n", id, f.What)
			}
			continue
		}
		fresh = append(fresh, v)
	}
	if replay == "" {
		for sig, f := range known {
			if !seenKnown[sig] {
				// A listed finding that no longer reproduces is reported as a note, never as an alarm.
				fmt.Printf("NOTE property=%s listed known finding did not reproduce in this run: %s\n", id, f.What)
			}
		}
	}
	exit := 0
	seenSig := map[string]bool{}
	for _, v := range fresh {
		if seenSig[v.Signature] {
			continue
		}
		seenSig[v.Signature] = true
		dir := filepath.Join(root, "replays", id)
		os.MkdirAll(dir, 0755)
		p := filepath.Join(dir, fmt.Sprintf("%016x.json", fw.Hash(v.Signature, string(v.Case))))
		rb, _ := json.MarshalIndent(map[string]interface{}{"property": id, "tier": tier, "seed": seed, "signature": v.Signature,
			"detail": v.Detail, "case": v.Case}, "", " ")
		os.WriteFile(p, rb, 0644)
		fmt.Printf("VIOLATION property=%s replay=%s\n", id, p)
		fmt.Printf("  signature: %s\n  detail: %s\n", v.Signature, firstLines(v.Detail, 12))
		exit = 1
	}
	for _, s := range res.Inconclusive {
		fmt.Printf("INCONCLUSIVE property=%s %s\n", id, s)
	}
	if !died && !res.Completed {
		fmt.Printf("INCONCLUSIVE property=%s run did not complete its case list\n", id)
	}

	if replay != "" {
		fmt.Printf("replay of %s: %d violation(s)\n", replay, len(fresh))
		return exit
	}

	// ---- evidence ------------------------------------------------------------------
	cov := map[string]interface{}{
		"evaluations":         res.Evaluations,
		"distinct_nontrivial": res.Nontrivial,
		"rule":                e.Rule,
		"samples":             res.Samples,
		"inconclusive":        res.InconclusiveN,
		"known_findings_seen": len(seenKnown),
	}
	for k, v := range res.Counters {
		cov[k] = v
	}
	for k, v := range res.DistinctN {
		cov["distinct_"+k] = v
	}
	if len(res.DistinctEx) > 0 {
		cov["distinct_examples"] = res.DistinctEx
	}
	if len(res.Notes) > 0 {
		cov["notes"] = res.Notes
	}
	if x, ok := res.Counters["exhaustive_core_complete"]; ok && x > 0 {
		cov["exhaustive_core"] = true
	}
	if x, ok := res.Counters["exhaustive_product_complete"]; ok && x > 0 && res.Completed && !died {
		cov["exhaustive"] = true
	}
	ev := map[string]interface{}{
		"property_id": id, "tier": tier, "seed": seed, "level": e.Level, "coverage": cov,
		"assumptions": e.Assumptions, "wall_s": wall, "violations": len(fresh),
	}
	eb, _ := json.MarshalIndent(ev, "", " ")
	evDir := "evidence"
	if rp := env("VERIF_REPO", "/repo"); rp != "/repo" {
		evDir = "evidence-scratch" // a run against a scratch copy (mutation testing) must not overwrite the evidence of /repo
	}
	os.MkdirAll(filepath.Join(root, evDir), 0755)
	if err := os.WriteFile(filepath.Join(root, evDir, id+".json"), append(eb, '\n'), 0644); err != nil {
		fmt.Fprintln(os.Stderr, "evidence:", err)
		return 3
	}
	fmt.Printf("%s %s seed=%d: evaluations=%d distinct_nontrivial=%d violations=%d known=%d inconclusive=%d wall=%.1fs\n",
		id, tier, seed, res.Evaluations, res.Nontrivial, len(fresh), len(seenKnown), res.InconclusiveN, wall)
	keys := make([]string, 0, len(res.Counters))
	for k := range res.Counters {
		keys = append(keys, k)
	}
	sort.Strings(keys)
	var sb strings.Builder
	for _, k := range keys {
		fmt.Fprintf(&sb, " %s=%d", k, res.Counters[k])
	}
	dk := make([]string, 0, len(res.DistinctN))
	for k := range res.DistinctN {
		dk = append(dk, k)
	}
	sort.Strings(dk)
	for _, k := range dk {
		fmt.Fprintf(&sb, " distinct_%s=%d", k, res.DistinctN[k])
	}
	fmt.Println(" observed:" + sb.String())
	if exit == 0 && !died && (res.Evaluations < e.MinEvals || res.Evaluations < 1 || res.Nontrivial < 2) {
		fmt.Printf("HARNESS-ERROR property=%s observed too little (evaluations=%d, floor=%d, distinct_nontrivial=%d)\n%s\n", id, res.Evaluations, e.MinEvals, res.Nontrivial, logTail)
		return 3
	}
	return exit
}

// panicInLibrary: the log starts (after trimming, see tail) with a panic or fatal error and the trace of the first
// goroutine that follows has a frame in the library under test.
func panicInLibrary(log string) bool {
	if !strings.Contains(log, "panic:") && !strings.Contains(log, "fatal error:") {
		return false
	}
	if strings.Contains(log, "SIGQUIT") {
		return false // a watchdog dump shows every goroutine; it does not say who is at fault
	}
	i := strings.Index(log, "goroutine ")
	if i < 0 {
		return false
	}
	first := log[i:]
	if j := strings.Index(first, "\n\n"); j > 0 {
		first = first[:j]
	}
	return strings.Contains(first, "github.com/varlink/go/varlink")
}

func crashKind(log string) string {
	for _, k := range []string{"fatal error: stack overflow", "fatal error: concurrent map", "fatal error: all goroutines are asleep", "fatal error:", "panic:", "SIGQUIT"} {
		if strings.Contains(log, k) {
			return strings.TrimSuffix(k, ":")
		}
	}
	return "unknown"
}

func tail(path string, n int) string {
	b, err := os.ReadFile(path)
	if err != nil {
		return ""
	}
	// For panics and goroutine dumps the head is what matters.
	if i := strings.Index(string(b), "panic:"); i >= 0 {
		b = b[i:]
	} else if i := strings.Index(string(b), "fatal error:"); i >= 0 {
		b = b[i:]
	} else if len(b) > n {
		return string(b[len(b)-n:])
	}
	if len(b) > n {
		b = b[:n]
	}
	return string(b)
}

func firstLines(s string, n int) string {
	l := strings.Split(s, "\n")
	if len(l) > n {
		l = append(l[:n], "…")
	}
	return strings.Join(l, "\n          ")
}
