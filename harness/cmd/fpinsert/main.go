// fpinsert: puts a gofail failpoint comment in front of every statement of the given Go files that can take part in an
// interleaving (calls, go statements, channel operations, assignments to fields, counters).  The comments are inert until
// `gofail enable` rewrites the copy.  It works on whatever tree it is given: sites are found syntactically, nothing is
// anchored to the pinned sources.
//
//	fpinsert file.go...      rewrites the files in place, prints "<failpoint name> <file>:<line>" per site
package main

import (
	"fmt"
	"go/ast"
	"go/parser"
	"go/token"
	"os"
	"path/filepath"
	"sort"
	"strings"
	"unicode"
)

func ident(s string) string {
	var b strings.Builder
	up := true
	for _, r := range s {
		if unicode.IsLetter(r) || unicode.IsDigit(r) {
			if up {
				r = unicode.ToUpper(r)
				up = false
			}
			b.WriteRune(r)
		} else {
			up = true
		}
	}
	return b.String()
}

// interesting: the statement (not looking into function literals, which are visited on their own) calls something, starts a
// goroutine, uses a channel, or writes a field / counter.
func interesting(s ast.Stmt) bool {
	switch s.(type) {
	case *ast.DeclStmt, *ast.DeferStmt, *ast.BranchStmt, *ast.LabeledStmt, *ast.EmptyStmt, *ast.BlockStmt:
		return false
	case *ast.GoStmt, *ast.SendStmt, *ast.SelectStmt, *ast.IncDecStmt:
		return true
	}
	found := false
	var root ast.Node = s
	// for compound statements only the header counts; their bodies are blocks of their own
	ast.Inspect(root, func(n ast.Node) bool {
		if n == nil || found {
			return false
		}
		switch x := n.(type) {
		case *ast.FuncLit, *ast.BlockStmt:
			return false
		case *ast.CaseClause, *ast.CommClause:
			return false
		case *ast.CallExpr:
			if id, ok := x.Fun.(*ast.Ident); ok {
				switch id.Name {
				case "len", "cap", "append", "make", "new", "string", "int", "int64", "byte", "copy", "delete", "panic", "recover":
					return true
				}
			}
			found = true
		case *ast.UnaryExpr:
			if x.Op == token.ARROW {
				found = true
			}
		case *ast.AssignStmt:
			for _, l := range x.Lhs {
				if _, ok := l.(*ast.SelectorExpr); ok {
					found = true
				}
				if _, ok := l.(*ast.IndexExpr); ok {
					found = true
				}
			}
		}
		return true
	})
	return found
}

// unlocks: the statement is a call of Unlock / RUnlock (the window behind a critical section starts here).
func unlocks(s ast.Stmt) bool {
	es, ok := s.(*ast.ExprStmt)
	if !ok {
		return false
	}
	c, ok := es.X.(*ast.CallExpr)
	if !ok {
		return false
	}
	sel, ok := c.Fun.(*ast.SelectorExpr)
	return ok && (sel.Sel.Name == "Unlock" || sel.Sel.Name == "RUnlock")
}

func plain(s ast.Stmt) bool {
	switch s.(type) {
	case *ast.DeclStmt, *ast.DeferStmt, *ast.LabeledStmt, *ast.EmptyStmt, *ast.BlockStmt:
		return false
	}
	return true
}

func main() {
	for _, path := range os.Args[1:] {
		src, err := os.ReadFile(path)
		if err != nil {
			fmt.Fprintln(os.Stderr, err)
			os.Exit(1)
		}
		fset := token.NewFileSet()
		f, err := parser.ParseFile(fset, path, src, parser.ParseComments)
		if err != nil {
			fmt.Fprintln(os.Stderr, err)
			os.Exit(1)
		}
		lines := map[int]bool{}
		visit := func(list []ast.Stmt) {
			afterUnlock := false
			for _, s := range list {
				if interesting(s) || (afterUnlock && plain(s)) {
					lines[fset.Position(s.Pos()).Line] = true
				}
				afterUnlock = unlocks(s)
			}
		}
		ast.Inspect(f, func(n ast.Node) bool {
			switch x := n.(type) {
			case *ast.BlockStmt:
				visit(x.List)
			case *ast.CaseClause:
				visit(x.Body)
			case *ast.CommClause:
				visit(x.Body)
			}
			return true
		})
		// a line is only usable when the statement is the first thing on it
		text := strings.Split(string(src), "\n")
		var ls []int
		for l := range lines {
			ls = append(ls, l)
		}
		sort.Sort(sort.Reverse(sort.IntSlice(ls)))
		base := ident(strings.TrimSuffix(filepath.Base(path), ".go"))
		pkg := ident(f.Name.Name)
		for _, l := range ls {
			line := text[l-1]
			trim := strings.TrimLeft(line, " \t")
			if trim == "" || strings.HasPrefix(trim, "}") || strings.HasPrefix(trim, "case ") || strings.HasPrefix(trim, "default:") {
				continue
			}
			indent := line[:len(line)-len(trim)]
			name := fmt.Sprintf("vfp%s%sL%d", pkg, base, l)
			ins := []string{indent + "// gofail: var " + name + " int", indent + "// verifFPSleep(" + name + ")"}
			text = append(text[:l-1], append(ins, text[l-1:]...)...)
			fmt.Printf("%s %s:%d\n", name, filepath.Base(path), l)
		}
		if err := os.WriteFile(path, []byte(strings.Join(text, "\n")), 0644); err != nil {
			fmt.Fprintln(os.Stderr, err)
			os.Exit(1)
		}
	}
}
