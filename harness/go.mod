module verif/harness

go 1.21

require (
	github.com/anishathalye/porcupine v1.3.0
	github.com/varlink/go v0.0.0
	go.etcd.io/gofail v0.2.0
)

replace github.com/varlink/go => /repo
