#!/usr/bin/env python3
"""Prints the markdown table of /verif/seeded/*/meta.json for DESIGN.md 6.3."""
import json, glob, os
ROOT = os.path.dirname(os.path.dirname(os.path.abspath(__file__)))
rows = []
for f in sorted(glob.glob(os.path.join(ROOT, "seeded", "*", "meta.json"))):
    m = json.load(open(f))
    cr = m.get("check_result", {})
    sig = (cr.get("first_signature") or "").replace("|", "/")
    if len(sig) > 70:
        sig = sig[:70] + "…"
    rows.append(f"| {m['property']}-{m['variant']} | {m['change']} | {m['needs_to_manifest']} | {cr.get('violation_lines', '?')} line(s): `{sig}` |")
print("| change | what it does | needs | `./check <id> quick` |")
print("|---|---|---|---|")
print("\n".join(rows))
