#!/usr/bin/env python3
"""Builds /verif/seeded/<ID>-<V>/ (patch.diff, demonstration, notes.md, meta.json) from the sub-agents' output
directory, the confirmation log (tools/seedconfirm.sh) and the matrix log (tools/seedrun.sh).
usage: mkseeded.py <outdir> <confirm.log> <matrix.log> <variants e.g. AB>"""
import json, os, re, shutil, sys

out, conflog, matlog, variants = sys.argv[1], sys.argv[2], sys.argv[3], sys.argv[4]
ROOT = os.path.dirname(os.path.dirname(os.path.abspath(__file__)))

DESCR = {
 "C01-A": ("oneway guard moved from sendMessage into Reply/ReplyError; built-in error replies (doReplyError) bypass it", "a oneway call that ends in a built-in org.varlink.service error (unknown interface/method, bad parameters)"),
 "C01-B": ("reply encoded into a pooled buffer that is returned to the pool before the write", "two connections answered concurrently while one reply write is still pending"),
 "C02-A": ("ReadBytes re-implemented over ReadSlice; 'frame complete' decided by fragment length < buffer size", "a message whose length including the NUL is an exact multiple of 4096"),
 "C02-B": ("pooled encode buffer put back (defer) before Conn.Write uses its bytes", "concurrent connections with a reply write still pending (large reply / slow reader)"),
 "C03-A": ("call parameters re-marshalled through map[string]interface{} in HandleMessage", "integers beyond 2^53 or exponent spellings in call parameters"),
 "C03-B": ("reply struct hoisted out of the receive closure and reused; omitted 'continues' keeps the previous value", "a more-sequence of two or more replies read through the client"),
 "C04-A": ("org.varlink.service detected by HasPrefix on the whole method string", "method strings starting with 'org.varlink.service.' and containing a further dot"),
 "C04-B": ("serviceCall taken from a sync.Pool, Method not reset", "a frame without a string method right after a valid call (two-step sequence)"),
 "C05-A": ("Members filled after the loop from Aliases, Methods, Errors", "any member order other than types, methods, errors"),
 "C05-B": ("comment scan also stops at CR", "CRLF layout together with doc comments"),
 "C06-A": ("duplicate map keyed by kind + name", "two members of different kinds with the same name"),
 "C06-B": ("blank after '#' skipped unless end of input", "a line consisting of exactly '#' followed by a non-comment line"),
 "C07-A": ("TypeMap dropped from the conversion case in the generated dispatcher", "a map-typed method input whose element contains a non-empty inline struct"),
 "C07-B": ("TrimRight(description, newline) replaced by TrimSpace", "a description with leading whitespace/blank line or trailing blanks"),
 "C08-A": ("omitempty also emitted for array and map fields", "a non-nil but empty array or map value"),
 "C08-B": ("generated Send stub of methods without input passes 0 instead of flags", "more/oneway flags on a method with an empty input list"),
 "C09-A": ("nil test merged after the dereference in readType case '?'", "a '?' not followed by a parsable type (truncations)"),
 "C09-B": ("comment loop no longer stops at end of input", "a comment that runs to the end of input without newline (hang)"),
 "C10-A": ("HandleMessage decodes with a streaming json.Decoder and ignores trailing bytes of the frame", "a frame that is a valid call object followed by extra bytes"),
 "C10-B": ("conncounter decrement moved to the end of handleConnection, skipped on the HandleMessage-error exit", "a connection that ends through a handler/decode error on a service with an idle timeout"),
 "C11-A": ("receive tolerates a missing trailing NUL (TrimSuffix, error only when no data)", "the server dying inside or right after a reply frame before its NUL"),
 "C11-B": ("flag validation folded into a switch on equality", "flag words with More, Oneway and Upgrade all set (11, 15)"),
 "C12-A": ("reserved namespace tested with HasPrefix", "error names that merely start with org.varlink.service (service2, servicex, service.sub)"),
 "C12-B": ("MethodNotFound and MethodNotImplemented switch arms merged", "the MethodNotImplemented standard error on the client side"),
 "C13-A": ("descriptions[name] written before the running refusal", "register while listening (refused), then GetInterfaceDescription of that name"),
 "C13-B": ("GetInfo serves a name list cached at the first call", "register more interfaces after a shutdown and serve again"),
 "C14-A": ("accounting (conncounter--, wg.Done) only at the end of handleConnection; handler-error branch returns early", "a connection ended by a handler error, then Shutdown"),
 "C14-B": ("Shutdown returns early when not running yet", "Shutdown between Bind and the start of the serving call"),
 "C15-A": ("DoListen no longer increments conncounter after Accept", "Bind+DoListen with at least one accepted connection and an expiry"),
 "C15-B": ("teardown closes the listener only if still running; timeout branch clears running first", "what happens to the endpoint after a timeout return"),
 "C16-A": ("GetListener reads the field without the mutex", "GetListener concurrent with Shutdown/teardown"),
 "C16-B": ("cancelled ReadBytes no longer waits for its helper goroutine", "a cancelled read followed by another read on the same connection"),
 "C17-A": ("deadlines only set when the context has one (nothing clears the previous one)", "a deadline context on a completed operation, then reuse with a context without deadline"),
 "C17-B": ("PipeCon.SetReadDeadline applied to the write pipe", "a blocked read on the bridge transport that is cancelled"),
 "C18-A": ("raw reads >= 4096 bytes bypass the buffered reader", "payload coalesced with the preceding frame and a read buffer >= 4096"),
 "C18-B": ("Upgrade returns a freshly wrapped connection (empty buffer)", "upgraded bytes arriving in the same segment as the reply frame, client side"),
 "C19-A": ("';' tail only stripped for unix on the client side", "tcp address with a ';parameter' tail, client side"),
 "C19-B": ("stale path removed only if it is a regular file", "a stale socket file at the unix path"),
 "C20-A": ("no break in the LISTEN_FDNAMES scan: last 'varlink' entry wins", "'varlink' appearing twice in LISTEN_FDNAMES"),
 "C20-B": ("names list longer than LISTEN_FDS accepted", "LISTEN_FDNAMES with more entries than LISTEN_FDS"),
 "C01-C": ("interface lookup takes the service mutex with defer: every handler of a registered interface runs under it", "one handler blocked (e.g. writing a multi-MiB reply to a client that does not read) while other connections are active"),
 "C01-D": ("oneway calls dispatched in a new goroutine", "a oneway call followed by another call on the same connection; a failing oneway handler"),
 "C02-C": ("ReadBytes fast path returns the whole buffered content when its last byte is the delimiter", "three or more small frames arriving in one read"),
 "C02-D": ("deadlines only set when the context has one", "an earlier call with a deadline, a later call without, and a pause inside the reply that outlasts the old deadline"),
 "C03-C": ("client un-escapes \\u003c/\\u003e/\\u0026 in the marshalled frame with bytes.Replace", "a string that contains a literal backslash followed by u003c (JSON text inside a string)"),
 "C03-D": ("go cmd.Wait() right after starting the bridge process", "bridge transport; Close then hangs (two concurrent Waits), a late read after the bridge exited fails"),
 "C04-C": ("method string split with FieldsFunc+Join, empty parts dropped", "method strings with empty parts (doubled, leading or trailing dots)"),
 "C04-D": ("route cache that also remembers misses and is never invalidated", "call to an unregistered interface, then RegisterInterface of it during a pause, then a call"),
 "C05-C": ("'->' must follow on the parameter line (advanceOnLine)", "newline / CRLF / comment between ')' and '->'"),
 "C05-D": ("empty comment lines dropped from documentation", "a doc block with an interior '#' line"),
 "C06-C": ("interface name regexp accepts a single label", "interface names without a dot"),
 "C06-D": ("every byte <= ' ' skipped as whitespace", "control bytes (NUL, ESC, ...) between tokens"),
 "C07-C": ("error-reply helper parameters lose their '_' suffix", "an error parameter named like a generator local or a Go keyword"),
 "C07-D": ("fmt import decided from the number of errors", "an interface whose errors all have no parameters"),
 "C08-C": ("dispatcher ignores decode errors when every input is optional", "undecodable parameters sent to a method whose inputs are all optional"),
 "C08-D": ("Upgrade stub no longer maps errors through Dispatch_Error", "an interface error returned to <Method>().Upgrade"),
 "C09-C": ("[128]bool lookup table indexed with the raw byte", "a byte >= 0x80 where a member or type name is scanned"),
 "C09-D": ("arrow checked by slicing two bytes without bounds test", "input ending 0 or 1 bytes after a method's input list"),
 "C10-C": ("frames whose first non-blank byte is not '{' rejected early", "the bare literal null as a frame"),
 "C10-D": ("package-level lock held around every reply write", "one client stalling in the middle of a reply larger than the socket buffers"),
 "C11-C": ("receive skips zero-length frames", "a lone NUL followed by another frame"),
 "C11-D": ("nil guard on raw parameters removed in the InvalidParameter arm", "an org.varlink.service.InvalidParameter error frame without parameters (panic)"),
 "C12-C": ("error name trimmed with TrimSpace in ReplyError", "names with white space at the outer ends"),
 "C12-D": ("client maps errors by member name only", "a custom error whose member name equals a standard one (com.acme.MethodNotFound)"),
 "C13-C": ("url identity trimmed of trailing '/'", "a url ending in '/'"),
 "C13-D": ("teardown no longer clears running", "a serve period that ends by idle timeout, then register / serve again"),
 "C13-E": ("Resolver.GetInfo reply struct tagged json:\"interface\"", "the interfaces out-parameter of Resolver.GetInfo"),
 "C14-C": ("running test hoisted directly after Accept", "a connection accepted just before Shutdown is neither served nor closed"),
 "C14-D": ("listener closed through a sync.Once that is never re-armed", "the second serve period of the same object"),
 "C15-C": ("Listen arms the deadline once before the loop", "a short connection late in the idle period (Listen only)"),
 "C15-D": ("timeout cached in the Service and only overwritten by non-zero values", "same object served with a timeout, later without"),
 "C16-C": ("getInterfaceDescription reads the map without the mutex", "RegisterInterface after Shutdown while a connection still drains and calls GetInterfaceDescription"),
 "C16-D": ("Write returns without joining its helper when the context ended by deadline", "a blocking write under a deadline, caller reuses the buffer"),
 "C17-C": ("cancelled Write uses SetDeadline instead of SetWriteDeadline", "a blocked write ended by its context (bridge: PipeCon.SetDeadline panics; others: concurrent read times out)"),
 "C17-D": ("receive closure reads with Send's context", "receive called with a different context than Send, cancelled while blocked"),
 "C18-C": ("buffered fast path discards everything buffered", "a raw read smaller than what is buffered behind a frame"),
 "C18-D": ("fast path for a buffered frame discards one byte too few", "two or more frames arriving in one segment"),
 "C19-C": ("Bind marks the service running before the OS bind and does not undo it on failure", "a valid address the OS refuses, then another Bind/Listen on the same object"),
 "C19-D": ("empty-path check moved before the ';' cut", "'unix:;...' (panic)"),
 "C20-C": ("FDNAMES consulted whenever it is set", "LISTEN_FDS=1 with LISTEN_FDNAMES set to something else"),
 "C20-D": ("names split with FieldsFunc (empty entries vanish)", "a names list with an empty entry"),
 "C01-E": ("oneway guard becomes 'oneway && !more'", "a call flagged both oneway and more"),
 "C01-F": ("a package-level pool of 64 slots taken around each connection's read loop", "more than 64 connections open at the same time (idle ones count)"),
 "C02-E": ("the buffered reader is Reset after a frame above 1 MiB", "a frame above 1 MiB with another message right behind it in the same segment"),
 "C02-F": ("Listen's idle timeout also applied to every per-connection read", "a service with an idle timeout and a client pause longer than it, inside or between frames"),
 "C03-E": ("a 'no reply pending' guard kept on the Connection, cleared by Send and set by the last reply", "two calls in flight on one connection (Send, Send, receive, receive)"),
 "C03-F": ("continues-replies batched until a final reply or 4 KiB", "a handler that sends a continues-reply and then waits for an event"),
 "C04-E": ("method string trimmed with TrimSpace", "method strings with leading or trailing white space"),
 "C04-F": ("upgrade calls to an unknown interface return an error instead of replying", "upgrade flag + unregistered interface"),
 "C05-E": ("type names looked up, lower-cased, in the builtin table first", "a user type named String, Int, Bool, Float or Object"),
 "C05-F": ("duplicate-member map keyed by the lower-cased name", "two members whose names differ only in case"),
 "C06-E": ("a trailing ',' accepted when a newline follows before ')'", "',' + newline + ')' in any list"),
 "C06-F": ("unicode white space (NBSP, U+2028, U+3000, ...) skipped between tokens", "such a rune between tokens"),
 "C07-E": ("an Is<Error>() predicate emitted for every error", "a member named Is<ErrorName>"),
 "C07-F": ("a '// source: <path>' header line emitted", "generating the same description from another directory / path spelling"),
 "C08-E": ("'var out' of the Send stub declared once outside the receive closure", "a more-sequence whose later replies omit optionals / carry maps and slices"),
 "C08-F": ("alias-of-object detection through a map filled in declaration order", "a type name that refers forward to an alias of object"),
 "C09-E": ("field lists pre-allocated with capacity 64 and stored by index", "a struct or enum list with more than 64 entries (panic)"),
 "C09-F": ("string panic from a depth guard swallowed by New's recover", "more than 10000 nested types: neither tree nor error"),
 "C10-E": ("64 KiB reader with ReadSlice", "a well-formed call frame longer than 65536 bytes"),
 "C10-F": ("a leading UTF-8 BOM stripped from frames", "EF BB BF in front of a call object"),
 "C11-E": ("receive tests continues before error", "an error frame that also carries continues:true (reported as success)"),
 "C11-F": ("reply decoded with a streaming Decoder", "a frame with trailing junk after the JSON value"),
 "C12-E": ("fast path for nil parameters builds the frame with strconv.Quote", "nil parameters and a name containing a control character"),
 "C12-F": ("'r <= 0' becomes 'r < 0' in ReplyError", "names with an empty interface part ('.Broken')"),
 "C13-F": ("GetInfo decodes straight into the caller's pointers", "empty identity strings (omitted on the wire) with reused out variables"),
 "C13-G": ("duplicate check tests descriptions[name] != \"\"", "an interface with an empty description registered twice"),
 "C14-E": ("second Bind refused only for the identical address", "Bind of a different address during serving"),
 "C14-F": ("Shutdown leaves the listener open while connections are active; the last one closes it", "a connection arriving after Shutdown returned while earlier ones drain"),
 "C15-E": ("teardown resets conncounter to 0 (before the handlers have finished)", "a period ended by Shutdown with open connections, then a timed period"),
 "C15-F": ("TCP listener wrapped in a struct that hides SetDeadline", "idle timeout on the tcp transport"),
 "C16-E": ("Shutdown also stores listener = nil", "Shutdown concurrent with the accept loop of a service started with a timeout (refreshTimeout reads the field)"),
 "C16-F": ("an eof flag written by Read and read by Write without synchronisation", "a handler reading and writing its connection from two goroutines while the peer half-closes"),
 "C17-E": ("forced past deadline skipped when the context has its own deadline", "explicit cancel of a context that also has a distant deadline"),
 "C17-F": ("result channels made unbuffered", "cancel followed at once by Close while the operation is blocked (goroutine leak)"),
 "C18-E": ("one result channel shared by Read and Write", "a raw Read pending while a Write on the same connection completes (duplex use)"),
 "C18-F": ("reader replaced by a larger one after a frame above 4096 bytes", "an upgrade frame above 4096 bytes with payload in the same segment"),
 "C19-E": ("protocol lower-cased on the service side", "'UNIX:' / 'Tcp:' addresses (bound, but the client cannot reach them)"),
 "C19-F": ("client cuts the parameter tail at the LAST ';'", "two or more ';' in the address"),
 "C20-E": ("Atoi replaced by fmt.Sscan", "LISTEN_FDS / LISTEN_PID with a numeric prefix ('1x', '<pid>abc')"),
 "C20-F": ("stale-socket removal moved in front of activationListener()", "activation in effect and the address argument names an existing path"),
 "C01-H": ("error-reporting hook; the read loop's `err` is shadowed, a handler error no longer ends the connection loop", "a handler returning an error while the client has further calls queued"),
 "C02-H": ("bufio replaced by a hand-rolled receive buffer whose scan offset is not reset when bytes remain", "a frame split over segments whose completing segment carries further frames"),
 "C03-H": ("NewConnection stats the unix path first (friendlier error); abstract addresses have no file", "a client address unix:@name"),
 "C04-H": ("last-dot split factored into a helper that tests r == -1 instead of r <= 0", "a method string whose only dot is its first character"),
 "C05-H": ("parser recycled through a sync.Pool without clearing lastComment", "a second parse in one process after a text that left a pending comment"),
 "C06-H": ("list entries read by a readField helper; the struct-then-bare-name guard is lost", "a list with typed fields first and bare names last"),
 "C07-H": ("generator stops patching typeless errors in the tree; one use of e.Type left", "an error declared without a parameter list"),
 "C08-H": ("error and method reply helpers generated by one function; no fields means nil parameters for errors too", "an error without parameters sent through its generated helper"),
 "C09-H": ("@deprecated doc annotation indexes the first word of the last doc line", "a doc block whose last comment line is blank"),
 "C10-H": ("connection errors logged; EOF assumed to come without data", "client abort exactly between the last byte of a call object and its NUL"),
 "C11-H": ("ctxio wraps non-net errors with the failed operation; callers compare with ==", "server dies before a reply's NUL"),
 "C12-H": ("DispatchError deduplicated; InterfaceNotFound decoded into a non-pointer", "a call to an unregistered interface seen through the client"),
 "C13-H": ("client caches introspection replies per connection keyed by method only", "two GetInterfaceDescription calls with different names on one Connection"),
 "C14-H": ("wg.Add/conncounter++ moved into the handler goroutine", "Shutdown between an accept and the start of its handler"),
 "C15-H": ("net/http style retry of temporary Accept errors swallows the listener deadline expiry", "any idle timeout stop on a real listener"),
 "C16-H": ("GetInfo served from a lazily built snapshot with double-checked locking", "two connections whose first GetInfo calls overlap on a fresh service"),
 "C17-H": ("ctxio operations unified over context.AfterFunc; stop() not called on the ordinary path", "the context of a completed operation ends while a later operation is in flight"),
 "C18-H": ("a read-ahead goroutine in handleConnection keeps reading after an upgrade call", "an upgrade call followed by payload, service side"),
 "C19-H": ("unix address stored as absolute path before the '@' test", "service address unix:@name"),
 "C20-H": ("a failing net.FileListener on the selected descriptor is fatal instead of a fallback", "activation variables in effect with a selected descriptor that is not a socket"),
 "C01-I": ("replies written in 64 KiB pieces, the NUL travels with the last piece (skipped when nothing is left)", "an encoded reply whose length is an exact multiple of 65536"),
 "C02-I": ("Send discards what the client has buffered before writing a call", "two replies outstanding, coalesced in one read, and a Send between receiving them"),
 "C03-I": ("receive returns early when the reply has no parameters member, before the continues test", "an intermediate reply of a more-sequence without parameters (Reply(ctx, nil))"),
 "C04-I": ("last-dot split done with path.Ext (stops at '/')", "a method string with a slash after its last dot"),
 "C05-I": ("nesting guard whose depth counter leaks on the 'no type here' path", "more than ~500 typeless errors before a typed member, or nesting deeper than 512"),
 "C06-I": ("duplicate map stores member indexes; presence tested as != 0", "a later member repeating the name of the FIRST member"),
 "C07-I": ("snake_case field names turned into CamelCase Go names (not injective)", "one struct holding max_size and maxSize (or a_1 and a1)"),
 "C08-I": ("DispatchError also accepts org.varlink.<Error> short forms: every org.varlink.* error name is rewritten", "an interface under org.varlink.* (e.g. the resolver) declaring InterfaceNotFound / MethodNotFound / InvalidParameter"),
 "C09-I": ("friendlier message for a label ending in '-' indexes the byte after it", "input ending right after a hyphen in the interface name"),
 "C10-I": ("'message size limit' through io.LimitReader: a per-connection byte budget", "more than 16 MiB of requests on one connection"),
 "C11-I": ("EOF with zero bytes after a continues reply reported as success ('end of a monitor sequence')", "server dies exactly on the frame boundary after a continues reply"),
 "C12-I": ("standard errors fall back to the generic error when the carried name is empty", "InterfaceNotFound / MethodNotFound / InvalidParameter with an empty name"),
 "C13-I": ("built-in interface no longer in the interfaces map (description kept separately)", "registering an object named org.varlink.service"),
 "C14-I": ("ReadBytes fast path when bytes are buffered skips deadline and context", "a call and the start of the next frame in one segment, client stalls, serving context cancelled"),
 "C15-I": ("accept deadline capped by the serving context's deadline", "idle timeout together with a serving context whose deadline passes inside the idle period"),
 "C16-I": ("replies encoded into a pooled buffer; the encode-error path puts it back twice", "a handler replying an unencodable value, then two connections answered at overlapping times"),
 "C16-J": ("conncounter converted to sync/atomic except in DoListen's timeout branch", "DoListen with an idle timeout that actually expires after a connection has closed"),
 "C17-I": ("Read/ReadBytes fast path when bytes are buffered (no deadline, no context)", "start of the next frame buffered with the previous one, peer stalls, context ends"),
 "C17-J": ("small writes sent inline with only the context's deadline armed", "send buffer full after many small writes, context ended by cancel"),
 "C18-I": ("ReadBytes discards further delimiter bytes that are already buffered ('double NUL clients')", "upgraded payload starting with 0x00 coalesced with the frame"),
 "C18-J": ("size-limited frame reader detects 'buffer full' by fragment length", "a frame whose length with the delimiter is an exact multiple of 4096"),
 "C19-I": ("'@' test moved into a helper written as IndexByte(address,'@') == -1", "a filesystem path containing '@' plus a stale socket at that path"),
 "C20-I": ("inherited listener asserted to be a *net.UnixListener (SetUnlinkOnClose(false))", "the selected inherited descriptor is a listening TCP socket"),
 "C01-K": ("ctxio Write sets the write deadline only when the context has one", "a reply under a derived context with a deadline, then - after that instant - a reply under the plain context"),
 "C02-K": ("raw JSON reply parameters spliced into a hand-built frame without validation", "a handler replying a nil json.RawMessage (or invalid raw JSON)"),
 "C03-K": ("bridge run as sh -c \"exec <bridge>\"", "a bridge string that is not a simple command (VAR=x prog, cd d && prog)"),
 "C04-K": ("duplicate check and table insert folded into a helper; the 'already running' refusal now comes after the insert", "RegisterInterface while serving (refused), then a call to that interface"),
 "C05-K": ("New() memoised in a package-level map keyed by the trimmed text", "the same interface parsed twice with different leading/trailing blanks"),
 "C06-K": ("New() converted to named results with a deferred error wrapper; bare returns", "a well-formed description without methods: tree AND error"),
 "C07-K": ("output written through os.OpenFile without O_TRUNC", "a re-run into a directory holding a longer earlier output of the same interface"),
 "C08-K": ("oneway guard moved from sendMessage to Reply/ReplyError; service-level error replies bypass it", "a oneway call through a stub that hits MethodNotImplemented / InvalidParameter / MethodNotFound, then a normal call"),
 "C09-K": ("ring of the last 64 descriptions wraps with > instead of >=", "the 65th distinct valid description parsed in one process"),
 "C10-K": ("lingering close: CloseWrite, then drain reads under the serving context", "an invalid frame while the client keeps its socket open, then Shutdown"),
 "C11-K": ("receive returns the json.Unmarshal error of the reply parameters", "a nil out parameter and a reply that has parameters"),
 "C12-K": ("oneway short-cut moved in front of the error-name validation", "ReplyError with a refused name under a oneway call"),
 "C13-K": ("Connection.Call closes the connection on every error that is not *Error", "a standard org.varlink.service error (typed), then another call on the same Connection"),
 "C14-K": ("Bind starts a goroutine that calls Shutdown when its context is done; nothing stops it", "the context of an earlier serve period ends during a later period"),
 "C15-K": ("conncounter-- moved out of the defer; the handler-error branch returns before it", "a connection ended by the service (handler error, non-call frame), then idle"),
 "C16-K": ("bridge keeps the last stderr line for its EOF error; written and read without synchronisation", "a bridge that writes to stderr and then ends its output"),
 "C17-K": ("PipeCon.Read reaps the bridge (cmd.Wait) at EOF", "a bridge that closes its output but stays alive, then the context ends"),
 "C18-K": ("ReadBytes returns nil data together with an error", "a stream that ends behind bytes without delimiter, consumed by a frame read"),
 "C19-K": ("'filesystem socket' remembered in a field that the tcp arm and teardown never clear", "one Service bound to a filesystem unix address and later to a tcp address"),
 "C20-K": ("defer file.Close() on the inherited descriptor's os.File", "a second serve period (or second Service) in the same activated process"),
 "C01-L": ("handler context built once per serve period, derived from the first connection's private context", "a second connection still open when the first connection of the period closes"),
 "C02-L": ("bufio readers from a package-level pool, returned by Conn.Close (not idempotent)", "a Connection closed twice earlier in the process, then two connections alive at the same time"),
 "C03-L": ("bridge started with cmd.Env = append(cmd.Env, \"LC_ALL=C\")", "a bridge command line that uses the caller's environment"),
 "C04-L": ("encoded standard error replies cached process-wide, keyed by field=value", "MethodNotImplemented and MethodNotFound carrying the same method string"),
 "C05-L": ("trees start from a package-level template with pre-sized member lists (shared backing arrays)", "a second parse (or parallel parses): earlier trees are overwritten"),
 "C06-L": ("duplicate map replaced by a process-wide name table stamped with the parse serial", "another goroutine defining the same name between a description's two definitions"),
 "C07-L": ("generator accepts several files; duplicates detected by package name", "one invocation with the same interface in two directories"),
 "C08-L": ("serviceCall header from a sync.Pool, not zeroed", "flags or parameters of an earlier call (any connection) leaking into a call that omits them"),
 "C09-L": ("parsers recycled through a channel of capacity 4 with a blocking put", "more than four New() calls in flight"),
 "C10-L": ("connections read in 1 s rounds; a timed-out read drops the partial frame it had consumed", "a client pausing more than 1 s inside a frame"),
 "C11-L": ("decode error wrapped with NetConn().RemoteAddr()", "a malformed reply on the bridge transport (PipeCon.RemoteAddr panics)"),
 "C12-L": ("decoded replies pooled; the raw parameters handed out in *Error are reused", "the next receive on any connection after an error value was returned"),
 "C13-L": ("GetInfo reply struct from a sync.Pool, never zeroed", "two Connections to different services, the second with an empty identity string"),
 "C14-L": ("process-wide registry of bound addresses keyed by the address string", "two Service objects both using tcp:127.0.0.1:0"),
 "C15-L": ("open-connection count moved into ctxio as a package-level counter", "any other connection of the process (client side, other services) open at the idle expiry"),
 "C16-L": ("process-wide map of bound unix paths guarded by the per-Service mutex", "two Service objects binding / shutting down at the same time"),
 "C17-L": ("bridge stdin pipe enlarged through w.Fd() (switches the descriptor to blocking mode)", "a bridge that does not read, a large request, a context that ends"),
 "C18-L": ("bufio readers from a package-level pool, returned by Conn.Close (not idempotent)", "a Connection closed twice, then several upgraded connections at the same time"),
 "C19-L": ("client tcp arm splits at the last ':' and re-joins with JoinHostPort", "tcp:[::1]:port"),
 "C20-L": ("LISTEN_* decision computed once per process (sync.Once)", "a later Bind/Listen after the process changed its LISTEN_* environment"),
 "C01-M": ("HandleMessage run in a goroutine; the result channel is created once per serve period and shared by all connections", "a handler on another connection finishing while this connection waits for its own handler"),
 "C02-M": ("oneway frames written by a background goroutine, Send returns at once", "Close or the end of the per-call context while a large oneway frame is still being written"),
 "C03-M": ("bridge in its own process group; Close sends SIGTERM before Wait", "a oneway call followed at once by Close over a bridge"),
 "C04-M": ("interface table copy-on-write in an atomic.Value; load, check and copy outside the lock", "registrations of different names overlapping in time (lost update)"),
 "C10-M": ("accept deadline switched off while connections are open; cleared after the lock is released", "the last connection ending between the loop's busy check and its SetDeadline call"),
 "C11-M": ("a net timeout from the read is reported as ctx.Err()", "the socket deadline firing before the context's own timer (short polls)"),
 "C12-M": ("the frame after a continues reply is read ahead under the context of the receive that has returned", "one short-lived context per receive, an error ending a sequence a few ms later"),
 "C13-M": ("RegisterInterface releases the mutex around VarlinkGetDescription (check-then-act)", "two registrations of one name, or a registration and the start of serving, overlapping"),
 "C14-M": ("Shutdown closes the listener outside the mutex, then sets listener = nil without checking it is still the same", "re-bind and re-serve as soon as the serving call returned, while Shutdown is still in Close"),
 "C15-M": ("accept deadline removed while busy, re-armed by the last connection; the removal lands after the re-arm", "the last connection ending while the loop is between its busy check and SetDeadline"),
 "C16-M": ("the last connection's cleanup calls refreshTimeout (reads s.listener without the mutex)", "a connection ending after Shutdown closed the listener but before teardown"),
 "C17-M": ("deadline arming moved into the helper goroutine", "cancel within microseconds of the start of the operation"),
 "C18-M": ("a cancelled read joins its helper for at most 100 ms, then resets the forced deadline", "a transport whose reads start late: the helper left behind takes the next bytes"),
 "C05-N": ("next() decodes whole runes while backup() still steps back one byte", "a doc line whose text starts right after '#' with a non-ASCII character"),
 "C06-N": ("builtin type keywords looked up in a map without the comma-ok test (zero value = bool)", "any lower-case word that is not a builtin in type position"),
 "C07-N": ("description literal built by a helper that escapes CR first and backticks second (the CR replacement contains backticks)", "a description with CR (CRLF file): compiles, reports a different text"),
 "C08-N": ("generated Dispatch_Error strips the interface prefix with strings.TrimLeft (a character set)", "an error name whose first letters also occur in the interface name"),
 "C09-N": ("member list pre-sized with count(newline) - count('#')", "more '#' characters than newlines in the input"),
 "C19-N": ("parseAddress takes the mutex; two refusal returns never unlock", "a refused address (other protocol, empty unix path), then any further Bind/Shutdown on the object"),
 "C20-N": ("fd := 3 as default, an inner fd := -1 in the names block shadows it", "LISTEN_FDS > 1 with varlink not in first position"),
 "C01-O": ("decoded request header recycled through a sync.Pool; a failed decode hands the entry back uncleared", "a frame that is valid JSON, fails to decode as a call and carries oneway/more, then a well-formed call without that flag on any connection"),
 "C02-O": ("frames larger than the reader buffer assembled in a pooled buffer that is reset on the success path only", "a read that fails inside a frame already longer than 4096 bytes, then a frame above 4096 bytes on any connection"),
 "C03-O": ("bridge process reaped by a background cmd.Wait as soon as it exits (closes the stdout pipe)", "a bridge that exits right after writing its replies, before the client has read them"),
 "C04-O": ("calls look interfaces up in a read-only copy of the table taken when the listener is set", "RegisterInterface between Bind and DoListen, then a call to that interface"),
 "C05-O": ("pending doc comment reset only at an empty line, member readers take-and-clear it", "a comment inside a member (struct body, between name and list, around '->') followed by the next member without an empty line"),
 "C06-O": ("readTypeName rejects names that do not start with A-Z but leaves the cursor behind the word", "a digit-initial word glued to the '(' of a struct or enum in type position: accepted, word dropped"),
 "C07-O": ("reply helper / interface parameters named plainly (name instead of name_) unless keyword or generator local", "an output or error field named like a Go type the helper body spells (string, bool, int64, float64, json), or fields c and c_"),
 "C08-O": ("in/out structs of a generated Send stub declared once outside the receive closure", "a more call whose later replies omit optionals or carry maps/slices: stale values, maps merged, earlier results overwritten"),
 "C09-O": ("name characters classified through a [128]uint8 table indexed after guarding only char < 0", "a byte 0x80..0xFF where a type name is tried or right behind a field/type/method/error name"),
 "C10-O": ("org.varlink.service dispatcher holds the service mutex (defer) around the helpers, which also write the reply", "a client that pipelines introspection calls and does not read until the socket buffers are full"),
 "C11-O": ("ReadBytes returns an unterminated final token with nil error at EOF; receive trims the NUL with TrimSuffix", "the server dying inside a reply frame (success right before the NUL, SyntaxError elsewhere)"),
 "C12-O": ("replies encoded into pooled buffers that are reset after a successful write only", "a reply whose write fails (client hung up), then a reply on any connection that draws the same buffer"),
 "C13-O": ("placeholder dispatcher of org.varlink.service dropped; NewService seeds name and description directly", "RegisterInterface of an object named org.varlink.service: accepted, listed twice, description replaced"),
 "C14-O": ("'listener closed' flag set by Shutdown, cleared by teardown only", "Bind, Shutdown before any serving call, Bind again, DoListen, Shutdown: the new listener stays open"),
 "C15-O": ("timeout remembered in a Service field (non-zero values only); the last handler to exit re-arms the accept deadline from it", "one object served with a timeout and later without: a connection that comes and goes makes the untimed period time out"),
 "C16-O": ("RegisterInterface sorts names[1:] in place; getInfo hands the live slice to the encoder", "a registration accepted after Shutdown while a lingering connection calls GetInfo; >= 3 names, new name sorting first"),
 "C17-O": ("Read/ReadBytes served inline when something is buffered ('a whole frame is buffered' assumed)", "a complete frame plus the start of the next in one chunk, the rest late, the context of that receive ends"),
 "C18-O": ("after a frame longer than the buffer ReadBytes switches to a bigger reader over MultiReader(leftover, conn); Read bypasses the reader when Buffered()==0", "a frame above 4096 bytes with the first upgraded bytes in the same segment, then a raw Read"),
 "C19-O": ("second Bind refused while an endpoint is stored; parseAddress stores it, only Shutdown releases it", "a valid address whose listen() fails (missing directory, port taken), then another Bind/Listen on the object"),
 "C20-O": ("os.File of an inherited descriptor that is not a socket closed and forgotten", "selected descriptor is a pipe or file and the process binds a second service: it serves the first one's socket"),
}

conf = {}
for l in open(conflog):
    m = re.match(r'(C\d\d) (\w) build=(\w+) suite=(\w+) demo_with_change=(\w+) demo_without_change=(\w+)', l)
    if m:
        conf[m.group(1) + "-" + m.group(2)] = dict(build=m.group(3), existing_suite=m.group(4), demo_with_change=m.group(5), demo_without_change=m.group(6))
mat = {}
cur = None
for l in open(matlog):
    m = re.match(r'== (C\d\d) (\w+) (C\d\d)_(\w)_patch\.diff: (\d+) violation', l)
    if m:
        cur = m.group(3) + "-" + m.group(4)
        mat[cur] = dict(check=m.group(1), tier=m.group(2), violation_lines=int(m.group(5)), first_signature=None)
        continue
    m = re.match(r'\s+signature: (.*)', l)
    if m and cur and mat[cur]["first_signature"] is None:
        mat[cur]["first_signature"] = m.group(1).strip()
props = {json.loads(l)["id"]: json.loads(l) for l in open(os.path.join(ROOT, "properties.jsonl"))}
n = 0
for pid in sorted(props):
    for v in variants:
        key = f"{pid}-{v}"
        patch = os.path.join(out, f"{pid}_{v}_patch.diff")
        if not os.path.exists(patch) or key not in conf:
            continue
        c = conf[key]
        if not (c["build"] == "ok" and c["existing_suite"] == "ok" and c["demo_with_change"] == "FAIL" and c["demo_without_change"] == "PASS"):
            print("not confirmed, skipped:", key, c)
            continue
        d = os.path.join(ROOT, "seeded", key)
        shutil.rmtree(d, ignore_errors=True)
        os.makedirs(d)
        shutil.copy(patch, os.path.join(d, "patch.diff"))
        demo = None
        for cand, name in ((f"{pid}_{v}_demo_test.go", "demo_test.go"), (f"{pid}_{v}_demo.sh", "demo.sh")):
            if os.path.exists(os.path.join(out, cand)):
                shutil.copy(os.path.join(out, cand), os.path.join(d, name)); demo = name
        for extra in os.listdir(out):
            if extra.startswith(f"{pid}_{v}_demo.") and extra.endswith(".varlink"):
                shutil.copy(os.path.join(out, extra), os.path.join(d, extra))
        if os.path.isdir(os.path.join(out, f"{pid}_{v}_demo")):
            shutil.copytree(os.path.join(out, f"{pid}_{v}_demo"), os.path.join(d, "demo")); demo = "demo/run.sh"
        for nf in (f"{pid}_notes.md", f"{pid}_notes2.md", f"{pid}_notes3.md", f"{pid}_notes4.md", f"{pid}_notes5.md", f"{pid}_notes6.md", f"{pid}_notes7.md", f"{pid}_notes8.md", f"{pid}_notes9.md", f"{pid}_{v}_notes.md"):
            if os.path.exists(os.path.join(out, nf)):
                shutil.copy(os.path.join(out, nf), os.path.join(d, "notes.md"))
        what, needs = DESCR.get(key, ("see notes.md", "see notes.md"))
        meta = {
            "property": pid, "variant": v, "title": props[pid]["title"],
            "change": what, "needs_to_manifest": needs,
            "origin": "written by a fresh sub-agent that was given only the property text and a scratch worktree of /repo",
            "demonstration": demo,
            "confirmed_by_me": dict(c, how="tools/seedconfirm.sh on a scratch copy of /repo: go build, pinned suite, demonstration with and without the change"),
            "check_result": mat.get(key, {"note": "see DESIGN.md 6.3"}),
            "how_to_run": f"tools/seedrun.sh seeded/{key}/patch.diff {pid} quick   (or: git -C /repo apply seeded/{key}/patch.diff; ./check {pid} quick; git -C /repo checkout -- .)",
        }
        json.dump(meta, open(os.path.join(d, "meta.json"), "w"), indent=1)
        n += 1
print("seeded directories written:", n)
