#!/bin/bash
# tools/sweep.sh "<seeds>" [tier]  - every check at the given seeds on the unchanged tree; one line per run
ROOT="$(cd "$(dirname "$0")/.." && pwd)"; cd "$ROOT"
for seed in $1; do for id in C01 C02 C03 C04 C05 C06 C07 C08 C09 C10 C11 C12 C13 C14 C15 C16 C17 C18 C19 C20; do
  t0=$(date +%s); out=$(VERIF_SEED=$seed ./check $id ${2:-quick} 2>&1); rc=$?
  echo "seed=$seed $id rc=$rc $(( $(date +%s) - t0 ))s $(echo "$out" | grep -c '^VIOLATION') viol; $(echo "$out" | grep -E '^(VIOLATION|INCONCLUSIVE|HARNESS|NOTE|  signature)' | head -4 | cut -c1-200 | tr '\n' '|')"
done; done
