#!/bin/bash
# tools/seedreconfirm.sh <ID-V>  - confirm a change that is already stored under /verif/seeded/<ID-V>/ again
# (builds the file layout tools/seedconfirm.sh expects in a temporary directory)
set -u
key="$1"; id="${key%-*}"; v="${key#*-}"
src=$(mktemp -d /tmp/reconf.XXXXXX)
d="$(cd "$(dirname "$0")/.." && pwd)/seeded/$key"
cp "$d/patch.diff" "$src/${id}_${v}_patch.diff"
[ -f "$d/demo_test.go" ] && cp "$d/demo_test.go" "$src/${id}_${v}_demo_test.go"
[ -f "$d/demo.sh" ] && cp "$d/demo.sh" "$src/${id}_${v}_demo.sh"
[ -d "$d/demo" ] && cp -r "$d/demo" "$src/${id}_${v}_demo"
for f in "$d"/*.varlink; do [ -f "$f" ] && cp "$f" "$src/"; done
"$(dirname "$0")/seedconfirm.sh" "$id" "$v" "$src"
rm -rf "$src"
