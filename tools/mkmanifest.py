#!/usr/bin/env python3
"""Regenerates /verif/MANIFEST.json from the table below (edit the table, not the JSON)."""
import json, os, sys
ROOT = os.path.dirname(os.path.dirname(os.path.abspath(__file__)))

CHECKS = {
 # id: (engine, category, level text, level_note, technique, design_ref)
 "C05": ("e-idl", "exploration",
  "Runs the real parser on a bounded-exhaustive core of syntax trees (every type of depth <= 2 at each of 5 positions, every member-kind sequence <= 3) and on seeded random trees, each rendered under fixed and random layouts, and compares the returned tree with the generated one field by field (all four member lists, nesting, Description, doc blocks). Failing layouts are minimised to the gap that matters. Holds on everything explored; says nothing about trees/layouts not generated.",
  "Trusted: my tree generator/renderer as the definition of 'conformant' (domain restrictions listed in DESIGN C05); documentation asserted only for comment blocks directly above a member.",
  "runtime monitor: reference-tree equality oracle over generated inputs (bounded-exhaustive core + seeded random), panic monitor in a child process", "DESIGN.md §4 C05"),
 "C06": ("e-idl", "exploration",
  "Every accepted input is re-printed from the returned tree and compared with the input stripped of comments and layout, plus structural invariants (unique names, >= 1 method, no ??, lists all-typed or all-bare, names match an independent grammar). Inputs: all single-token mutants of core descriptions, all token sequences up to a bound, byte mutants, sentinels. Sound (never demands more than the statement); complete only for the inputs generated.",
  "Trusted: the 40-line printer and stripLayout; 'liberal reading' choices listed in DESIGN C06.",
  "runtime monitor: print-equality (round-trip) oracle + structural invariants on every accepted input", "DESIGN.md §4 C06"),
 "C09": ("e-idl", "exploration",
  "idl.New is called under recover() in a child process with a per-worker crash journal and a hang monitor, on every truncation of core descriptions, token sequences, endings in every token class and comment form, byte injections at every position, nesting bombs up to 64 KiB and random bytes. Result must be exactly one of tree/error.",
  "Hang = one parse exceeding 20 s with parser frames on the stack (bounded progress); inputs limited to 64 KiB as the property states.",
  "runtime monitor: panic/fatal-exit/hang monitor around the real parser over generated hostile inputs", "DESIGN.md §4 C09"),
}

NOT_YET = {}

def main():
    props = [json.loads(l) for l in open(os.path.join(ROOT, "properties.jsonl"))]
    ids = [p["id"] for p in props]
    extra = {}
    ex = os.path.join(ROOT, "tools", "manifest_extra.json")
    if os.path.exists(ex):
        extra = json.load(open(ex))
    checks = []
    table = dict(CHECKS)
    table.update({k: tuple(v) for k, v in extra.get("checks", {}).items()})
    for i in ids:
        if i not in table:
            continue
        eng, cat, text, note, tech, ref = table[i]
        checks.append({
            "property_id": i,
            "quick_cmd": f"./check {i} quick",
            "thorough_cmd": f"./check {i} thorough",
            "evidence_file": f"/verif/evidence/{i}.json",
            "replay_cmd_template": f"./check {i} --replay {{path}}",
            "engine": eng,
            "level_claimed": {"category": cat, "text": text, "design_ref": ref},
            "level_note": note,
            "technique": tech,
        })
    na = []
    reasons = extra.get("not_applicable", {})
    for i in ids:
        if i not in table:
            na.append({"property_id": i, "reason": reasons.get(i, "check not built yet (work in progress; no claim is made for this property at this commit)")})
    m = {
        "version": 1,
        "setup_cmd": "./check --build",
        "hooks": {
            "guard": "verif",
            "enable": "go build -tags verif -overlay <map>: /verif/overlay/varlink_whitebox.go is injected as /repo/varlink/zz_verif_whitebox.go at build time; nothing is committed into /repo for instrumentation",
            "baseline_off_cmd": "cd /repo && GOFLAGS=-mod=mod GOPROXY=off GOSUMDB=off GOTOOLCHAIN=local go test -json -vet=off -count=1 -timeout 25m ./...",
            "source_commits": [],
            "add_only": True,
        },
        "engines": extra.get("engines", [
            {"name": "e-idl", "path": "harness/internal/eng/idl_*.go", "serves_properties": ["C05", "C06", "C09"], "kind_free_text": "generators + reference-tree / print-equality / totality monitors around idl.New"},
        ]),
        "checks": checks,
        "not_applicable": na,
        "notes": "All checks: ./check <ID> quick|thorough [--replay file]; exit 0 held (KNOWN-FINDING / INCONCLUSIVE lines possible), 1 with VIOLATION lines, 3 harness error. VERIF_SEED selects the seed; VERIF_REPO (default /repo) the tree under test. Known and fixed findings: /verif/KNOWN_FINDINGS.json.",
    }
    json.dump(m, open(os.path.join(ROOT, "MANIFEST.json"), "w"), indent=1)
    print("MANIFEST.json:", len(checks), "checks,", len(na), "not claimed")

main()
