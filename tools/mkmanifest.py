#!/usr/bin/env python3
"""Regenerates /verif/MANIFEST.json from the table below (edit the table, not the JSON)."""
import json, os, sys
ROOT = os.path.dirname(os.path.dirname(os.path.abspath(__file__)))

CHECKS = {
 # id: (engine, category, level text, level_note, technique, design_ref)
 "C05": ("e-idl", "exploration",
  "Runs the real parser on a bounded-exhaustive core of syntax trees (every type of depth <= 2 at each of 5 positions, every member-kind sequence <= 3) and on seeded random trees, each rendered under fixed and random layouts, and compares the returned tree with the generated one field by field (all four member lists, nesting, Description, doc blocks). Failing layouts are minimised to the gap that matters. Holds on everything explored; says nothing about trees/layouts not generated.",
  "Trusted: my tree generator/renderer as the definition of 'conformant' (domain restrictions listed in DESIGN C05); documentation asserted only for comment blocks directly above a member.",
  "runtime monitor: reference-tree equality oracle over generated inputs (bounded-exhaustive core + seeded random), panic monitor in a child process", "DESIGN.md §4 C05"),
 "C06": ("e-idl", "exploration",
  "Every accepted input is re-printed from the returned tree and compared with the input stripped of comments and layout, plus structural invariants (unique names, >= 1 method, no ??, lists all-typed or all-bare, names match an independent grammar). Inputs: all single-token mutants of core descriptions, all token sequences up to a bound, byte mutants, sentinels. Sound (never demands more than the statement); complete only for the inputs generated.",
  "Trusted: the 40-line printer and stripLayout; 'liberal reading' choices listed in DESIGN C06.",
  "runtime monitor: print-equality (round-trip) oracle + structural invariants on every accepted input", "DESIGN.md §4 C06"),
 "C09": ("e-idl", "exploration",
  "idl.New is called under recover() in a child process with a per-worker crash journal and a hang monitor, on every truncation of core descriptions, token sequences, endings in every token class and comment form, byte injections at every position, nesting bombs up to 64 KiB and random bytes. Result must be exactly one of tree/error.",
  "Hang = one parse exceeding 20 s with parser frames on the stack (bounded progress); inputs limited to 64 KiB as the property states.",
  "runtime monitor: panic/fatal-exit/hang monitor around the real parser over generated hostile inputs", "DESIGN.md §4 C09"),
 "C01": ("e-conn", "exploration",
  "Real Service on a socket, scripted dispatcher whose behaviour is carried by each call, raw clients that pipeline and segment request bytes, N concurrent connections per round. A sequential model of one connection (written from the statement) predicts the reply frames and the handler log; observed frames (number-exact JSON), EOF position, handler log (target, flags as seen, result of every reply attempt), one-handler-at-a-time gauge and peer attribution must match. Holds on the scripts, segmentations and interleavings that were run; nothing is claimed about others.",
  "Trusted: the ~150-line connection model, encoding/json as tokenizer, the kernel's FIFO accept queue (barrier probe). Connections ended by the service with unread pipelined data are run on unix sockets only.",
  "runtime monitor: reference-model oracle over recorded wire bytes and handler event log, concurrent connections, segmentation schedules", "DESIGN.md §4 C01"),
 "C02": ("e-pair", "exploration",
  "A recording / re-segmenting proxy between a real Connection and a real Service captures both directions; every captured stream must split at NUL into exactly as many chunks as messages were sent, each a valid JSON object; values must arrive identically under every re-segmentation (as read, byte-wise, random pieces) and under exact partitions around the 4096-byte buffer on both receiving sides; every message length in windows around 4096 and 8192 (thorough 65536) is produced in both directions.",
  "Trusted: the proxy (forwards bytes verbatim, records what it read), json.Valid. Callers pass valid UTF-8.",
  "runtime monitor: wire-capture framing oracle + reference-model equality under segmentation schedules", "DESIGN.md §4 C02"),
 "C03": ("e-pair", "exploration",
  "Real Connection <-> real Service through the proxy on all four transports (filesystem unix, abstract unix, TCP, bridge subprocess); generated hostile JSON documents as call and reply parameters in three passing styles and three call styles incl. more-sequences of 1..17 replies. Oracle: number-exact JSON equality of what the handler read vs what was passed and of what receive yielded vs what the handler replied; Continues on all but the last reply.",
  "Trusted: the 60-line JSON equality (encoding/json tokenizer, numbers compared as literal text).",
  "runtime monitor: round-trip value-equality oracle over recorded handler and client observations, 4 transports", "DESIGN.md §4 C03"),
 "C04": ("e-conn", "exploration",
  "Adversarial sets of registered interface names x adversarial method strings, each connection ending with a GetInfo (still usable) and optionally a non-call frame followed by a call that must never be dispatched. The routing model from the statement predicts the single reply per call and the exact dispatcher invocation log (which dispatcher, which method name, once); any handler event for another dispatcher or peer is a violation.",
  "Trusted: the routing model (split at last '.', exact table lookup). Names compared as exact byte strings.",
  "runtime monitor: reference-model oracle over reply frames and per-dispatcher invocation log", "DESIGN.md §4 C04"),
 "C10": ("e-conn", "fault_enumeration",
  "Every generated byte stream (valid, mutated, wrong-shape, shuffled, random, unterminated) is aborted at EVERY byte offset, once by half-close (exact model oracle on replies and dispatches) and once by immediate close (prefix oracle), 48 aborts per round sharing the service with a well-behaved connection judged by the exact C01 oracle; plus aborts during multi-MiB replies and 8 MiB unterminated frames. After each configuration the active-connection counter must be 0, Shutdown must make the serving call return nil, and a service with an idle timeout must stop with ServiceTimeoutError. Process death in a journalled case is a violation.",
  "Trusted: frame classifier written from the statement; frames whose meaning depends on decoder details (case-variant / duplicate keys) are judged for crash and ordering only. Return after Shutdown / timeout is bounded progress (30 s).",
  "runtime monitor: fault injection (client abort at every byte offset) + reference-model oracle + resource-release monitor (white-box counter, serving-call return)", "DESIGN.md §4 C10"),
 "C11": ("e-client", "fault_enumeration",
  "A scripted raw server plays each reply stream under a segmentation schedule and dies at EVERY byte offset; the real Connection calls Send once and receive until the stream ends. Each receive result is judged by the reply model (valid reply: number-exact parameters + Continues; error frame: dedicated typed error / *varlink.Error with exact name and parameters; invalid or wrong-shape: some error; truncated: io.ErrUnexpectedEOF; never a panic). All 16 flag words x 3 parameter kinds: forbidden combinations write zero bytes (barrier call), legal ones put exactly the requested members on the wire.",
  "Trusted: reply classifier from the statement; the scripted server reads the whole request before dying (orderly EOF, no reset).",
  "runtime monitor: fault injection (server death at every byte offset) + reference-model oracle over receive results and captured request bytes", "DESIGN.md §4 C11"),
 "C12": ("e-pair", "exploration",
  "Scripted handler sends ReplyError(name, params) followed by a final reply; the real client and the recording proxy observe. Oracle from the statement: well-formed names outside org.varlink.service arrive as *varlink.Error with exactly that name (also on the wire) and number-exact parameters (none stays none); dot-less and reserved names are refused with an error to the handler and zero frames on the wire; the four built-in helpers arrive as their typed errors carrying exactly the given Unicode string.",
  "Trusted: the 10-line name model. Names with an empty member part: consistency only.",
  "runtime monitor: reference-model oracle over client error values, handler step results and captured wire frames", "DESIGN.md §4 C12"),
 "C13": ("e-pair", "exploration",
  "Histories of register / duplicate register / serve / register-while-serving / shutdown / register-again / serve-again on one Service object with hostile identity strings and descriptions; after every operation done while serving a real client compares GetInfo, GetInterfaceDescription (every listed name and 7 near-misses each), Resolver.GetInfo and Resolver.Resolve with a small model; RegisterInterface must be refused exactly when duplicate or serving.",
  "Trusted: the model (ordered name list + description map + serving flag). Non-empty names, valid UTF-8.",
  "runtime monitor: model-based history checking through the client helpers", "DESIGN.md §4 C13"),
}

NOT_YET = {}

def main():
    props = [json.loads(l) for l in open(os.path.join(ROOT, "properties.jsonl"))]
    ids = [p["id"] for p in props]
    extra = {}
    ex = os.path.join(ROOT, "tools", "manifest_extra.json")
    if os.path.exists(ex):
        extra = json.load(open(ex))
    checks = []
    table = dict(CHECKS)
    table.update({k: tuple(v) for k, v in extra.get("checks", {}).items()})
    for i in ids:
        if i not in table:
            continue
        eng, cat, text, note, tech, ref = table[i]
        checks.append({
            "property_id": i,
            "quick_cmd": f"./check {i} quick",
            "thorough_cmd": f"./check {i} thorough",
            "evidence_file": f"/verif/evidence/{i}.json",
            "replay_cmd_template": f"./check {i} --replay {{path}}",
            "engine": eng,
            "level_claimed": {"category": cat, "text": text, "design_ref": ref},
            "level_note": note,
            "technique": tech,
        })
    na = []
    reasons = extra.get("not_applicable", {})
    for i in ids:
        if i not in table:
            na.append({"property_id": i, "reason": reasons.get(i, "check not built yet (work in progress; no claim is made for this property at this commit)")})
    m = {
        "version": 1,
        "setup_cmd": "./check --build",
        "hooks": {
            "guard": "verif",
            "enable": "go build -tags verif -overlay <map>: /verif/overlay/varlink_whitebox.go is injected as /repo/varlink/zz_verif_whitebox.go at build time; nothing is committed into /repo for instrumentation",
            "baseline_off_cmd": "cd /repo && GOFLAGS=-mod=mod GOPROXY=off GOSUMDB=off GOTOOLCHAIN=local go test -json -vet=off -count=1 -timeout 25m ./...",
            "source_commits": [],
            "add_only": True,
        },
        "engines": extra.get("engines", [
            {"name": "e-idl", "path": "harness/internal/eng/idl_*.go", "serves_properties": ["C05", "C06", "C09"], "kind_free_text": "generators + reference-tree / print-equality / totality monitors around idl.New"},
            {"name": "e-conn", "path": "harness/internal/eng/conn_*.go, model.go, netcommon.go", "serves_properties": ["C01", "C04", "C10"], "kind_free_text": "raw-socket scripted connections against a real Service with a scripted dispatcher; sequential connection model; abort enumeration"},
            {"name": "e-pair", "path": "harness/internal/eng/pair_*.go", "serves_properties": ["C02", "C03", "C12", "C13"], "kind_free_text": "real Connection <-> real Service through a recording, re-segmenting proxy on 4 transports"},
            {"name": "e-client", "path": "harness/internal/eng/client_c11.go", "serves_properties": ["C11"], "kind_free_text": "real Connection against a scripted raw server with death offsets"},
        ]),
        "checks": checks,
        "not_applicable": na,
        "notes": "All checks: ./check <ID> quick|thorough [--replay file]; exit 0 held (KNOWN-FINDING / INCONCLUSIVE lines possible), 1 with VIOLATION lines, 3 harness error. VERIF_SEED selects the seed; VERIF_REPO (default /repo) the tree under test. Known and fixed findings: /verif/KNOWN_FINDINGS.json.",
    }
    json.dump(m, open(os.path.join(ROOT, "MANIFEST.json"), "w"), indent=1)
    print("MANIFEST.json:", len(checks), "checks,", len(na), "not claimed")

main()
