#!/usr/bin/env python3
"""Regenerates /verif/MANIFEST.json from the table below (edit the table, not the JSON)."""
import json, os, sys
ROOT = os.path.dirname(os.path.dirname(os.path.abspath(__file__)))

CHECKS = {
 # id: (engine, category, level text, level_note, technique, design_ref)
 "C05": ("e-idl", "exploration",
  "Runs the real parser on a bounded-exhaustive core of syntax trees (every type of depth <= 2 at each of 5 positions, every member-kind sequence <= 3) and on seeded random trees, each rendered under fixed and random layouts, and compares the returned tree with the generated one field by field (all four member lists, nesting, Description, doc blocks). Failing layouts are minimised to the gap that matters. Large shapes include 700 typeless errors in front of typed members, 3300 members and nesting depth 1500. Holds on everything explored; says nothing about trees/layouts not generated.",
  "Trusted: my tree generator/renderer as the definition of 'conformant' (domain restrictions listed in DESIGN C05); documentation asserted only for comment blocks directly above a member.",
  "runtime monitor: reference-tree equality oracle over generated inputs (bounded-exhaustive core + seeded random), panic monitor in a child process", "DESIGN.md §4 C05"),
 "C06": ("e-idl", "exploration",
  "Every accepted input is re-printed from the returned tree and compared with the input stripped of comments and layout, plus structural invariants (unique names, >= 1 method, no ??, lists all-typed or all-bare, names match an independent grammar). Inputs: all single-token mutants of core descriptions, all token sequences up to a bound, byte mutants, sentinels. Sound (never demands more than the statement); complete only for the inputs generated.",
  "Trusted: the 40-line printer and stripLayout; 'liberal reading' choices listed in DESIGN C06.",
  "runtime monitor: print-equality (round-trip) oracle + structural invariants on every accepted input", "DESIGN.md §4 C06"),
 "C09": ("e-idl", "exploration",
  "idl.New is called under recover() in a child process with a per-worker crash journal and a hang monitor, on every truncation of core descriptions, token sequences, endings in every token class and comment form, byte injections at every position, nesting bombs up to 64 KiB and random bytes. Result must be exactly one of tree/error.",
  "Hang = one parse exceeding 20 s with parser frames on the stack (bounded progress); inputs limited to 64 KiB as the property states.",
  "runtime monitor: panic/fatal-exit/hang monitor around the real parser over generated hostile inputs", "DESIGN.md §4 C09"),
 "C01": ("e-conn", "exploration",
  "Real Service on a socket, scripted dispatcher whose behaviour is carried by each call, raw clients that pipeline and segment request bytes, N concurrent connections per round. A sequential model of one connection (written from the statement) predicts the reply frames and the handler log; observed frames (number-exact JSON), EOF position, handler log (target, flags as seen, result of every reply attempt), one-handler-at-a-time gauge and peer attribution must match. Holds on the scripts, segmentations and interleavings that were run; nothing is claimed about others. Workloads include long-lived connections (hundreds of calls), hundreds of simultaneously open connections with idle ones held, and rounds in which one client stops reading in the middle of a multi-MiB reply while the others must be served. Every reply length in a window below powers of two (4096 .. 131072, thorough to 2 MiB) is followed by further calls on the same connection. Handlers reply under derived contexts whose deadline passes before their next reply; nil and unencodable raw JSON reply values. Handler-sent standard errors carry the strings the routing errors carry. Frames that fail to decode after flags or parameters were seen (unix sockets); stalled readers of 1 200 pipelined introspection replies; half of the Bind + DoListen rigs register interfaces between Bind and DoListen.",
  "Trusted: the ~150-line connection model, encoding/json as tokenizer, the kernel's FIFO accept queue (barrier probe). Connections ended by the service with unread pipelined data are run on unix sockets only.",
  "runtime monitor: reference-model oracle over recorded wire bytes and handler event log, concurrent connections, segmentation schedules", "DESIGN.md §4 C01"),
 "C02": ("e-pair", "exploration",
  "A recording / re-segmenting proxy between a real Connection and a real Service captures both directions; every captured stream must split at NUL into exactly as many chunks as messages were sent, each a valid JSON object; values must arrive identically under every re-segmentation (as read, byte-wise, random pieces) and under exact partitions around the 4096-byte buffer on both receiving sides; every message length in windows around 4096 and 8192 (thorough 65536) is produced in both directions. Further parts: twelve connections with in-flight replies larger than the socket buffer (slow readers, two processors); a pause inside a reply after an earlier call's deadline; long pauses against a service with an idle timeout. Sends and receives interleaved on one connection while the proxy coalesces what the service sends into one segment. Replies whose value is a nil json.RawMessage or *json.RawMessage. Client Connections are closed twice; a watchdog reports client operations that outlive their context by far. Service reception rounds in which ten other clients die inside a message larger than any internal buffer.",
  "Trusted: the proxy (forwards bytes verbatim, records what it read), json.Valid. Callers pass valid UTF-8.",
  "runtime monitor: wire-capture framing oracle + reference-model equality under segmentation schedules", "DESIGN.md §4 C02"),
 "C03": ("e-pair", "exploration",
  "Real Connection <-> real Service through the proxy on all four transports (filesystem unix, abstract unix, TCP, bridge subprocess); generated hostile JSON documents as call and reply parameters in three passing styles and three call styles incl. more-sequences of 1..17 replies. Oracle: number-exact JSON equality of what the handler read vs what was passed and of what receive yielded vs what the handler replied; Continues on all but the last reply. Also: late reads after the service closed, two calls in flight on one connection, monitor-style handlers (reply, then wait), bounded Close. Replies without a parameters member at any place of a sequence; interleaved Sends and receives with coalesced replies; a connect failure while a raw dial of the same address succeeds is a violation.",
  "Trusted: the 60-line JSON equality (encoding/json tokenizer, numbers compared as literal text).",
  "runtime monitor: round-trip value-equality oracle over recorded handler and client observations, 4 transports", "DESIGN.md §4 C03"),
 "C04": ("e-conn", "exploration",
  "Adversarial sets of registered interface names x adversarial method strings, each connection ending with a GetInfo (still usable) and optionally a non-call frame followed by a call that must never be dispatched. The routing model from the statement predicts the single reply per call and the exact dispatcher invocation log (which dispatcher, which method name, once); any handler event for another dispatcher or peer is a violation. Registration attempts made while serving are refused and must leave no route behind. Registrations between Bind and DoListen (accepted ones must be routable).",
  "Trusted: the routing model (split at last '.', exact table lookup). Names compared as exact byte strings.",
  "runtime monitor: reference-model oracle over reply frames and per-dispatcher invocation log", "DESIGN.md §4 C04"),
 "C10": ("e-conn", "fault_enumeration",
  "Every generated byte stream (valid, mutated, wrong-shape, shuffled, random, unterminated) is aborted at EVERY byte offset, once by half-close (exact model oracle on replies and dispatches) and once by immediate close (prefix oracle), 48 aborts per round sharing the service with a well-behaved connection judged by the exact C01 oracle; plus aborts during multi-MiB replies and 8 MiB unterminated frames. After each configuration the active-connection counter must be 0, Shutdown must make the serving call return nil, and a service with an idle timeout must stop with ServiceTimeoutError. Process death in a journalled case is a violation. Every wrong-shape frame is used at least once; large well-formed calls are judged exactly; a stalled (not reading, not closing) client must not disturb the others. Long-lived connections carry tens of MiB (thorough: beyond 2^32 bytes) in each direction, every call answered exactly. Connections the service ends while the client keeps its socket open are released all the same. Clients pausing up to 2.5 s (thorough 12 s) inside a frame are answered. Clients that die inside a frame already larger than any read buffer, next to judged large calls; stalled readers of built-in replies.",
  "Trusted: frame classifier written from the statement; frames whose meaning depends on decoder details (case-variant / duplicate keys) are judged for crash and ordering only. Return after Shutdown / timeout is bounded progress (30 s).",
  "runtime monitor: fault injection (client abort at every byte offset) + reference-model oracle + resource-release monitor (white-box counter, serving-call return)", "DESIGN.md §4 C10"),
 "C11": ("e-client", "fault_enumeration",
  "A scripted raw server plays each reply stream under a segmentation schedule and dies at EVERY byte offset; the real Connection calls Send once and receive until the stream ends. Each receive result is judged by the reply model (valid reply: number-exact parameters + Continues; error frame: dedicated typed error / *varlink.Error with exact name and parameters; invalid or wrong-shape: some error; truncated: io.ErrUnexpectedEOF; never a panic). All 16 flag words x 3 parameter kinds: forbidden combinations write zero bytes (barrier call), legal ones put exactly the requested members on the wire.",
  "Trusted: reply classifier from the statement; the scripted server reads the whole request before dying (orderly EOF, no reset).",
  "runtime monitor: fault injection (server death at every byte offset) + reference-model oracle over receive results and captured request bytes", "DESIGN.md §4 C11"),
 "C12": ("e-pair", "exploration",
  "Scripted handler sends ReplyError(name, params) followed by a final reply; the real client and the recording proxy observe. Oracle from the statement: well-formed names outside org.varlink.service arrive as *varlink.Error with exactly that name (also on the wire) and number-exact parameters (none stays none); dot-less and reserved names are refused with an error to the handler and zero frames on the wire; the four built-in helpers arrive as their typed errors carrying exactly the given Unicode string. Every fifth case follows a reply written into a connection its client has closed; eight concurrent clients with error names from a shared set of five.",
  "Trusted: the 10-line name model. Names with an empty member part: consistency only.",
  "runtime monitor: reference-model oracle over client error values, handler step results and captured wire frames", "DESIGN.md §4 C12"),
 "C13": ("e-pair", "exploration",
  "Histories of register / duplicate register / serve / register-while-serving / shutdown / register-again / serve-again on one Service object with hostile identity strings and descriptions; after every operation done while serving a real client compares GetInfo, GetInterfaceDescription (every listed name and 7 near-misses each), Resolver.GetInfo and Resolver.Resolve with a small model; RegisterInterface must be refused exactly when duplicate or serving. A quarter of the serve periods end by idle timeout instead of Shutdown; out-variables hold stale values. One name registered by 2-8 goroutines at the same instant (spinning barrier): exactly one call may return nil.",
  "Trusted: the model (ordered name list + description map + serving flag). Non-empty names, valid UTF-8.",
  "runtime monitor: model-based history checking through the client helpers", "DESIGN.md §4 C13"),
 "C14": ("e-life", "exploration",
  "(A) A controlled net.Listener is installed through the white-box accessor and DoListen runs on it: the accept loop's steps are exactly its calls on the listener, so every valid history over {connect, call, close, abort, handler fails, cancel context, second Bind, second Listen} up to a length bound (quick 4, thorough 5) is ended by Shutdown at each of 4 placements (parked in Accept, inside SetDeadline = before accept, inside Accept just before a connection is returned, racing from another goroutine), plus random longer histories. Further placements: from inside a handler, before and racing with the start of the serving call; a third serve period through Listen. Decided on event order only: accepted connections are released exactly when they end and counted out; listener closed by the time Shutdown returned; no service for a connection offered afterwards; no return while connections are open; nil return once they ended (refuted logically if the loop is parked on a listener nobody closed); re-bind + serve + shutdown of the same object. (B) real unix/TCP sockets with Listen and Bind+DoListen: client loops and a serve/Shutdown cycle recorded with logical call/return stamps and checked with porcupine against 'ok only while bound'. Histories include a call followed in the same segment by the start of a frame that is never completed. Three consecutive periods with a context each: the earlier context ends during the later period. Two Service objects in one process using the same address string tcp:127.0.0.1:0. A Shutdown that came before serving is followed by a second period of the same object, with and without a serving call in between.",
  "Trusted: controlled listener/conn (300 lines), porcupine v1.3.0, bounded progress (10 s per loop step, 20 s for the serving call to return). The drain grace (8 ms) and late-connection window (3 ms) are one-sided.",
  "runtime monitor: deterministic schedule control at the net.Listener boundary (bounded-exhaustive histories) + event-order oracle; porcupine linearizability check of recorded real-socket histories", "DESIGN.md §4 C14"),
 "C15": ("e-life", "exploration",
  "(A) The controlled listener's deadline is virtual: SetDeadline arms it and the harness makes the parked Accept return a timeout error, so every valid history over {connect, call, close, abort, expiry} up to length 5 (thorough 10) places expiries exactly while a connection is verifiably open (must re-arm, re-enter Accept, keep serving) or after the active count reached 0 (must return ServiceTimeoutError with the listener closed); timeout 0 must never arm nor stop. The same object is afterwards served the other way round (timed/untimed), some histories follow a period ended by Shutdown with open connections. (B) real clock, T=150 ms, one-sided margins: second client served after 2.5 T with one connection open; ServiceTimeoutError after the last close; then dial fails, socket file gone, same address served again at once. A connection late in the period must postpone the stop to at least T after it began to dial (exact, one-sided); 26 connections closing at the same instant. The late-connection check also runs with serving contexts that carry a deadline inside the idle period or far later. A second history alphabet adds connections that the service itself ends (handler failure, non-call frame). Bystander connections of the same process (a client Connection to another service) stay open during the idle period.",
  "Trusted: controlled listener; real-clock part asserts only what holds for a correct service under any load (bounds 200 T).",
  "runtime monitor: virtual-time fault injection (accept-timeout expiry) at the net.Listener boundary over bounded-exhaustive histories + event-order oracle; real-clock one-sided checks", "DESIGN.md §4 C15"),
 "C16": ("e-race", "exploration",
  "The driver is rebuilt with -race; every pair (thorough: and triple) of the service API operations the statement lists runs concurrently, with seeded start offsets and repetitions, against a Listen or DoListen that is known to be serving; connections used by one goroutine at a time run cancelled and timed-out I/O with the caller reusing its buffers at once; handlers are cancelled while blocked in connection I/O; the concurrent-connection workload of C01 (thorough: C14 epochs, C17 matrix) is re-run in the race build. Any race report with a github.com/varlink/go frame is a violation (de-duplicated by the pair of library frames). Fresh services get their first calls from several connections at the same instant (readiness = bare connect), half of them stop by a real idle expiry; handlers reply unencodable values; reports whose access is made by the harness' own white-box accessor are not counted; reports written before a child died are still judged. Bridge subprocesses that write to stderr. Up to five registered names, new names that sort first, introspection on the connection that outlives Shutdown.",
  "Trusted: the Go race detector (reports only races whose both accesses executed). Reports without a library frame would be harness bugs (none observed).",
  "Go race detector (-race build, GORACE log files) over an operation-tuple stress workload", "DESIGN.md §4 C16"),
 "C17": ("e-ctx", "exploration",
  "The matrix {raw Read, ReadBytes, Write, client receive, Call, Send} x {in-memory pipe, unix, TCP, real Connection, bridge subprocess} x {cancel, deadline}/explicit cancel with a distant deadline x {before the call, blocked idle, blocked after a partial frame, after completion} with seeded cancel offsets. Per cell: the operation returns within the bound with a context/timeout error (goroutine dump must show it parked in the library otherwise); no goroutine remains in the library's connection; a follow-up read with a live context must block until the peer sends and then return exactly the new frame (optionally preceded by a suffix of the in-flight partial frame); a follow-up write arrives intact; a complete Call on the same Connection succeeds. Service side: idle / mid-frame / used connections and handlers blocked in Call.Conn I/O all end when the serving context is cancelled. Further instants: a partial frame already in the library's buffer when the operation starts; many small writes until one blocks. Bridges that close their output but linger, stay silent, exit or complain.",
  "Trusted: goroutine dump parsing ('internal/ctxio.(*Conn)' frames); bounded progress 10 s. An expired deadline left armed on the net.Conn is not observable through the API (every operation re-arms first) and is not asserted.",
  "runtime monitor: cancellation/deadline fault matrix + goroutine-leak monitor + stream-continuity oracle on reuse", "DESIGN.md §4 C17"),
 "C18": ("e-ctx", "exploration",
  "Stream-integrity monitor (exactly-once, in order): a known byte stream with NULs anywhere is sent under segmentation schedules over pipe / unix / TCP and consumed through seeded interleavings of ReadBytes and Read(n) of many sizes; after every read the concatenation must be a prefix of what was sent and equal at end of stream. End to end: upgrade call + payload in one segment to a real Service whose handler reads Call.Conn; reply frame + payload in one segment to a real Connection that called Upgrade. A frame read must end at the first delimiter; frames whose length with the delimiter is a multiple of 4096 (or 1-3 bytes off) are followed by payload in the same segment. Reads whose context has ended are not judged here (C17 judges them).",
  "Trusted: the peer-side writer. net.Pipe refuses deadlines once the other end is closed, so on the in-memory pipe no verdict is drawn on bytes still buffered at that moment.",
  "runtime monitor: stream-integrity (prefix) oracle over interleaved read primitives and segmentation schedules", "DESIGN.md §4 C18"),
 "C19": ("e-addr", "exploration",
  "Address grammar (22 forms x 6 ';' tails) x {Bind, Listen} x {fresh object, object with a valid unserved Bind, object after serve+shutdown} x {no file, stale socket, regular file at the path}, each call under recover(). Strings the statement calls invalid must be refused whatever was bound before; forms listed valid must succeed; whenever binding succeeds a client given the SAME string must complete a GetInfo round trip with this service's unique product string; abstract names create no file and are reachable by raw dial; filesystem sockets exist after bind and are gone after Shutdown; the same object binds and serves a fresh valid address after every outcome. Strings also come from free compositions of protocol parts, separators and body tokens judged by the classification alone.",
  "Trusted: the 15-line classifier written from the statement. unix:@ and port 0 judged for totality only; no host names (no resolver in the sandbox).",
  "runtime monitor: reference-classifier oracle + client/service consistency round trips + filesystem observations, panic monitor", "DESIGN.md §4 C19"),
 "C20": ("e-activ", "exploration",
  "The full product of the quantifier (4 x 8 x 8 x 3 = 768 configurations; thorough x 3 kinds of non-selected descriptors) is enumerated completely: a helper process inherits three distinguishable candidates as fds 3,4,5, sets LISTEN_PID per case and calls Service.Listen(fallback). A 20-line model from the statement says which single endpoint must answer GetInfo with the helper's unique identity; no other candidate may answer; the helper must not panic. Extra cases: inherited listening TCP sockets. Up to three serve periods in one activated process with forced garbage collections in between. The process changes LISTEN_PID between two periods. A second Service object in a process whose first service fell back to its address argument.",
  "Trusted: the selection model (A.6); kernel fd inheritance via exec ExtraFiles. The negative probes are one-sided (15 ms).",
  "runtime monitor: exhaustive configuration enumeration through a helper subprocess + reference-model oracle on which endpoint answers", "DESIGN.md §4 C20"),
 "C07": ("e-gen", "translation_validation",
  "Per-program validation of the generator: the generator binary built from the tree under test is run (twice, for determinism) on every description of a set that covers the quantifier (23 fixed special cases, every type of depth <= 2 at method input / output / error parameter / alias body / nested positions, seeded random descriptions in 4 layouts, all filtered through the real parser so that only accepted descriptions count); every output is compiled in a batch module against the tree's varlink package by the Go compiler; the compiled packages report VarlinkGetName()/VarlinkGetDescription(), compared with the description. Generator exit status, panic text, file count, package clause and byte-identical second run are checked per program. Interface names whose labels run together into a Go keyword or main.",
  "Trusted: the Go compiler as oracle of 'compiles and type-checks'; my description generator's reading of the domain (member names [A-Z][A-Za-z0-9]* outside the generator's fixed identifiers). One known finding (field named 'error' in an error) is listed in KNOWN_FINDINGS.json.",
  "runtime validation per generated program: run the generator binary, compile its output with the Go compiler, execute and compare reported name/description (translation validation by execution)", "DESIGN.md §4 C07"),
 "C08": ("e-gen", "translation_validation",
  "Differential execution of every generated package: harness-written glue (own type printer) implements the generated interface and registers the generated client stubs; a real Service and a real Connection are connected through a recording proxy and every overridden method is driven with generated values of its declared types through Call / error reply / more-sequence / oneway / upgrade scenarios. Wire frames, the Go values received by the implementation, and the values or typed errors returned by the client stubs are compared with the abstract values per the varlink JSON mapping; plus MethodNotImplemented, MethodNotFound and InvalidParameter paths.",
  "Trusted: the reflective runtime (genrt/rt.go: value generator, reference matcher of the JSON mapping, reflection bridge), Go compiler. nil and empty containers equal; null tolerated for absent optionals and empty containers on the wire.",
  "runtime differential execution of generated client and service stubs against a reference encoding of the varlink JSON mapping (translation validation by execution)", "DESIGN.md §4 C08"),
}

NOT_YET = {}

def main():
    props = [json.loads(l) for l in open(os.path.join(ROOT, "properties.jsonl"))]
    ids = [p["id"] for p in props]
    extra = {}
    ex = os.path.join(ROOT, "tools", "manifest_extra.json")
    if os.path.exists(ex):
        extra = json.load(open(ex))
    checks = []
    FP_IDS = {"C01", "C02", "C03", "C04", "C10", "C11", "C12", "C13", "C14", "C15", "C17", "C18"}
    FP_TECH = "; plus a failpoint pass: the same workload and oracles once more in a gofail (v0.2.0) build whose failpoints - inserted syntactically in front of every statement of varlink and varlink/internal/ctxio that can take part in an interleaving - inject seeded delays (never values or errors)"
    FP_TEXT = " The workload is run a second time (quick-tier case counts) in a failpoint build of a scratch copy of the tree under test while a seeded scheduler delays the library at changing sites (DESIGN 2.3a); the evidence reports the sites, the sites reached while active and the delays injected under fp_*."
    table = dict(CHECKS)
    table.update({k: tuple(v) for k, v in extra.get("checks", {}).items()})
    for i in ids:
        if i not in table:
            continue
        eng, cat, text, note, tech, ref = table[i]
        if i in FP_IDS:
            tech += FP_TECH
            text += FP_TEXT
        checks.append({
            "property_id": i,
            "quick_cmd": f"./check {i} quick",
            "thorough_cmd": f"./check {i} thorough",
            "evidence_file": f"/verif/evidence/{i}.json",
            "replay_cmd_template": f"./check {i} --replay {{path}}",
            "engine": eng,
            "level_claimed": {"category": cat, "text": text, "design_ref": ref},
            "level_note": note,
            "technique": tech,
        })
    na = []
    reasons = extra.get("not_applicable", {})
    for i in ids:
        if i not in table:
            na.append({"property_id": i, "reason": reasons.get(i, "check not built yet (work in progress; no claim is made for this property at this commit)")})
    m = {
        "version": 1,
        "setup_cmd": "./check --build",
        "hooks": {
            "guard": "verif",
            "enable": "go build -tags verif -overlay <map>: /verif/overlay/varlink_whitebox.go and varlink_whitebox_active.go are injected as /repo/varlink/zz_verif_whitebox.go and zz_verif_whitebox_active.go at build time (if the tree under test has no Service.conncounter, varlink_whitebox_noactive.go is used instead and the monitors run without the connection count); nothing is committed into /repo for instrumentation. Failpoint pass (C01-C04, C10-C15, C17, C18): ./check copies $VERIF_REPO/varlink to a scratch directory under /tmp, inserts gofail failpoint comments (harness/cmd/fpinsert), runs `gofail enable`, builds the driver against that copy with -tags \"verif verif_fp\" and removes the copy; VERIF_NO_FP=1 switches the pass off",
            "baseline_off_cmd": "cd /repo && GOFLAGS=-mod=mod GOPROXY=off GOSUMDB=off GOTOOLCHAIN=local go test -json -vet=off -count=1 -timeout 25m ./...",
            "source_commits": [],
            "add_only": True,
        },
        "engines": extra.get("engines", [
            {"name": "e-idl", "path": "harness/internal/eng/idl_*.go", "serves_properties": ["C05", "C06", "C09"], "kind_free_text": "generators + reference-tree / print-equality / totality monitors around idl.New"},
            {"name": "e-conn", "path": "harness/internal/eng/conn_*.go, model.go, netcommon.go", "serves_properties": ["C01", "C04", "C10"], "kind_free_text": "raw-socket scripted connections against a real Service with a scripted dispatcher; sequential connection model; abort enumeration"},
            {"name": "e-pair", "path": "harness/internal/eng/pair_*.go", "serves_properties": ["C02", "C03", "C12", "C13"], "kind_free_text": "real Connection <-> real Service through a recording, re-segmenting proxy on 4 transports"},
            {"name": "e-life", "path": "harness/internal/eng/life_*.go", "serves_properties": ["C14", "C15"], "kind_free_text": "controlled net.Listener/net.Conn histories (virtual deadline), real-socket epochs, porcupine"},
            {"name": "e-race", "path": "harness/internal/eng/race_c16.go, harness/internal/racelog", "serves_properties": ["C16"], "kind_free_text": "-race build of the driver, operation tuples, race-log parser"},
            {"name": "e-ctx", "path": "harness/internal/eng/ctx_*.go", "serves_properties": ["C17", "C18"], "kind_free_text": "cancellation/deadline matrix, stream-integrity monitor, goroutine-leak monitor"},
            {"name": "e-addr", "path": "harness/internal/eng/addr_c19.go", "serves_properties": ["C19"], "kind_free_text": "address grammar against Bind/Listen/NewConnection"},
            {"name": "e-activ", "path": "harness/internal/eng/activ_c20.go", "serves_properties": ["C20"], "kind_free_text": "helper process under every activation environment"},
            {"name": "e-gen", "path": "harness/internal/eng/gen_c07.go, harness/internal/eng/genrt/rt.go", "serves_properties": ["C07", "C08"], "kind_free_text": "generator binary -> go build of a batch module -> differential execution of the generated stubs"},
            {"name": "e-client", "path": "harness/internal/eng/client_c11.go", "serves_properties": ["C11"], "kind_free_text": "real Connection against a scripted raw server with death offsets"},
        ]),
        "checks": checks,
        "not_applicable": na,
        "notes": "All checks: ./check <ID> quick|thorough [--replay file]; exit 0 held (KNOWN-FINDING / INCONCLUSIVE lines possible), 1 with VIOLATION lines, 3 harness error. VERIF_SEED selects the seed; VERIF_REPO (default /repo) the tree under test. Known and fixed findings: /verif/KNOWN_FINDINGS.json.",
    }
    json.dump(m, open(os.path.join(ROOT, "MANIFEST.json"), "w"), indent=1)
    print("MANIFEST.json:", len(checks), "checks,", len(na), "not claimed")

main()
