#!/bin/bash
# tools/seedconfirm.sh <ID> <A|B> <srcdir>  - confirm a seeded change on a scratch copy of /repo:
#   builds, passes the existing suite, its demonstration fails with the change and passes without it.
# Prints one line: ID VARIANT build=ok suite=ok demo_with=FAIL demo_without=PASS
set -u
id="$1"; v="$2"; src="${3:-/tmp/wt/out}"
export GOFLAGS=-mod=mod GOPROXY=off GOSUMDB=off GOTOOLCHAIN=local
d=$(mktemp -d /tmp/seedconf.XXXXXX)
cp -r /repo/. "$d"/ && rm -rf "$d/.git" && (cd "$d" && git init -q && git add -A >/dev/null 2>&1 && git -c user.email=a@b -c user.name=x commit -qm base >/dev/null 2>&1)
patch="$src/${id}_${v}_patch.diff"; [ -f "$patch" ] || patch="$src/patch_${v}.diff"
(cd "$d" && git apply "$patch") || { echo "$id $v PATCH-DOES-NOT-APPLY"; rm -rf "$d"; exit 2; }
b=fail; (cd "$d" && go build ./varlink/... ./cmd/varlink-go-interface-generator/ >/dev/null 2>&1) && b=ok
s=fail
for try in 1 2 3; do (cd "$d" && go test -vet=off -count=1 ./varlink/... ./cmd/varlink-go-interface-generator/ >"$d/suite.log" 2>&1) && { s=ok; break; }; done
rundemo() {
  if [ -f "$src/${id}_${v}_demo_test.go" ]; then
    f="$src/${id}_${v}_demo_test.go"
    dir=varlink; head -3 "$f" | grep -q "varlink/idl" && dir=varlink/idl; head -3 "$f" | grep -q "internal/ctxio" && dir=varlink/internal/ctxio
    cp "$f" "$d/$dir/zz_${id}_${v}_demo_test.go"
    names=$(grep -oE '^func (Test[A-Za-z0-9_]+)' "$f" | awk '{print $2}' | paste -sd'|')
    race=""; [ "$id" = C16 ] && race="-race"
    (cd "$d/$dir" && timeout 300 go test $race -vet=off -count=1 -run "^($names)\$" . >"$d/demo.log" 2>&1); rc=$?
    if [ "$id" = C16 ] && grep -q "DATA RACE" "$d/demo.log"; then rc=1; fi
    rm -f "$d/$dir/zz_${id}_${v}_demo_test.go"
    return $rc
  elif [ -f "$src/${id}_${v}_demo.sh" ]; then
    (cd "$src" && WT="$d" timeout 300 bash "$src/${id}_${v}_demo.sh" >"$d/demo.log" 2>&1); return $?
  elif [ -d "$src/${id}_${v}_demo" ]; then
    rm -rf "$d/demo_tmp"; cp -r "$src/${id}_${v}_demo" "$d/demo_tmp"
    grep -rl "/tmp/wt/$id" "$d/demo_tmp" 2>/dev/null | xargs -r sed -i "s#/tmp/wt/$id#$d#g"
    (cd "$d/demo_tmp" && WT="$d" timeout 300 bash ./run.sh >"$d/demo.log" 2>&1); return $?
  fi
  return 99
}
rundemo; w=$?; cp "$d/demo.log" "$d/demo_with.log" 2>/dev/null
(cd "$d" && git apply -R "$patch")
rundemo; wo=$?
dw=PASS; [ $w -ne 0 ] && dw=FAIL; [ $w -eq 99 ] && dw=NODEMO
dwo=PASS; [ $wo -ne 0 ] && dwo=FAIL
echo "$id $v build=$b suite=$s demo_with_change=$dw demo_without_change=$dwo"
[ "$s" = fail ] && tail -5 "$d/suite.log"
[ "$dwo" = FAIL ] && tail -8 "$d/demo.log"
rm -rf "$d"
