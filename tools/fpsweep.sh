#!/bin/bash
# silence sweep of the checks that have a failpoint pass
for seed in 2 3 4 5 6 7; do for id in C01 C02 C03 C04 C10 C11 C12 C13 C14 C15 C17 C18; do
  out=$(VERIF_SEED=$seed ./check $id quick 2>&1); rc=$?
  echo "seed=$seed $id rc=$rc $(echo "$out" | grep -c '^VIOLATION') viol; $(echo "$out" | grep -E '^(VIOLATION|INCONCLUSIVE|HARNESS|NOTE|  signature)' | head -4 | tr '\n' '|')"
done; done
