#!/bin/bash
# tools/matrix.sh [parallelism] [glob]  - every stored seeded change against the quick tier of the check of its own property
# (scratch copies of /repo under /tmp, removed after each run); prints one "== ..." block per change
ROOT="$(cd "$(dirname "$0")/.." && pwd)"
P="${1:-6}"; G="${2:-*}"
ls -d "$ROOT"/seeded/$G/ | while read d; do k=$(basename "$d"); echo "${k%-*} $d"; done |
  xargs -P "$P" -L 1 bash -c 'SEEDRUN_LINES=4 VERIF_NO_FP=${VERIF_NO_FP-1} bash "'"$ROOT"'/tools/seedrun.sh" "$1/patch.diff" "$0" quick 2>&1 | sed "s#^== \(C[0-9]*\) quick patch.diff#== \1 quick $(basename $1)#"'
