#!/usr/bin/env python3
"""Prints the markdown table for DESIGN.md 6.4 from the log of a thorough sweep (lines 'CXX thorough seed=..')."""
import re, sys
print("| check | evaluations | distinct non-trivial | violations | known findings | inconclusive | wall |")
print("|---|---|---|---|---|---|---|")
for l in open(sys.argv[1]):
    m = re.match(r'(C\d\d) thorough seed=(\d+): evaluations=(\d+) distinct_nontrivial=(\d+) violations=(\d+) known=(\d+) inconclusive=(\d+) wall=([\d.]+)s', l)
    if m:
        g = m.groups()
        print(f"| {g[0]} | {int(g[2]):,} | {int(g[3]):,} | {g[4]} | {g[5]} | {g[6]} | {g[7]} s |")
