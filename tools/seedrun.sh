#!/bin/bash
# tools/seedrun.sh <patch.diff> <ID> [quick|thorough]  - run one check against a scratch copy of /repo with the patch applied
set -u
patch="$1"; id="$2"; tier="${3:-quick}"
d=$(mktemp -d /tmp/seedrun.XXXXXX)
cp -r /repo/. "$d"/ && rm -rf "$d/.git" && (cd "$d" && git init -q && git add -A >/dev/null 2>&1)
if ! (cd "$d" && git apply "$patch"); then echo "PATCH-DOES-NOT-APPLY $patch"; rm -rf "$d"; exit 2; fi
ROOT="$(cd "$(dirname "$0")/.." && pwd)"
out=$(cd "$ROOT" && VERIF_REPO="$d" VERIF_TIMEOUT=${VERIF_TIMEOUT:-1200} ./check "$id" "$tier" 2>&1)
n=$(printf '%s\n' "$out" | grep -c '^VIOLATION')
echo "== $id $tier $(basename "$patch"): $n violation line(s)"
printf '%s\n' "$out" | grep -A2 '^VIOLATION' | cut -c1-260 | head -${SEEDRUN_LINES:-9}
printf '%s\n' "$out" | grep -E "^$id |HARNESS-ERROR|INCONCLUSIVE" | head -3 | cut -c1-200
key=$(printf '%s' "$d" | cksum | cut -d' ' -f1); rm -rf "$ROOT/bin/$key" "$d"
