#!/bin/bash
# tools/thorough.sh "<ids>" [parallelism]  - thorough tier of the given checks on the unchanged tree, seed ${VERIF_SEED:-1}
ROOT="$(cd "$(dirname "$0")/.." && pwd)"; cd "$ROOT"
echo $1 | tr ' ' '\n' | xargs -P "${2:-3}" -I{} bash -c 't0=$(date +%s); out=$(./check {} thorough 2>&1); rc=$?; echo "{} rc=$rc $(( $(date +%s) - t0 ))s $(echo "$out" | grep -E "^{} thorough" | cut -c1-160) | $(echo "$out" | grep -E "^(VIOLATION|INCONCLUSIVE|HARNESS|  signature)" | head -4 | cut -c1-200 | tr "\n" "|")"'
